import os, sys; sys.path.insert(0, os.environ.get('PLOTINK_ROOT', '/tmp/wte_C01'))
"""
Check of property C01 (timed-move prediction == firmware step-accumulator recurrence).

Oracle: a literal integer simulation of the firmware ISR (tick loop) for small T and an
exact integer closed form (itself validated against the tick loop) for large T.
Emphasis of this demo: the position/remainder split for backward moves (negative totals:
floor, not truncation; remainder always in [0, 2^31)), all four outcomes of the clear
decision, the zero-tick early exit, plain-int result types, agreement of the two deprecated
aliases with the primary function (also with logging switched on), and independence from
the ambient mpmath precision.  Deterministic; no hardware.
"""
import logging
import random
import itertools
import mpmath
from plotink import ebb_calc, ebb_motion

TWO31 = 1 << 31
RMAX = TWO31 - 1
FAILS = []
COUNT = [0]


def trunc_half(accel):
    """accel/2 truncated toward zero, in pure integer arithmetic."""
    return accel // 2 if accel >= 0 else -((-accel) // 2)


def clear_value(rate, accel):
    """Accumulator after 'clear': look for the first tick with non-zero rate."""
    r = rate - trunc_half(accel)
    for _ in range(3):
        r += accel
        if r > 0:
            return 0
        if r < 0:
            return RMAX
    return 0  # never moves (rate_1 == 0 and accel == 0)


def firmware_loop(rate, accel, ticks, accum):
    """Literal tick-by-tick firmware recurrence. accum is int or 'clear'."""
    total = clear_value(rate, accel) if accum == "clear" else accum
    r = rate - trunc_half(accel)
    for _ in range(ticks):
        r += accel
        assert -RMAX <= r <= RMAX, "test generator left the firmware domain"
        total += r
    pos = total // TWO31          # floor
    return pos, total - pos * TWO31


def firmware_closed(rate, accel, ticks, accum):
    """Exact integer closed form of the same recurrence (for large tick counts)."""
    total = clear_value(rate, accel) if accum == "clear" else accum
    r0 = rate - trunc_half(accel)
    total += ticks * r0 + accel * (ticks * (ticks + 1) // 2)
    pos = total // TWO31
    return pos, total - pos * TWO31


def in_domain(rate, accel, ticks):
    r1 = rate - trunc_half(accel) + accel
    rt = rate - trunc_half(accel) + accel * ticks
    return abs(r1) <= RMAX and abs(rt) <= RMAX and ticks >= 1


def disturb_precision(i):
    """Leave some arbitrary ambient mpmath precision behind, like a careless caller."""
    choice = i % 6
    if choice == 0:
        mpmath.mp.dps = 5
    elif choice == 1:
        mpmath.mp.prec = 24
    elif choice == 2:
        mpmath.mp.dps = 15
    elif choice == 3:
        mpmath.mp.dps = 200
    elif choice == 4:
        mpmath.mp.prec = 53
    else:
        mpmath.mp.dps = 8


def check(rate, accel, ticks, accum, oracle, with_aliases=True):
    COUNT[0] += 1
    want = oracle(rate, accel, ticks, accum)
    disturb_precision(COUNT[0])
    if accum == "clear" and COUNT[0] % 2:
        got = ebb_calc.move_dist_lt(rate, accel, ticks)       # default argument
    else:
        got = ebb_calc.move_dist_lt(rate, accel, ticks, accum)
    ok = (tuple(got) == want and type(got[0]) is int and type(got[1]) is int
          and 0 <= got[1] < TWO31)
    if not ok:
        FAILS.append(("move_dist_lt", rate, accel, ticks, accum, got, want))
    if with_aliases:
        disturb_precision(COUNT[0] + 3)
        got_a = ebb_motion.moveDistLMA(rate, accel, ticks, accum)
        if tuple(got_a) != want:
            FAILS.append(("moveDistLMA", rate, accel, ticks, accum, got_a, want))
        disturb_precision(COUNT[0] + 1)
        got_d = ebb_motion.moveDistLM(rate, accel, ticks)
        want_d = oracle(rate, accel, ticks, 0)[0]
        if got_d != want_d or type(got_d) is not int:
            FAILS.append(("moveDistLM", rate, accel, ticks, 0, got_d, want_d))


def main():
    rnd = random.Random(303)

    # 0. the closed-form oracle agrees with the literal tick loop
    for _ in range(1500):
        ticks = rnd.randint(1, 400)
        accel = rnd.randint(-4000000, 4000000)
        rate = rnd.randint(-400000000, 400000000)
        accum = rnd.choice(["clear", rnd.randrange(TWO31)])
        assert in_domain(rate, accel, ticks)
        assert firmware_loop(rate, accel, ticks, accum) == \
            firmware_closed(rate, accel, ticks, accum)

    # 1. backward moves that cross zero by a hair: the total is -1, -2, ..., or exactly
    #    -k*2^31; position must be floor(total / 2^31) and the remainder non-negative
    for rate in (-1, -2, -3, -RMAX, -(1 << 30), -(1 << 30) - 1):
        for ticks in (1, 2, 3, 4, 8, 64):
            for accum in ("clear", 0, 1, 2, RMAX, -rate - 1 if -rate - 1 < TWO31 else 0,
                          (-rate * ticks) % TWO31, (-rate * ticks - 1) % TWO31):
                check(rate, 0, ticks, accum, firmware_loop)
    for _ in range(500):
        ticks = rnd.randint(1, 300)
        rate = -rnd.randint(0, RMAX)
        lim = (RMAX - abs(rate)) // ticks
        accel = rnd.randint(-lim, lim // 4)
        if not in_domain(rate, accel, ticks):
            continue
        total_motion = firmware_closed(rate, accel, ticks, 0)
        for accum in ("clear", 0, RMAX, (TWO31 - total_motion[1]) % TWO31,
                      (TWO31 - total_motion[1] - 1) % TWO31):
            check(rate, accel, ticks, accum, firmware_loop, with_aliases=False)

    # 2. the four outcomes of the clear decision (rate_1 > 0, < 0, == 0 with accel >= 0 / < 0),
    #    each with small and large numbers, one tick and many ticks
    for accel in (-2000001, -2000000, -3, -2, -1, 0, 1, 2, 3, 2000000, 2000001):
        for delta in (-2, -1, 0, 1, 2):
            rate = trunc_half(accel) - accel + delta      # rate_1 == delta
            for ticks in (1, 2, 3, 17, 400):
                if in_domain(rate, accel, ticks):
                    check(rate, accel, ticks, "clear", firmware_loop,
                          with_aliases=(ticks == 17))
    for rate, accel in itertools.product(range(-6, 7), range(-6, 7)):
        for ticks in (1, 2, 6):
            check(rate, accel, ticks, "clear", firmware_loop, with_aliases=False)

    # 3. random moderate moves against the literal loop
    for _ in range(1200):
        ticks = rnd.randint(1, 600)
        rate = rnd.randint(-RMAX, RMAX)
        lim = (RMAX - abs(rate)) // ticks
        accel = rnd.randint(-lim, lim) if rnd.random() < 0.8 else rnd.randint(-3, 3)
        if not in_domain(rate, accel, ticks):
            continue
        accum = rnd.choice(["clear", 0, RMAX, rnd.randrange(TWO31)])
        check(rate, accel, ticks, accum, firmware_loop, with_aliases=(rnd.random() < 0.5))

    # 4. long moves (T up to 2^32) against the closed form, mostly backward or reversing
    for _ in range(1200):
        ticks = rnd.choice([rnd.randint(1, 1 << 32), rnd.randint(1 << 20, 1 << 26),
                            (1 << 32) - rnd.randint(0, 3)])
        r_first = rnd.randint(-RMAX, RMAX // 3)
        r_last = rnd.randint(-RMAX, RMAX)
        accel = (r_last - r_first) // ticks if rnd.random() < 0.7 else rnd.randint(-1, 1)
        rate = r_first
        if not in_domain(rate, accel, ticks):
            continue
        accum = rnd.choice(["clear", 0, RMAX, rnd.randrange(TWO31)])
        check(rate, accel, ticks, accum, firmware_closed, with_aliases=(rnd.random() < 0.5))

    # 5. zero ticks: nothing moves, whatever the other inputs (documented early exit)
    for args in ((5, 5, 0), (5, 5, 0, 77), (-5, -5, 0, "clear"), (0, 0, 0, RMAX), (7, 0, 0.0)):
        got = ebb_calc.move_dist_lt(*args)
        if tuple(got) != (0, 0) or len(got) != 2:
            FAILS.append(("zero ticks", args, got))
    if ebb_motion.moveDistLM(9, 9, 0) != 0 or tuple(ebb_motion.moveDistLMA(9, 9, 0, 5)) != (0, 0):
        FAILS.append(("zero ticks via aliases",))

    # 6. aliases with logging switched on at DEBUG level (must not change any value)
    logging.basicConfig(level=logging.DEBUG, stream=open(os.devnull, "w"))
    logging.getLogger().setLevel(logging.DEBUG)
    for _ in range(300):
        ticks = rnd.randint(1, 2000)
        rate = rnd.randint(-RMAX, RMAX)
        lim = (RMAX - abs(rate)) // ticks
        accel = rnd.randint(-lim, lim)
        if not in_domain(rate, accel, ticks):
            continue
        accum = rnd.choice(["clear", rnd.randrange(TWO31)])
        mpmath.mp.dps = rnd.choice([3, 15, 50])
        lma = ebb_motion.moveDistLMA(rate, accel, ticks, accum)
        mpmath.mp.dps = rnd.choice([3, 15, 50])
        lm = ebb_motion.moveDistLM(rate, accel, ticks)
        mpmath.mp.dps = rnd.choice([3, 15, 50])
        primary = ebb_calc.move_dist_lt(rate, accel, ticks, accum)
        want = firmware_loop(rate, accel, ticks, accum)
        if not (tuple(lma) == tuple(primary) == want and len(lma) == 2
                and lm == firmware_loop(rate, accel, ticks, 0)[0]):
            FAILS.append(("aliases", rate, accel, ticks, accum, lma, lm, primary, want))

    # 7. integer-valued float inputs are accepted and the library's own examples hold
    mpmath.mp.dps = 7
    if tuple(ebb_calc.move_dist_lt(412361511.0, -35357.0, 11362.0, 0)) != \
            firmware_loop(412361511, -35357, 11362, 0):
        FAILS.append(("float inputs",))
    if ebb_motion.moveDistLM(412361511, -35357, 11362) != 1119 or \
            ebb_motion.moveDistLM(47141172, 141428, 11333) != 4478:
        FAILS.append(("moveDistLM documented examples",))

    if FAILS:
        print("C01 demo: %d FAILURES out of %d cases" % (len(FAILS), COUNT[0]))
        for item in FAILS[:15]:
            print("   ", item)
        sys.exit(1)
    print("C01 demo: OK (%d cases)" % COUNT[0])


if __name__ == "__main__":
    main()
