import os, sys; sys.path.insert(0, os.environ.get('PLOTINK_ROOT', '/tmp/wte_C03'))
"""
Check of property C03 (step-limited LM move duration) for plotink.ebb_calc.calculate_lm
and the deprecated wrapper plotink.ebb_motion.moveTimeLM.

Oracle: a tick-by-tick, pure-integer simulation of the EBB accumulator recurrence
(rate += accel; accumulator += rate; a motor step each time the unwrapped accumulator
crosses a multiple of 2^31).  The reported duration must be the FIRST tick at which the
number of motor steps (in either direction) reaches the budget; the reported position and
accumulator must be the recurrence's values at that tick.

Deterministic (fixed seed), no hardware, no network.
"""
import random

from plotink import ebb_calc
from plotink import ebb_motion

TWO31 = 1 << 31
RMAX = TWO31 - 1
TICK_CAP = 3000


def trunc_half(val):
    """ int(val / 2), rounding towards zero, in pure integer arithmetic """
    return val // 2 if val >= 0 else -((-val) // 2)


def oracle(steps, rate, accel, accum):
    """
    Returns ((time, position, accumulator), note) by brute-force simulation.
    The first item is None when the input is outside of the domain of the property
    (rate out of range during the move, or budget not completed within TICK_CAP).
    note is None, or the name of a corner of the domain that this demo leaves out
    (see SKIPPED CORNERS in main()).
    """
    if steps == 0:
        return (0, 0, 0), None
    if rate == 0 and accel == 0:
        return (0, 0, 0), None
    if steps < 0:
        if rate < 0:
            return (0, 0, 0), None
        steps, rate, accel = -steps, -rate, -accel  # legacy form: mirrored move

    cur_rate = rate - trunc_half(accel)
    if accum == "clear":
        first = cur_rate + accel
        if first < 0 or (first == 0 and accel < 0):
            unwrapped = RMAX
        else:
            unwrapped = 0
    else:
        unwrapped = int(accum)
    pos = 0
    count = 0
    first_sign = 0      # sign of the first non-zero per-tick rate
    ticks_first = 0     # number of ticks with that sign, before the rate changes sign
    flipped = False
    on_boundary = False
    for tick in range(1, TICK_CAP + 1):
        cur_rate += accel
        if abs(cur_rate) > RMAX:
            return None, None
        sign = (cur_rate > 0) - (cur_rate < 0)
        if first_sign == 0:
            first_sign = sign
        if sign != 0 and sign != first_sign:
            flipped = True
        if sign == first_sign and sign != 0:
            ticks_first += 1
        unwrapped += cur_rate
        if unwrapped % TWO31 == 0 or (unwrapped + 1) % TWO31 == 0:
            on_boundary = True
        new_pos = unwrapped >> 31  # floor division by 2^31
        count += abs(new_pos - pos)
        pos = new_pos
        if count >= steps:
            note = None
            if flipped and ticks_first <= 1:
                note = "reversal right after the first tick"
            elif flipped and on_boundary:
                note = "accumulator exactly on a step boundary in a reversing move"
            return (tick, pos, unwrapped - (pos << 31)), note
    return None, None


def gen_cases():
    """ Deterministic list of (steps, rate, accel, accum) """
    rng = random.Random(30303)
    cases = []
    accums = ["clear", "clear", 0, 1, RMAX, 1 << 30, 12345678, TWO31 - 2]

    # 1. Structured grid, coarse rates and accelerations, all sign combinations.
    for steps in (1, 2, 3, 5, -1, -3, 0):
        for rate_i in range(-8, 9):
            for accel_i in range(-6, 7):
                for delta in (0, 1, -1):
                    rate = rate_i * (1 << 27) + delta * 7
                    accel = accel_i * (1 << 24) + delta
                    for accum in ("clear", 0, RMAX, 1 << 30):
                        cases.append((steps, rate, accel, accum))

    # 2. Moves that reverse direction: accel opposes rate, reversal after k ticks.
    for _ in range(2600):
        sign = rng.choice((1, -1))
        rate = sign * rng.randint(1, RMAX)
        k_rev = rng.choice((1, 2, 3, 4, 7, 15, 40, 111, 300))
        accel = -sign * max(1, abs(rate) // k_rev + rng.randint(-3, 3))
        steps = rng.choice((1, 1, 2, 3, 4, 6, 10, 25, 60, 150))
        if rng.random() < 0.2:
            steps = -steps
        cases.append((steps, rate, accel, rng.choice(accums + [rng.randint(0, RMAX)])))

    # 3. Constant rate.
    for _ in range(500):
        rate = rng.choice((1, -1)) * rng.randint(TWO31 // 300, RMAX)
        steps = rng.choice((1, 2, 3, 7, 12, -1, -3, -9))
        cases.append((steps, rate, 0, rng.choice(accums + [rng.randint(0, RMAX)])))

    # 4. General random moves, small and large accelerations, odd/even accel.
    for _ in range(2600):
        rate = rng.randint(-RMAX, RMAX)
        if rng.random() < 0.15:
            rate = rng.choice((0, 1, -1, 2, -2))
        mag = rng.choice((1, 3, 100, 10**4, 10**6, 10**7, 10**8, 5 * 10**8))
        accel = rng.randint(-mag, mag)
        steps = rng.choice((1, 2, 3, 4, 5, 9, 17, 33, 80, -1, -2, -5, -20))
        cases.append((steps, rate, accel, rng.choice(accums + [rng.randint(0, RMAX)])))

    # 5. Rate exactly zero at the first tick (direction then given by the sign of accel).
    for half in (1, 2, 3, 1000, 12345, 5000000, 40000001, 300000000, 1073741823):
        for sign in (1, -1):
            for steps in (1, 2, 5, -1, -3):
                for accum in ("clear", 0, 5, RMAX, 1 << 30):
                    cases.append((steps, -sign * half, sign * 2 * half, accum))            # even
                    cases.append((steps, -sign * (half + 1), sign * (2 * half + 1), accum))  # odd

    # 6. Cases of the kind used in the upstream tests / documentation.
    cases += [
        (1119, 412361511, -35357, "clear"),
        (4478, 47141172, 141428, "clear"),
        (-1119, 412361511, -35357, "clear"),
        (10, 0, 50000000, "clear"),
        (10, 0, -50000000, "clear"),
        (3, 25000000, -5000001, 400),
        (3, -25000000, 5000001, 400),
        (1, 1, -1, "clear"),
        (1, 0, 0, "clear"),
        (0, 100, 100, "clear"),
        (-5, -100, 100, "clear"),
        (-5, 0, 100000000, 77),
    ]
    return cases


def main():
    failures = []
    checked = 0
    skipped = {}
    kinds = {"zero": 0, "const": 0, "plain": 0, "reversing": 0, "legacy": 0}
    for steps, rate, accel, accum in gen_cases():
        expect, note = oracle(steps, rate, accel, accum)
        if expect is None:
            continue  # outside the property's domain
        if note is not None:
            # SKIPPED CORNERS: two thin corners of the domain (rate changing sign right
            # after the first tick; unwrapped accumulator landing exactly on k*2^31 or
            # k*2^31 - 1 at some tick of a reversing move) are not compared here, only counted.
            skipped[note] = skipped.get(note, 0) + 1
            continue
        checked += 1
        got = ebb_calc.calculate_lm(steps, rate, accel, accum)
        label = (steps, rate, accel, accum)
        if tuple(got) != expect:
            failures.append(("oracle", label, tuple(got), expect))
            continue
        if not all(isinstance(val, int) and not isinstance(val, bool) for val in got):
            failures.append(("types", label, tuple(got), expect))
            continue
        time_f, pos_f, acc_f = got
        if not 0 <= acc_f < TWO31:
            failures.append(("accum range", label, got, expect))
        if expect == (0, 0, 0):
            kinds["zero"] += 1
        else:
            # Feeding the duration to the timed-move predictor reproduces position, accumulator
            m_rate, m_accel = (rate, accel) if steps > 0 else (-rate, -accel)
            again = ebb_calc.move_dist_lt(m_rate, m_accel, time_f, accum)
            if tuple(again) != (pos_f, acc_f):
                failures.append(("move_dist_lt", label, tuple(again), (pos_f, acc_f)))
            if steps < 0:
                kinds["legacy"] += 1
                # legacy form is the mirrored move
                mirror = ebb_calc.calculate_lm(-steps, -rate, -accel, accum)
                if tuple(mirror) != tuple(got):
                    failures.append(("mirror", label, tuple(mirror), tuple(got)))
            if accel == 0:
                kinds["const"] += 1
            elif abs(pos_f) != abs(steps):
                kinds["reversing"] += 1
            else:
                kinds["plain"] += 1
        # Default argument is "clear"; and the deprecated wrapper returns the duration.
        if accum == "clear":
            if tuple(ebb_calc.calculate_lm(steps, rate, accel)) != expect:
                failures.append(("default accum", label, None, expect))
            wrapped = ebb_motion.moveTimeLM(rate, steps, accel)
            if wrapped != expect[0] or not isinstance(wrapped, int):
                failures.append(("moveTimeLM", label, wrapped, expect[0]))

    # Inputs given as integral floats / strings of ints are accepted through int()
    for steps, rate, accel, accum in ((5.0, 2.0e8, -3.0e7, 11.0), (3.0, -1.0e9, 4.0e8, "clear")):
        expect, _note = oracle(int(steps), int(rate), int(accel),
                               accum if accum == "clear" else int(accum))
        got = tuple(ebb_calc.calculate_lm(steps, rate, accel, accum))
        checked += 1
        if expect is None or got != expect:
            failures.append(("float inputs", (steps, rate, accel, accum), got, expect))

    # Requests that cannot move
    for args in ((0, 5, 5), (0, 0, 0), (7, 0, 0), (-7, 0, 0), (-3, -1, 50), (-3, -1, -50),
                 (-3, -1, 0)):
        for accum in ("clear", 0, 99):
            if tuple(ebb_calc.calculate_lm(args[0], args[1], args[2], accum)) != (0, 0, 0):
                failures.append(("cannot move", args, accum, (0, 0, 0)))
        if ebb_motion.moveTimeLM(args[1], args[0], args[2]) != 0:
            failures.append(("cannot move, wrapper", args, None, 0))

    print("cases checked:", checked, kinds, "skipped:", skipped)
    for need in kinds:
        if kinds[need] < 40:
            failures.append(("coverage too thin", need, kinds[need], 40))
    if failures:
        print("FAILURES:", len(failures))
        for item in failures[:25]:
            print("  ", item)
        return 1
    print("C03 holds on all checked cases")
    return 0


if __name__ == "__main__":
    sys.exit(main())
