import os, sys; sys.path.insert(0, os.environ.get('PLOTINK_ROOT', '/tmp/wte_C17'))
'''
Property C17 demo: the peak rate reported by ebb_calc.max_rate_t3 brackets the true
peak of the firmware T3 rate recurrence to within one jerk increment.

Oracle (independent of the library, exact integer / rational arithmetic only):
  * firmware recurrence, tick by tick:   accel += jerk ; rate += accel
    starting from rate - trunc(accel/2) + trunc(jerk/6) and accel - jerk;
  * its closed form R(k) = r_e + (accel - jerk) k + jerk k (k + 1) / 2, and the exact
    peak of |R| over 1..T (end points and the integers next to the rational vertex),
    validated against the tick-by-tick recurrence wherever T is small enough.

Checked for every case:
  P1  reported <= true peak of |R(k)|, k = 1..T
  P2  reported >= |R(1)| and reported >= |R(T)|
  P3  true peak - reported <= |jerk|
  P4  reported <= 2^31-1  implies  true peak <= 2^31-1 + |jerk|
  P5  rate_t3(k) == R(k) exactly at the first / last ticks and around the vertex
  P6  reported == the documented sampling rule (end points, plus the tick at the
      ceiling of the vertex when 1.5 < vertex < T - 1.5), evaluated with rationals

Deterministic (fixed seeds), no hardware, a few seconds.
'''
import random
from fractions import Fraction

from plotink import ebb_calc

LIMIT = 2**31 - 1
FAILURES = []
COUNTS = {}


def trunc_half(n):
    ''' n / 2 rounded towards zero, integer arithmetic only '''
    return n // 2 if n >= 0 else -((-n) // 2)


def trunc_sixth(n):
    ''' n / 6 rounded towards zero, integer arithmetic only '''
    return n // 6 if n >= 0 else -((-n) // 6)


def firmware_rates(ticks, rate, accel, jerk):
    ''' Tick-by-tick firmware recurrence; returns [R(1), ..., R(ticks)] '''
    cur_rate = rate - trunc_half(accel) + trunc_sixth(jerk)
    cur_accel = accel - jerk
    out = []
    for _ in range(ticks):
        cur_accel += jerk
        cur_rate += cur_accel
        out.append(cur_rate)
    return out


def closed_rate(k, rate, accel, jerk):
    ''' Closed form of the recurrence (exact: k (k + 1) is even) '''
    return (rate - trunc_half(accel) + trunc_sixth(jerk)
            + (accel - jerk) * k + jerk * (k * (k + 1) // 2))


def vertex(accel, jerk):
    ''' Exact rational position of the parabola vertex, 1/2 - accel/jerk '''
    return Fraction(jerk - 2 * accel, 2 * jerk)


def true_peak(ticks, rate, accel, jerk):
    ''' Exact max |R(k)| over k = 1..ticks without iterating over every tick '''
    cands = {1, ticks}
    if jerk != 0:
        vtx = vertex(accel, jerk)
        low = vtx.numerator // vtx.denominator
        for k in (low - 1, low, low + 1, low + 2):
            if 1 <= k <= ticks:
                cands.add(k)
    return max(abs(closed_rate(k, rate, accel, jerk)) for k in cands)


def documented_report(ticks, rate, accel, jerk):
    ''' The sampling rule the docstring / anchor describes, in exact arithmetic '''
    first = abs(closed_rate(1, rate, accel, jerk))
    if ticks <= 1:
        return first
    best = max(first, abs(closed_rate(ticks, rate, accel, jerk)))
    if jerk != 0:
        vtx = vertex(accel, jerk)
        if Fraction(3, 2) < vtx < ticks - Fraction(3, 2):
            k = -((-vtx.numerator) // vtx.denominator)   # ceiling
            best = max(best, abs(closed_rate(k, rate, accel, jerk)))
    return best


def fail(tag, case, detail):
    if len(FAILURES) < 25:
        FAILURES.append("%s %r: %s" % (tag, case, detail))
    else:
        FAILURES.append(None)


def check_case(tag, ticks, rate, accel, jerk, brute_limit=3000):
    case = (ticks, rate, accel, jerk)
    COUNTS[tag] = COUNTS.get(tag, 0) + 1

    peak = true_peak(ticks, rate, accel, jerk)
    if ticks <= brute_limit:
        rates = firmware_rates(ticks, rate, accel, jerk)
        brute = max(abs(r) for r in rates)
        if brute != peak:
            fail(tag, case, "oracle self-check: brute %d closed %d" % (brute, peak))
            return
        for k in {1, min(2, ticks), ticks, (ticks + 1) // 2}:
            if rates[k - 1] != closed_rate(k, rate, accel, jerk):
                fail(tag, case, "oracle self-check: closed form at tick %d" % k)
                return

    first = abs(closed_rate(1, rate, accel, jerk))
    last = abs(closed_rate(ticks, rate, accel, jerk))

    reported = ebb_calc.max_rate_t3(ticks, rate, accel, jerk)
    if type(reported) is not int:
        fail(tag, case, "reported value %r is not an int" % (reported,))
        return
    if reported > peak:
        fail(tag, case, "P1 reported %d > true peak %d" % (reported, peak))
    if reported < first:
        fail(tag, case, "P2 reported %d < first-tick rate %d" % (reported, first))
    if reported < last:
        fail(tag, case, "P2 reported %d < last-tick rate %d" % (reported, last))
    if peak - reported > abs(jerk):
        fail(tag, case, "P3 shortfall %d > |jerk| %d" % (peak - reported, abs(jerk)))
    if reported <= LIMIT and peak > LIMIT + abs(jerk):
        fail(tag, case, "P4 reported within limit, true peak %d" % peak)

    probe = {1, min(2, ticks), ticks, max(1, ticks - 1)}
    if jerk != 0:
        vtx = vertex(accel, jerk)
        low = vtx.numerator // vtx.denominator
        probe.update(k for k in (low, low + 1) if 1 <= k <= ticks)
    for k in probe:
        got = ebb_calc.rate_t3(k, rate, accel, jerk)
        want = closed_rate(k, rate, accel, jerk)
        if got != want or type(got) is not int:
            fail(tag, case, "P5 rate_t3(%d) = %r, recurrence gives %d" % (k, got, want))

    want = documented_report(ticks, rate, accel, jerk)
    if reported != want:
        fail(tag, case, "P6 reported %d, documented rule gives %d" % (reported, want))


def exhaustive_small():
    ''' Every combination on a small grid; covers extrema at ticks 1, 2, T-1, T, inside '''
    for ticks in range(1, 10):
        for rate in (-9, -4, -1, 0, 1, 3, 8):
            for accel in range(-8, 9):
                for jerk in range(-7, 8):
                    check_case("small", ticks, rate, accel, jerk)


def vertex_boundaries():
    ''' Vertex placed exactly on / next to the 1.5 and T-1.5 window edges and on integers '''
    for ticks in (1, 2, 3, 4, 5, 6, 7, 11, 40, 1000, 65537):
        for jerk in (-12, -7, -6, -2, -1, 1, 2, 5, 6, 12, 600, -601):
            for twice_vtx in sorted({1, 2, 3, 4, 5, 6, ticks, 2 * ticks - 4, 2 * ticks - 3,
                                     2 * ticks - 2, 2 * ticks - 1, 2 * ticks, 2 * ticks + 1,
                                     ticks + 1, -3, 0}):
                # vertex = twice_vtx / 2 exactly when accel = jerk (1 - twice_vtx) / 2
                num = jerk * (1 - twice_vtx)
                for accel in {trunc_half(num), trunc_half(num) + 1, trunc_half(num) - 1}:
                    for rate in (0, 17, -1000003, 5 * jerk * ticks):
                        check_case("edges", ticks, rate, accel, jerk)


def random_medium(rng):
    ''' Random moves, brute-force recurrence '''
    for _ in range(2500):
        ticks = rng.randint(1, 300)
        rate = rng.randint(-2**24, 2**24)
        accel = rng.randint(-2**17, 2**17)
        jerk = rng.choice((0, rng.randint(-2**10, 2**10), rng.randint(-9, 9)))
        check_case("medium", ticks, rate, accel, jerk)


def random_large(rng):
    '''
    Long moves built around a chosen vertex position (before, at the start of, inside,
    at the end of and after the move) and scaled so that the peak sits around 2^31-1;
    only moves whose true peak is a valid firmware rate (or one jerk beyond) are kept.
    '''
    kept = 0
    tries = 0
    while kept < 6000 and tries < 200000:
        tries += 1
        ticks = rng.choice((rng.randint(2, 50), rng.randint(50, 5000),
                            rng.randint(5000, 2**20), rng.randint(2**20, 2**25)))
        where = rng.choice((-0.3, 0.0, 0.001, 0.25, 0.5, 0.9, 0.999, 1.0, 1.4))
        span = max(1, ticks)
        jerk_cap = max(1, min(2**31 - 1, 8 * LIMIT // (span * span) + 3))
        jerk = rng.randint(1, jerk_cap) * rng.choice((-1, 1))
        vtx = int(where * ticks) + rng.randint(-2, 2)
        accel = trunc_half(jerk * (1 - 2 * vtx)) + rng.randint(-abs(jerk), abs(jerk))
        if abs(accel) > 2**31 - 1:
            continue
        # choose the initial rate so that the extremum lands near +/- the limit
        base_peak = true_peak(ticks, 0, accel, jerk)
        target = rng.choice((LIMIT, LIMIT - rng.randint(0, 2 * abs(jerk) + 2),
                             rng.randint(0, LIMIT)))
        rate = rng.choice((-1, 1)) * (target - base_peak) + rng.randint(-3, 3)
        if abs(rate) > 2**31 - 1:
            rate = rng.randint(-LIMIT, LIMIT)
        peak = true_peak(ticks, rate, accel, jerk)
        if peak > LIMIT + abs(jerk):
            continue            # not a firmware-valid move
        kept += 1
        check_case("large", ticks, rate, accel, jerk)
    if kept < 3000:
        FAILURES.append("large: generator produced only %d valid cases" % kept)


def limit_straddlers():
    ''' Moves whose reported peak is within the limit while the true one is just past it '''
    seen_over = 0
    for ticks in (5, 6, 9, 50, 1001):
        for jerk in (2, 7, 64, 1000, -2, -7, -64, -1000):
            for vtx in (2, 3, ticks // 2, ticks - 2, ticks - 1):
                for delta in (-1, 0, 1):
                    accel = trunc_half(jerk * (1 - 2 * vtx)) + delta
                    base = true_peak(ticks, 0, accel, jerk)
                    for slack in range(-2, abs(jerk) // 2 + 3, max(1, abs(jerk) // 16)):
                        for sign in (-1, 1):
                            rate = sign * (LIMIT - base + slack)
                            peak = true_peak(ticks, rate, accel, jerk)
                            if peak > LIMIT + abs(jerk) or abs(rate) > LIMIT:
                                continue
                            check_case("limit", ticks, rate, accel, jerk)
                            if peak > LIMIT >= ebb_calc.max_rate_t3(ticks, rate, accel, jerk):
                                seen_over += 1
    COUNTS["limit: true peak over, reported within"] = seen_over


def outside_domain_guards():
    ''' Current documented behaviour just outside the domain (T = 0); cheap regression guard '''
    for rate, accel, jerk in ((5, 7, 11), (-100, 33, -13), (0, 0, 0), (2**20, -2**10, 77)):
        if ebb_calc.rate_t3(0, rate, accel, jerk) != rate + accel + jerk:
            fail("t0", (0, rate, accel, jerk), "rate_t3 before the move")
        if ebb_calc.max_rate_t3(0, rate, accel, jerk) != abs(closed_rate(1, rate, accel, jerk)):
            fail("t0", (0, rate, accel, jerk), "max_rate_t3 of an empty move")


def main():
    exhaustive_small()
    vertex_boundaries()
    random_medium(random.Random(170017))
    random_large(random.Random(20240513))
    limit_straddlers()
    outside_domain_guards()

    for tag in sorted(COUNTS):
        print("%-45s %7d" % (tag, COUNTS[tag]))
    if FAILURES:
        shown = [f for f in FAILURES if f]
        print("FAILED: %d violation(s)" % len(FAILURES))
        for line in shown:
            print("  " + line)
        return 1
    print("C17 holds on all cases")
    return 0


if __name__ == "__main__":
    sys.exit(main())
