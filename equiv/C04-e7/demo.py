import os, sys; sys.path.insert(0, os.environ.get('PLOTINK_ROOT', '/tmp/e3_C04'))
'''
Property C04 demo: an EBB3 / EBBMotionWrap connection object latches its first
error and afterwards transmits nothing.

The oracle is independent of the library: a fake serial port records every
write() it is handed and (itself) looks at the owner's .err at that very moment.
A table of documented failure values says what each request has to return while
the object is latched or not connected.

Checked for every call, in every history:
  L1  a request made while (port is None or err is not None) hands no bytes to
      write(), raises nothing and returns its failure value;
  L2  once err is not None it is never replaced (same object for ever), also
      across disconnect() and connect();
  L3  no write() ever happens while err is not None, except the identification
      handshake inside connect() ('v' and 'CU,10,1' only) -- this also covers
      the remainder of the very call in which the error was recorded;
  L4  disconnect() writes nothing and leaves port None; connect() on an open
      port writes nothing and returns True.
Histories: (A) every request x every fault kind x every read/write position of
that request, followed by a sweep over all requests, a disconnect, a sweep, a
re-connect and a sweep; (B) faults at every position of connect(); (C) seeded
random call sequences with random faults; (D) documented expectations for the
handshake, the firmware-version test and the error messages.
'''
import random
from collections import deque

import serial
from plotink import ebb3_serial, ebb3_motion

PORT_NAME = 'FAKE0'
GOOD_VERSION = 'EBBv13_and_above EB Firmware Version 3.0.2'
HANDSHAKE = (b'v\r', b'CU,10,1\r')

WRITE_FAULTS = ('w_serial', 'w_timeout', 'w_notopen', 'w_oserror', 'w_runtime')
READ_FAULTS = ('r_serial', 'r_oserror', 'r_runtime', 'r_dead', 'r_blank', 'r_err',
               'r_err_prefixed', 'r_unexpected', 'r_nonascii', 'r_garbled')
OPEN_FAULTS = ('o_serial', 'o_reset_serial')

FAILURES = []


def fail(msg):
    FAILURES.append(msg)
    if len(FAILURES) <= 25:
        print('FAIL:', msg)


class Device:
    ''' Simulated EiBotBoard (firmware 3, "future" syntax) plus fault injector '''

    def __init__(self, version_line=GOOD_VERSION, nickname='Fred'):
        self.version_line = version_line
        self.nickname = nickname
        self.ram = {}
        self.pending = deque()
        self.writes = []            # everything ever handed to write()
        self.owner = None           # the EBB3 object under test
        self.current_call = None
        self.dead = False
        self.fault = None           # ('w'|'r'|'o', index, kind)
        self.n_w = 0
        self.n_r = 0
        self.opened = 0
        self.fired = False

    def arm(self, fault):
        self.fault = fault
        self.n_w = 0
        self.n_r = 0
        self.fired = False

    def disarm(self):
        self.fault = None

    def reply_to(self, text):
        if self.dead:
            return None
        if text == 'v':
            return self.version_line
        if text in ('RB', 'BL'):
            return None
        if text == 'QT':
            return 'QT,' + self.nickname
        if text.startswith('ST,'):
            self.nickname = text[3:]
            return 'ST'
        if text == 'QG':
            return 'QG,3E'
        if text == 'QE':
            return 'QE,16,16'
        if text == 'QS':
            return 'QS,1200,-340'
        if text == 'QC':
            return 'QC,0394,0300'
        if text.startswith('PI,'):
            return 'PI,1'
        if text.startswith('SL,'):
            _, value, index = text.split(',')
            self.ram[int(index)] = int(value)
            return 'SL'
        if text.startswith('QL,'):
            return 'QL,' + str(self.ram.get(int(text[3:]), 0))
        if len(text) == 1 or text[1] == ',':
            return text[0]
        return text[0:2]


class FakePort:
    ''' Stand-in for serial.Serial '''

    def __init__(self, dev, name, timeout=None):
        self.dev = dev
        self.name = name
        self.timeout = timeout
        self.closed = False
        dev.opened += 1

    def reset_input_buffer(self):
        dev = self.dev
        if dev.fault == ('o', 0, 'o_reset_serial') and not dev.fired:
            dev.fired = True
            raise serial.SerialException('injected')
        dev.pending.clear()

    def write(self, data):
        dev = self.dev
        dev.writes.append(data)
        owner = dev.owner
        if owner is not None and owner.err is not None:              # L3
            if not (dev.current_call == 'connect' and data in HANDSHAKE):
                fail(f'write {data!r} during {dev.current_call} while err is set')
        if dev.current_call == 'connect' and data not in HANDSHAKE + (b'QT\r',):
            fail(f'connect wrote {data!r}')
        fault = dev.fault
        index = dev.n_w
        dev.n_w += 1
        if fault is not None and fault[0] == 'w' and fault[1] == index:
            dev.fired = True
            kind = fault[2]
            if kind == 'w_serial':
                raise serial.SerialException('injected')
            if kind == 'w_timeout':
                raise serial.SerialTimeoutException('injected')
            if kind == 'w_notopen':
                raise serial.serialutil.PortNotOpenError()
            if kind == 'w_oserror':
                raise OSError('injected')
            raise RuntimeError('injected')
        reply = dev.reply_to(data.decode('ascii').strip())
        if reply is not None:
            dev.pending.append(reply)
        return len(data)

    def readline(self):
        dev = self.dev
        fault = dev.fault
        index = dev.n_r
        dev.n_r += 1
        reply = dev.pending.popleft() if dev.pending else None
        if fault is not None and fault[0] == 'r' and fault[1] == index:
            dev.fired = True
            kind = fault[2]
            if kind == 'r_serial':
                raise serial.SerialException('injected')
            if kind == 'r_oserror':
                raise OSError('injected')
            if kind == 'r_runtime':
                raise RuntimeError('injected')
            if kind == 'r_dead':
                dev.dead = True
                dev.pending.clear()
                return b''
            if kind == 'r_blank':
                if reply is not None:
                    dev.pending.appendleft(reply)   # only delayed
                return b''
            if kind == 'r_err':
                return b'!8 Err: Unknown command\r\n'
            if kind == 'r_err_prefixed':
                name = (reply or 'XX').split(',')[0]
                return (name + ',Err: parameter outside limit\r\n').encode('ascii')
            if kind == 'r_unexpected':
                return b'ZZ,1\r\n'
            if kind == 'r_nonascii':
                return b'\xff\xfe\r\n'
            name = (reply or 'XX').split(',')[0]
            return (name + ',xyz\r\n').encode('ascii')
        if reply is None:
            return b''
        return (reply + '\r\n').encode('ascii')

    def close(self):
        self.closed = True


CURRENT = {'dev': None, 'ports': [(PORT_NAME, 'EiBotBoard', 'USB VID:PID=04D8:FD92 SER=ABC LOCATION=1')]}


def fake_serial_factory(name, timeout=None):
    dev = CURRENT['dev']
    if dev.fault == ('o', 0, 'o_serial') and not dev.fired:
        dev.fired = True
        raise serial.SerialException('injected: could not open port')
    return FakePort(dev, name, timeout)


serial.Serial = fake_serial_factory
ebb3_serial.comports = lambda: list(CURRENT['ports'])


# Documented failure value of every request.
FAIL_VALUE = {
    'reboot': (False,), 'bootload': (False,), 'query_nickname': (None,),
    'write_nickname': (False,), 'command': (False,), 'query': (None,),
    'query_statusbyte': (None,), 'var_write': (False,), 'var_read': (None,),
    'var_write_int32': (False,),
    'var_read_int32': (None, False),    # docstring: None; guard clause: False
    'motors_query_enabled': (None,), 'query_steps': (None,), 'dio_b_read': (None,),
    'query_voltage': (None,), 'query_current': ((None, None),),
}
for _name in ('timed_pause', 'xy_move', 'abs_move', 'motors_disable', 'motors_enable',
              'clear_steps', 'clear_accumulators', 'pen_lower', 'pen_raise',
              'dio_b_config', 'dio_b_set', 'pen_pos_down', 'pen_pos_up',
              'pen_rate_down', 'pen_rate_up', 'servo_timeout'):
    FAIL_VALUE[_name] = (None,)

SERIAL_POOL = [
    ('reboot', ()), ('bootload', ()), ('query_nickname', ()),
    ('write_nickname', ('Bob',)), ('write_nickname', ('   ',)),
    ('command', ('SM,10,0,0',)), ('command', (' EM,0,0 ',)), ('command', ('R',)),
    ('command', ('S2,0,4',)),
    ('query', ('QS',)), ('query', ('QL,3',)), ('query_statusbyte', ()),
    ('var_write', (7, 3)), ('var_read', (3,)),
    ('var_write_int32', (-123456, 8)), ('var_read_int32', (8,)),
]
MOTION_POOL = [
    ('timed_pause', (1600,)), ('timed_pause', (0,)), ('xy_move', (10, -5, 20)),
    ('abs_move', (1000,)), ('abs_move', (1000, 5, 6)), ('motors_disable', ()),
    ('motors_enable', (1, 1)), ('motors_enable', (0, 2)), ('motors_enable', (3, 0)),
    ('motors_query_enabled', ()), ('query_steps', ()), ('clear_steps', ()),
    ('clear_accumulators', ()), ('pen_lower', (100,)), ('pen_lower', (100, 2)),
    ('pen_raise', (100,)), ('pen_raise', (100, 2)), ('dio_b_config', (1, 0, 0)),
    ('dio_b_set', (1, 1)), ('dio_b_read', (1,)), ('pen_pos_down', (20000,)),
    ('pen_pos_up', (10000,)), ('pen_rate_down', (400,)), ('pen_rate_up', (400,)),
    ('servo_timeout', (60000,)), ('servo_timeout', (60000, 1)),
    ('query_voltage', ()), ('query_voltage', (500,)), ('query_current', ()),
]
POOL = SERIAL_POOL + MOTION_POOL
assert set(n for n, _ in POOL) == set(FAIL_VALUE)

STATS = {'calls': 0, 'blocked': 0, 'latched_objects': 0}


class Session:
    ''' One object under test + its device + the invariants that span calls '''

    def __init__(self, cls=ebb3_motion.EBBMotionWrap, version_line=GOOD_VERSION):
        self.dev = Device(version_line)
        CURRENT['dev'] = self.dev
        self.obj = cls()
        self.dev.owner = self.obj
        self.first_err = None
        self.trace = []

    def call(self, name, args=()):
        obj, dev = self.obj, self.dev
        CURRENT['dev'] = dev
        pre_err, pre_port = obj.err, obj.port
        blocked = (pre_port is None) or (pre_err is not None)
        mark = len(dev.writes)
        dev.current_call = name
        self.trace.append((name, args, dev.fault))
        raised, ret = None, None
        try:
            ret = getattr(obj, name)(*args)
        except Exception as exc:            # pylint: disable=broad-except
            raised = exc
        dev.current_call = None
        written = dev.writes[mark:]
        STATS['calls'] += 1
        where = f'{name}{args} after {self.trace[-6:-1]}'

        if pre_err is not None and obj.err is not pre_err:                      # L2
            fail(f'err replaced: {pre_err!r} -> {obj.err!r} in {where}')
        if self.first_err is None and obj.err is not None:
            self.first_err = obj.err
            STATS['latched_objects'] += 1
            if not isinstance(obj.err, str) or not obj.err:
                fail(f'err is not a message: {obj.err!r} in {where}')
        if self.first_err is not None and obj.err is not self.first_err:
            fail(f'first error lost: {self.first_err!r} -> {obj.err!r} in {where}')

        if name in FAIL_VALUE and blocked:                                       # L1
            STATS['blocked'] += 1
            if written:
                fail(f'blocked request wrote {written!r}: {where}')
            if raised is not None:
                fail(f'blocked request raised {raised!r}: {where}')
            elif not any(ret is v or (isinstance(v, tuple) and ret == v)
                         for v in FAIL_VALUE[name]):
                fail(f'blocked request returned {ret!r}: {where}')
            if obj.port is not pre_port:
                fail(f'blocked request changed port: {where}')
        elif name == 'disconnect':                                               # L4
            if written:
                fail(f'disconnect wrote {written!r}: {where}')
            if raised is None and obj.port is not None:
                fail(f'disconnect left a port: {where}')
        elif name == 'connect':
            if pre_port is not None:
                if written or ret is not True:
                    fail(f'connect on open port: wrote {written!r} returned {ret!r}: {where}')
            else:
                if written.count(b'v\r') > 2 or written.count(b'CU,10,1\r') > 1:
                    fail(f'connect handshake repeated: {written!r}: {where}')
                if pre_err is not None and b'QT\r' in written:
                    fail(f'connect queried nickname while latched: {where}')
                if raised is None and ret is True and obj.port is None:
                    fail(f'connect returned True without port: {where}')
                if raised is None and ret is False and pre_err is None and obj.err is None:
                    fail(f'connect failed without recording an error: {where}')
        return ret, raised

    def sweep(self, pool):
        for name, args in pool:
            self.call(name, args)


def io_counts(cls, name, args, connected=True):
    ''' Number of writes / reads a fault-free run of the call performs '''
    ses = Session(cls)
    if connected:
        ses.call('connect')
    ses.dev.arm(None)
    ses.call(name, args)
    return ses.dev.n_w, ses.dev.n_r


def part_a(cls, pool):
    ''' every request x every fault x every I/O position, then sweeps '''
    for name, args in pool:
        n_w, n_r = io_counts(cls, name, args)
        faults = [('w', i, k) for i in range(n_w) for k in WRITE_FAULTS]
        faults += [('r', i, k) for i in range(n_r) for k in READ_FAULTS]
        for fault in faults:
            ses = Session(cls)
            ret, raised = ses.call('connect', (None, 'demo'))
            if ret is not True or raised is not None or ses.obj.err is not None:
                fail(f'clean connect failed: {ret!r} {raised!r} {ses.obj.err!r}')
                return
            ses.dev.arm(fault)
            ses.call(name, args)
            ses.dev.disarm()
            ses.sweep(pool)
            ses.call('connect')
            ses.call('disconnect')
            ses.sweep(pool)
            ses.call('disconnect')
            ses.call('connect')
            ses.sweep(pool)


def part_b(cls, pool):
    ''' faults inside connect() itself '''
    n_w, n_r = io_counts(cls, 'connect', (), connected=False)
    faults = [('o', 0, k) for k in OPEN_FAULTS]
    faults += [('w', i, k) for i in range(n_w) for k in WRITE_FAULTS]
    faults += [('r', i, k) for i in range(n_r) for k in READ_FAULTS]
    for fault in faults:
        for given in (None, PORT_NAME):
            ses = Session(cls)
            ses.sweep(pool)                 # never connected: everything fails, silently
            if ses.obj.err is not None:
                fail('requests on a never-connected object recorded an error')
            ses.dev.arm(fault)
            ses.call('connect', (given,))
            ses.dev.disarm()
            ses.sweep(pool)
            ses.call('connect', (given,))
            ses.sweep(pool)
            ses.call('disconnect')
            ses.call('connect', (given,))
            ses.sweep(pool)


def part_c(cls, pool, seeds, length):
    ''' seeded random histories with random faults '''
    everything = pool + [('connect', ()), ('connect', (PORT_NAME, 'demo')), ('disconnect', ())]
    all_faults = [('w', i, k) for i in range(4) for k in WRITE_FAULTS] + \
                 [('r', i, k) for i in range(6) for k in READ_FAULTS] + \
                 [('o', 0, k) for k in OPEN_FAULTS]
    for seed in range(seeds):
        rng = random.Random(seed)
        ses = Session(cls)
        if rng.random() < 0.8:
            ses.call('connect')
        for _ in range(length):
            name, args = rng.choice(everything)
            if rng.random() < 0.12:
                ses.dev.arm(rng.choice(all_faults))
            ses.call(name, args)
            ses.dev.disarm()
            if ses.dev.dead and rng.random() < 0.3:
                ses.dev.dead = False


def expect(label, got, want):
    if got != want or type(got) is not type(want):
        fail(f'{label}: got {got!r}, want {want!r}')


def part_d():
    ''' documented expectations: handshake, version test, messages '''
    # Healthy connection.
    ses = Session()
    ret, _ = ses.call('connect', (None, 'demo'))
    obj = ses.obj
    expect('connect', ret, True)
    expect('err', obj.err, None)
    expect('version', obj.version, '3.0.2')
    expect('name', obj.name, 'Fred')
    expect('caller', obj.caller, 'demo')
    expect('handshake bytes', ses.dev.writes, [b'v\r', b'CU,10,1\r', b'QT\r'])
    expect('command', ses.call('command', ('SM,10,0,0',))[0], True)
    expect('query', ses.call('query', ('QS',))[0], '1200,-340')
    expect('statusbyte', ses.call('query_statusbyte')[0], 0x3E)
    expect('var_write_int32', ses.call('var_write_int32', (-123456, 8))[0], True)
    expect('var_read_int32', ses.call('var_read_int32', (8,))[0], -123456)
    expect('query_current', ses.call('query_current')[0], (394, 300))
    expect('min_version 3.0.2', obj.min_version('3.0.2'), True)
    expect('min_version 3.0.3', obj.min_version('3.0.3'), False)
    expect('min_version 2.9', obj.min_version('2.9'), True)
    expect('min_version junk', obj.min_version('not a version'), None)
    expect('reboot', ses.call('reboot')[0], True)
    expect('port after reboot', obj.port, None)
    expect('err after reboot', obj.err, None)
    expect('reboot bytes', ses.dev.writes[-1], b'RB\r')

    # Firmware-version gate.  Expected support decided here, by hand / by tuple compare.
    table = [
        ('3.0.2', True, '3.0.2'), ('3.0.3', True, '3.0.3'), ('3.1', True, '3.1'),
        ('10.0.0', True, '10.0.0'), ('3.0.2.0', True, '3.0.2.0'), ('3.0.10', True, '3.0.10'),
        ('3.0.2.post1', True, '3.0.2.post1'), ('3.0.3.dev1', True, '3.0.3.dev1'),
        ('  3.0.2', True, '3.0.2'),
        ('3', False, '3'), ('3.0', False, '3.0'), ('3.0.1', False, '3.0.1'),
        ('2.8.1', False, '2.8.1'), ('2.99.99', False, '2.99.99'), ('0', False, '0'),
        ('3.0.2a1', False, '3.0.2a1'), ('3.0.2rc1', False, '3.0.2rc1'),
        ('3.0.2.dev4', False, '3.0.2.dev4'),
        ('three', False, None), ('3.0.2 beta', False, None), ('', False, None),
        ('3.0.2 Firmware Version 3.0.2', False, None),
    ]
    for text, supported, version in table:
        for line in ('EBBv13_and_above EB Firmware Version ' + text,):
            ses = Session(version_line=line)
            obj = ses.obj
            obj.version, obj.version_parsed = 'stale', 'stale'
            ret, raised = ses.call('connect')
            expect(f'[{text}] raised', raised, None)
            expect(f'[{text}] connect', ret, supported)
            expect(f'[{text}] version', obj.version, version)
            if supported:
                expect(f'[{text}] err', obj.err, None)
                expect(f'[{text}] writes', ses.dev.writes, [b'v\r', b'CU,10,1\r', b'QT\r'])
            else:
                expect(f'[{text}] err', obj.err,
                       f'Firmware version ({version}) not supported.\n'
                       'Firmware 3.0.2 or newer is required.\n'
                       'Visit https://bantam.tools/ndfw to update your firmware.')
                expect(f'[{text}] writes', ses.dev.writes, [b'v\r'])
                expect(f'[{text}] min_version', obj.min_version('3.0.2'), False)
                if version is None:
                    expect(f'[{text}] parsed', obj.version_parsed, None)
            ses.sweep(POOL)
            ses.call('connect')
            ses.call('disconnect')
            ses.sweep(POOL)
            ses.call('connect')
            ses.sweep(POOL)

    # Version line without the marker; reply that is not an EBB; silence; second try.
    ses = Session(version_line='EBBv13_and_above EB')
    expect('no marker', ses.call('connect')[0], False)
    expect('no marker version', (ses.obj.version, ses.obj.version_parsed), (None, None))
    expect('no marker err', ses.obj.err.split('\n')[0], 'Firmware version (None) not supported.')
    ses.sweep(POOL)

    ses = Session(version_line='Hello from some modem')
    expect('not EBB', ses.call('connect')[0], False)
    expect('not EBB err', ses.obj.err, 'Failed to connect via USB (port name: FAKE0)')
    expect('not EBB port', ses.obj.port, None)
    expect('not EBB writes', ses.dev.writes, [b'v\r', b'v\r'])
    ses.sweep(POOL)
    ses.dev.version_line = GOOD_VERSION
    expect('reconnect while latched', ses.call('connect')[0], True)
    expect('reconnect err kept', ses.obj.err, 'Failed to connect via USB (port name: FAKE0)')
    expect('reconnect writes', ses.dev.writes[2:], [b'v\r', b'CU,10,1\r'])
    ses.sweep(POOL)

    ses = Session()
    ses.dev.arm(('r', 0, 'r_blank'))
    expect('second try', ses.call('connect')[0], True)
    expect('second try writes', ses.dev.writes[:2], [b'v\r', b'v\r'])
    expect('second try err', ses.obj.err, None)

    for fault in (('o', 0, 'o_serial'), ('o', 0, 'o_reset_serial'), ('w', 0, 'w_serial'),
                  ('w', 1, 'w_notopen'), ('r', 0, 'r_serial'), ('r', 0, 'r_nonascii'),
                  ('r', 1, 'r_nonascii')):
        ses = Session()
        ses.dev.arm(fault)
        if fault[1] == 1:
            ses.dev.version_line = 'noise'
        expect(f'{fault} connect', ses.call('connect')[0], False)
        expect(f'{fault} err', ses.obj.err, 'Error testing USB connection (port name: FAKE0)')
        expect(f'{fault} port', ses.obj.port, None)
        ses.dev.disarm()
        ses.sweep(POOL)

    # Nothing to connect to.
    saved = CURRENT['ports']
    CURRENT['ports'] = []
    ses = Session()
    expect('no device', ses.call('connect')[0], False)
    expect('no device err', ses.obj.err, 'Unable to locate device on USB')
    ses.sweep(POOL)
    ses2 = Session()
    expect('no named device', ses2.call('connect', ('Nemo',))[0], False)
    expect('no named device err', ses2.obj.err, 'Unable to locate Nemo on USB')
    CURRENT['ports'] = saved
    expect('device appears, still latched', ses2.call('connect', ('Nemo',))[0], False)
    expect('connect by name', ses2.call('connect', (PORT_NAME,))[0], True)
    expect('first message kept', ses2.obj.err, 'Unable to locate Nemo on USB')
    ses2.sweep(POOL)
    expect('opened', ses.dev.opened, 0)

    # First error wins, whatever comes later; messages of command / query.
    cases = [
        ('command', ('SM,10,0,0',), ('r', 0, 'r_err'),
         'Error reported by EBB.\n    Command: SM,10,0,0\n    Response: !8 Err: Unknown command',
         '\nUnexpected response from EBB.    Command: SM,10,0,0\n'
         '    Response: !8 Err: Unknown command'),
        ('command', ('SM,10,0,0',), ('r', 0, 'r_err_prefixed'),
         'Error reported by EBB.\n    Command: SM,10,0,0\n'
         '    Response: SM,Err: parameter outside limit', None),
        ('command', ('SM,10,0,0',), ('r', 0, 'r_dead'),
         'EBB Serial Timeout after command: SM,10,0,0', None),
        ('command', ('SM,10,0,0',), ('w', 0, 'w_oserror'),
         'USB communication error after command: SM,10,0,0', None),
        ('command', ('SM,10,0,0',), ('r', 0, 'r_nonascii'),
         'USB communication error after command: SM,10,0,0', None),
        ('query', ('QS',), ('r', 0, 'r_unexpected'),
         '\nUnexpected response from EBB.    Query: QS\n    Response: ZZ,1', None),
        ('query', ('QS',), ('r', 0, 'r_dead'), 'EBB Serial Timeout after query: QS', None),
        ('query', ('QS',), ('r', 0, 'r_runtime'), 'USB communication error after query: QS', None),
        ('query_statusbyte', (), ('r', 0, 'r_dead'),
         'EBB Serial Timeout while reading status byte.', None),
        ('query_statusbyte', (), ('w', 0, 'w_timeout'),
         'USB communication error after status byte query', None),
    ]
    for name, args, fault, message, first_message in cases:
        ses = Session()
        ses.call('connect')
        ses.dev.arm(fault)
        ret = ses.call(name, args)[0]
        ses.dev.disarm()
        expect(f'{name} {fault} return', ret, FAIL_VALUE[name][0])
        expect(f'{name} {fault} message', ses.obj.err, first_message or message)
        kept = ses.obj.err
        ses.obj.record_error('a later error')
        ses.obj.record_error(None)
        if ses.obj.err is not kept:
            fail('record_error replaced the first message')
        ses.sweep(POOL)

    # record_error on a clean object stores exactly what it is given, once.
    obj = ebb3_serial.EBB3()
    first = 'first ' + 'message'
    obj.record_error(first)
    obj.record_error('second message')
    if obj.err is not first:
        fail('record_error did not keep the first object')
    obj = ebb3_serial.EBB3()
    obj.record_error('')            # an empty message still latches: '' is not None
    obj.record_error('later')
    expect('empty message latches', obj.err, '')
    ses = Session()
    ses.call('connect')
    ses.obj.err = ''
    ses.first_err = ''
    ses.sweep(POOL)
    ses.obj.err = 0                 # any non-None value counts as an error
    ses.first_err = 0
    ses.sweep(POOL)

    # Ignored communication faults on reset-like commands do not latch, others do.
    for cmd, latches in (('R', False), ('RB', False), ('BL', False), ('r', False), ('EM,0,0', True)):
        ses = Session()
        ses.call('connect')
        ses.dev.arm(('w', 0, 'w_serial'))
        ret = ses.call('command', (cmd,))[0]
        expect(f'command {cmd} under fault', ret, not latches)
        expect(f'command {cmd} latched', ses.obj.err is not None, latches)


def main():
    part_d()
    part_a(ebb3_motion.EBBMotionWrap, POOL)
    part_a(ebb3_serial.EBB3, SERIAL_POOL)
    part_b(ebb3_motion.EBBMotionWrap, POOL)
    part_b(ebb3_serial.EBB3, SERIAL_POOL)
    part_c(ebb3_motion.EBBMotionWrap, POOL, seeds=400, length=40)
    part_c(ebb3_serial.EBB3, SERIAL_POOL, seeds=100, length=40)
    print(f"calls checked: {STATS['calls']}, blocked requests checked: {STATS['blocked']}, "
          f"objects that latched an error: {STATS['latched_objects']}")
    if FAILURES:
        print(f'C04 VIOLATED: {len(FAILURES)} failure(s)')
        return 1
    if STATS['blocked'] < 10000 or STATS['latched_objects'] < 500:
        print('demo did not exercise enough latched states')
        return 1
    print('C04 holds: first error latched, nothing transmitted afterwards')
    return 0


if __name__ == '__main__':
    sys.exit(main())
