import os, sys; sys.path.insert(0, os.environ.get('PLOTINK_ROOT', '/tmp/wte_C10'))
"""
Check of property C10 (Bezier subdivision refines the same curve until every
piece is flat) for plotink.plot_utils.subdivideCubicPath / points_in_tolerance.

Oracles used:
  * an independent re-implementation (explicit stack, per original piece) of
    "split at t=1/2 until flat", using the documented flatness predicate; the
    library result must agree with it bit for bit, node for node;
  * exact rational arithmetic (fractions.Fraction): every produced piece must be
    the original piece restricted (by blossoming) to the dyadic interval the
    reference assigns to it, every inserted node must lie on the original curve,
    and both inner control points of every piece must be nearer than `flat` to
    the chord of that piece (exact point-to-segment distance);
  * structural checks: original node objects survive, in order, with their
    outer handles untouched; nothing before the start index is modified;
    return value is None; points_in_tolerance does not mutate its input.
"""
import copy
import math
import random
from fractions import Fraction as F

from plotink import plot_utils

FAILS = []


def check(cond, msg):
    if not cond:
        FAILS.append(msg)
        if len(FAILS) < 25:
            print("FAIL:", msg)


# ----------------------------------------------------------------------------
# Reference flatness predicate (documented behaviour of points_in_tolerance):
# every interior vertex must be strictly closer than `tol` to the segment
# first-vertex .. last-vertex (distance to a *segment*, not to a line).
# Written with the same elementary float operations so that decisions on
# borderline inputs are identical.
# ----------------------------------------------------------------------------
def ref_in_tolerance(pts, tol):
    tol2 = tol * tol
    ax, ay = pts[0]
    bx, by = pts[-1]
    ux = bx - ax
    uy = by - ay
    for k in range(1, len(pts) - 1):
        px, py = pts[k]
        vx = px - ax
        vy = py - ay
        dot = vx * ux + vy * uy
        if dot <= 0:                       # nearest point is the first end
            if (vx * vx + vy * vy) >= tol2:
                return False
            continue
        len2 = ux * ux + uy * uy
        if len2 <= dot:                    # nearest point is the last end
            if ((px - bx) * (px - bx) + (py - by) * (py - by)) >= tol2:
                return False
            continue
        if len2 == 0:                      # only reachable with NaN
            return False
        cross = vx * uy - ux * vy
        if (cross * cross / len2) >= tol2:
            return False
    return True


def exact_dist2_to_segment(p, a, b):
    """Exact squared distance from p to segment ab (Fractions)."""
    px, py = p
    ax, ay = a
    bx, by = b
    ux, uy = bx - ax, by - ay
    vx, vy = px - ax, py - ay
    len2 = ux * ux + uy * uy
    if len2 == 0:
        return vx * vx + vy * vy
    t = (vx * ux + vy * uy) / len2
    if t <= 0:
        return vx * vx + vy * vy
    if t >= 1:
        return (px - bx) ** 2 + (py - by) ** 2
    cx, cy = ax + t * ux, ay + t * uy
    return (px - cx) ** 2 + (py - cy) ** 2


# ----------------------------------------------------------------------------
# Reference subdivision
# ----------------------------------------------------------------------------
def lerp(p, q, t):
    return p[0] + t * (q[0] - p[0]), p[1] + t * (q[1] - p[1])


def halve(b):
    p0, p1, p2, p3 = [(q[0], q[1]) for q in b]
    m1 = lerp(p0, p1, 0.5)
    m2 = lerp(p1, p2, 0.5)
    m3 = lerp(p2, p3, 0.5)
    m4 = lerp(m1, m2, 0.5)
    m5 = lerp(m2, m3, 0.5)
    m = lerp(m4, m5, 0.5)
    return (p0, m1, m4, m), (m, m5, m3, p3)


def ref_pieces(b, flat):
    """Flat pieces of cubic b in curve order, with their dyadic intervals."""
    out = []
    stack = [(tuple((q[0], q[1]) for q in b), F(0), F(1))]
    guard = 0
    while stack:
        guard += 1
        assert guard < 10 ** 6, "reference did not terminate"
        piece, lo, hi = stack.pop()
        if ref_in_tolerance(piece, flat):
            out.append((piece, lo, hi))
        else:
            left, right = halve(piece)
            mid = (lo + hi) / 2
            stack.append((right, mid, hi))
            stack.append((left, lo, mid))
    return out


def blossom(ctrl, t1, t2, t3):
    """Exact polar form of the cubic with Fraction control points."""
    def lp(p, q, t):
        return (p[0] + t * (q[0] - p[0]), p[1] + t * (q[1] - p[1]))
    a = [lp(ctrl[k], ctrl[k + 1], t1) for k in range(3)]
    b = [lp(a[k], a[k + 1], t2) for k in range(2)]
    return lp(b[0], b[1], t3)


def fr(p):
    return (F(p[0]), F(p[1]))


def tup(p):
    return (p[0], p[1])


def close(exact, approx, scale):
    return abs(float(exact[0]) - approx[0]) <= 1e-9 * scale and \
        abs(float(exact[1]) - approx[1]) <= 1e-9 * scale


def run_case(name, nodes, flat, start=1, exact=True):
    original = copy.deepcopy(nodes)
    work = copy.deepcopy(nodes)
    node_objs = list(work)                       # identity of original nodes
    ret = plot_utils.subdivideCubicPath(work, flat, start) if start != 1 \
        else plot_utils.subdivideCubicPath(work, flat)
    check(ret is None, "%s: return value %r" % (name, ret))

    n = len(original)
    # ---- original nodes survive in order (same objects) -------------------
    pos = []
    k = 0
    for idx, node in enumerate(work):
        if k < n and node is node_objs[k]:
            pos.append(idx)
            k += 1
    check(k == n, "%s: original nodes lost or reordered" % name)
    if k != n:
        return
    check(n == 0 or pos[0] == 0, "%s: first node moved" % name)
    check(n == 0 or pos[-1] == len(work) - 1, "%s: last node moved" % name)
    for j in range(n):
        node = work[pos[j]]
        check(len(node) == 3, "%s: node %d arity" % (name, j))
        check(tup(node[1]) == tup(original[j][1]), "%s: anchor %d changed" % (name, j))
        # outer handles of the whole path are never touched
    if n:
        check(tup(work[0][0]) == tup(original[0][0]), "%s: first in-handle changed" % name)
        check(tup(work[-1][2]) == tup(original[-1][2]), "%s: last out-handle changed" % name)

    # ---- expected node list from the reference ----------------------------
    expected = []
    intervals = []                                # per output piece
    if n:
        expected.append([tup(original[0][0]), tup(original[0][1]), None])
    for j in range(1, n):
        b = (original[j - 1][1], original[j - 1][2], original[j][0], original[j][1])
        if j >= start:
            pieces = ref_pieces(b, flat)
        else:
            pieces = [(tuple(tup(q) for q in b), F(0), F(1))]
        for piece, lo, hi in pieces:
            expected[-1][2] = piece[1]
            expected.append([piece[2], piece[3], None])
            intervals.append((j, lo, hi))
    if n:
        expected[-1][2] = tup(original[-1][2])
    got = [[tup(q) for q in node] for node in work]
    check(len(got) == len(expected),
          "%s: %d nodes, reference has %d" % (name, len(got), len(expected)))
    if len(got) != len(expected):
        return
    for idx in range(len(got)):
        if got[idx] != [tuple(q) for q in expected[idx]]:
            check(False, "%s: node %d = %r, reference %r" % (name, idx, got[idx], expected[idx]))
            return
    for idx, node in enumerate(work):
        check(len(node) == 3 and all(len(q) == 2 for q in node),
              "%s: malformed node %d" % (name, idx))

    # ---- every piece flat (library predicate, reference predicate, exact) --
    scale = max([1.0] + [abs(c) for node in original for q in node for c in q])
    flat2 = F(flat) * F(flat)
    for idx in range(1, len(work)):
        j, lo, hi = intervals[idx - 1]
        piece = (tup(work[idx - 1][1]), tup(work[idx - 1][2]),
                 tup(work[idx][0]), tup(work[idx][1]))
        if j < start:
            continue
        check(ref_in_tolerance(piece, flat), "%s: piece %d not flat (reference)" % (name, idx))
        check(plot_utils.points_in_tolerance(piece, flat) is True,
              "%s: piece %d not flat (library predicate)" % (name, idx))
        if not exact:
            continue
        a, h1, h2, b = [fr(q) for q in piece]
        slack = flat2 * (1 + F(1, 10 ** 6)) + F(1, 10 ** 18) * F(scale) ** 2
        for h in (h1, h2):
            d2 = exact_dist2_to_segment(h, a, b)
            check(d2 < slack, "%s: piece %d handle %.6g from chord, flat %.6g"
                  % (name, idx, math.sqrt(float(d2)), flat))
        # piece == original restricted to [lo, hi]; inserted nodes on the curve
        ctrl = [fr(original[j - 1][1]), fr(original[j - 1][2]),
                fr(original[j][0]), fr(original[j][1])]
        want = (blossom(ctrl, lo, lo, lo), blossom(ctrl, lo, lo, hi),
                blossom(ctrl, lo, hi, hi), blossom(ctrl, hi, hi, hi))
        for w, g in zip(want, piece):
            check(close(w, g, scale), "%s: piece %d is not the restriction to [%s,%s]"
                  % (name, idx, lo, hi))
        check(hi - lo == F(1, (hi - lo).denominator) and
              (hi - lo).denominator & ((hi - lo).denominator - 1) == 0 and
              (lo / (hi - lo)).denominator == 1,
              "%s: interval [%s,%s] not dyadic" % (name, lo, hi))
    # intervals of each original piece tile [0,1]
    for j in range(1, n):
        ivs = [(lo, hi) for (jj, lo, hi) in intervals if jj == j]
        check(ivs[0][0] == 0 and ivs[-1][1] == 1 and
              all(ivs[k][1] == ivs[k + 1][0] for k in range(len(ivs) - 1)),
              "%s: pieces of segment %d do not tile [0,1]" % (name, j))
    # idempotence: a second call changes nothing
    again = copy.deepcopy(work)
    plot_utils.subdivideCubicPath(again, flat)
    if start == 1:
        check([[tup(q) for q in nd] for nd in again] == got, "%s: not idempotent" % name)
    return len(work)


def node(ax, ay, hx0, hy0, hx1, hy1):
    return [[hx0, hy0], [ax, ay], [hx1, hy1]]


def main():
    rnd = random.Random(20240610)
    flats = [0.01, 0.05, 0.2, 1.0, 7.5]

    fixed = {
        "empty": [],
        "single": [node(1.0, 2.0, 0.0, 0.0, 5.0, 9.0)],
        "line": [node(0.0, 0.0, 0.0, 0.0, 1.0, 0.0), node(3.0, 0.0, 2.0, 0.0, 3.0, 0.0)],
        "collinear-overshoot": [node(0.0, 0.0, 0.0, 0.0, -4.0, 0.0),
                                node(3.0, 0.0, 9.0, 0.0, 3.0, 0.0)],
        "arc": [node(0.0, 0.0, 0.0, 0.0, 0.0, 5.5), node(10.0, 10.0, 4.5, 10.0, 10.0, 10.0)],
        "loop": [node(0.0, 0.0, 0.0, 0.0, 12.0, 10.0), node(4.0, 0.0, -8.0, 10.0, 4.0, 0.0)],
        "cusp": [node(0.0, 0.0, 0.0, 0.0, 10.0, 10.0), node(10.0, 0.0, 0.0, 10.0, 10.0, 0.0)],
        "closed-endpoints": [node(1.0, 1.0, 1.0, 1.0, 9.0, 1.0), node(1.0, 1.0, 1.0, 9.0, 1.0, 1.0)],
        "all-coincident": [node(2.0, 2.0, 2.0, 2.0, 2.0, 2.0), node(2.0, 2.0, 2.0, 2.0, 2.0, 2.0)],
        "coincident-ends-one-handle": [node(2.0, 2.0, 2.0, 2.0, 2.0, 2.0),
                                       node(2.0, 2.0, 30.0, -7.0, 2.0, 2.0)],
        "s-curve-3": [node(0.0, 0.0, -1.0, -1.0, 5.0, 8.0), node(10.0, 0.0, 5.0, -8.0, 15.0, 8.0),
                      node(20.0, 0.0, 15.0, -8.0, 22.0, 3.0)],
        "mixed-flat-and-curved": [node(0.0, 0.0, 0.0, 0.0, 1.0, 0.0), node(3.0, 0.0, 2.0, 0.0, 3.0, 6.0),
                                  node(9.0, 0.0, 9.0, 6.0, 10.0, 0.0), node(12.0, 0.0, 11.0, 0.0, 12.0, 0.0)],
        "ints": [node(0, 0, 0, 0, 0, 16), node(16, 16, 0, 16, 16, 16), node(32, 0, 32, 16, 32, 0)],
        "tiny": [node(0.0, 0.0, 0.0, 0.0, 0.0, 1e-5), node(1e-5, 1e-5, 0.0, 1e-5, 1e-5, 1e-5)],
        "big": [node(-4000.0, 250.0, 0.0, 0.0, 1500.0, 3000.5), node(3800.25, -90.0, -700.0, -2500.0, 0.0, 0.0)],
    }
    total_nodes = 0
    for name, nodes in fixed.items():
        for flat in flats:
            got = run_case("%s/flat=%g" % (name, flat), nodes, flat)
            total_nodes += got or 0
    # tuple-based input nodes are accepted as long as the node itself is a list
    tnodes = [[(0.0, 0.0), (0.0, 0.0), (3.0, 7.0)], [(8.0, -7.0), (11.0, 0.0), (11.0, 0.0)]]
    run_case("tuple-points", tnodes, 0.1)

    # the documented example of the test-suite
    nodes = [[[0.0, 0.0], [0.0, 0.0], [0.0, 1.0]], [[1.0, 2.0], [2.0, 2.0], [3.0, 2.0]]]
    run_case("testsuite-a", nodes, 0.01)
    run_case("testsuite-b", nodes, 0.2)

    # random paths
    for case in range(160):
        n = rnd.choice([1, 2, 2, 3, 4, 6])
        kind = case % 4
        nodes = []
        for _ in range(n):
            if kind == 0:
                c = [rnd.uniform(-50, 50) for _ in range(6)]
            elif kind == 1:
                c = [float(rnd.randint(-6, 6)) for _ in range(6)]       # many coincidences
            elif kind == 2:
                c = [rnd.choice([-1, 1]) * 10 ** rnd.uniform(-3, 3) for _ in range(6)]
            else:
                c = [rnd.randint(-40, 40) for _ in range(6)]             # python ints
            nodes.append([[c[0], c[1]], [c[2], c[3]], [c[4], c[5]]])
        flat = rnd.choice([0.02, 0.1, 0.5, 2.0, 10 ** rnd.uniform(-1.7, 1.2)])
        got = run_case("random-%d" % case, nodes, flat, exact=(case % 3 == 0))
        total_nodes += got or 0

    # explicit start index: pieces before it are left alone
    for case in range(20):
        nodes = [[[rnd.uniform(-20, 20), rnd.uniform(-20, 20)] for _ in range(3)] for _ in range(5)]
        start = rnd.choice([1, 2, 3, 4, 5, 7])
        run_case("start-%d" % case, nodes, 0.05, start=start, exact=False)

    # ------------------------------------------------------------------
    # points_in_tolerance directly: any number of vertices, exact oracle on
    # an integer grid, reference predicate on floats and on non-finite values
    # ------------------------------------------------------------------
    grid_checked = 0
    for case in range(6000):
        m = rnd.choice([3, 3, 4, 4, 5, 7])
        pts = [(rnd.randint(-4, 4), rnd.randint(-4, 4)) for _ in range(m)]
        if case % 5 == 0:
            pts[-1] = pts[0]                                   # zero-length chord
        if case % 7 == 0:
            pts[1] = pts[0]
        if case % 11 == 0:
            pts[-2] = pts[-1]
        tol = rnd.choice([0.5, 1, 1.5, 2, 2.5, 3, 5])
        frozen = list(pts)
        got = plot_utils.points_in_tolerance(pts, tol)
        check(pts == frozen, "points_in_tolerance mutated its input")
        check(got is True or got is False, "points_in_tolerance returned %r" % (got,))
        exact = all(exact_dist2_to_segment(fr(p), fr(pts[0]), fr(pts[-1])) < F(tol) * F(tol)
                    for p in pts[1:-1])
        check(got == exact, "grid %r tol %r: library %r exact %r" % (pts, tol, got, exact))
        check(got == ref_in_tolerance(pts, tol), "grid %r tol %r differs from reference" % (pts, tol))
        as_lists = [list(p) for p in pts]
        check(plot_utils.points_in_tolerance(as_lists, tol) == got, "list/tuple input differs")
        grid_checked += 1
    for case in range(4000):
        m = rnd.choice([3, 4, 4, 6])
        pts = [(rnd.uniform(-10, 10), rnd.uniform(-10, 10)) for _ in range(m)]
        if case % 4 == 0:                                      # nearly collinear
            pts = [(x, 0.3 * x + rnd.uniform(-0.2, 0.2)) for x, _ in pts]
        tol = 10 ** rnd.uniform(-2, 1.2)
        got = plot_utils.points_in_tolerance(pts, tol)
        check(got == ref_in_tolerance(pts, tol), "float %r tol %r differs from reference" % (pts, tol))
        d2 = max(exact_dist2_to_segment(fr(p), fr(pts[0]), fr(pts[-1])) for p in pts[1:-1])
        ratio = float(d2) / (tol * tol)
        if ratio < 1 - 1e-9:
            check(got is True, "float %r tol %r: within tolerance but rejected" % (pts, tol))
        elif ratio > 1 + 1e-9:
            check(got is False, "float %r tol %r: outside tolerance but accepted" % (pts, tol))
    # exhaustive small grid: two interior vertices, so that a later vertex is
    # examined after an earlier one went through each of the three regions
    # (before the first end / beyond the last end / beside the interior)
    exhaustive = 0
    grid = [(x, y) for x in range(-3, 4) for y in range(-3, 4)]
    for chord_end in [(0, 0), (2, 0), (1, 2), (-2, 1)]:
        ex, ey = chord_end
        len2 = ex * ex + ey * ey
        for tol in (1, 1.5, 2.5):
            tol2 = F(tol) * F(tol)
            inside = {}
            for (px, py) in grid:
                dot = px * ex + py * ey
                if len2 == 0 or dot <= 0:
                    d2 = F(px * px + py * py)
                elif dot >= len2:
                    d2 = F((px - ex) ** 2 + (py - ey) ** 2)
                else:
                    d2 = F((px * ey - ex * py) ** 2, len2)
                inside[(px, py)] = d2 < tol2
            for q1 in grid:
                for q2 in grid:
                    got = plot_utils.points_in_tolerance([(0, 0), q1, q2, chord_end], tol)
                    want = inside[q1] and inside[q2]
                    if got is not want:
                        check(False, "exhaustive chord %r tol %r pts %r %r: %r" % (chord_end, tol, q1, q2, got))
                    exhaustive += 1
    print("exhaustive 4-vertex grid cases:", exhaustive)
    nan, inf = float("nan"), float("inf")
    special = [
        [(0.0, 0.0), (nan, 1.0), (0.0, 0.0)],
        [(0.0, 0.0), (1.0, nan), (2.0, 0.0)],
        [(0.0, 0.0), (nan, nan), (0.0, 0.0)],
        [(0.0, 0.0), (1.0, 1.0), (nan, 0.0)],
        [(0.0, 0.0), (inf, 1.0), (0.0, 0.0)],
        [(0.0, 0.0), (inf, 1.0), (4.0, 0.0)],
        [(0.0, 0.0), (1.0, 1.0), (inf, 0.0)],
        [(0.0, 0.0), (1.0, 1.0), (inf, inf), (1.0, 0.0)],
        [(1e200, 0.0), (0.0, 1e200), (-1e200, 0.0)],
        [(0.0, 0.0), (0.0, 0.0), (0.0, 0.0)],
        [(0.0, 0.0), (1.0, 0.0), (nan, 1.0), (0.0, 0.0)],
    ]
    for pts in special:
        for tol in (0.5, 2.0, inf):
            check(plot_utils.points_in_tolerance(pts, tol) == ref_in_tolerance(pts, tol),
                  "special %r tol %r differs from reference" % (pts, tol))
    try:
        plot_utils.points_in_tolerance([(0, 0), (1, 1)], 1.0)
        check(False, "two vertices accepted")
    except AssertionError:
        pass

    print("checked %d fixed/random paths (%d nodes produced), %d grid cases"
          % (len(fixed) * len(flats) + 160 + 23, total_nodes, grid_checked))
    if FAILS:
        print("%d FAILURES" % len(FAILS))
        return 1
    print("C10 holds")
    return 0


if __name__ == "__main__":
    sys.exit(main())
