import os, sys; sys.path.insert(0, os.environ.get('PLOTINK_ROOT', '/tmp/wtf_C04'))
"""
Property C04 checker: an EBB3 / EBBMotionWrap object latches its FIRST error and
from then on (or while not connected) every request writes nothing, returns its
failure value and never replaces the recorded message.

How it checks:
  * a fake serial port + tiny simulated EiBotBoard ("World"), with one fault of a
    chosen kind injected at a chosen read/write operation index;
  * an independent, table/transaction based reference model ("Model") predicts the
    complete I/O transcript, every return value, the latched message, nickname and
    connection state for the same call sequence and fault;
  * independently of the model, the latch property itself is asserted directly
    around every single call of the real library;
  * hand-written expectations (healthy transcript, connect paths, retry limits,
    message texts) anchor the model to the documented behaviour.
Deterministic; no hardware; runs in a few seconds.  Exit status 0 == all good.
"""
import random

from plotink import ebb3_serial, ebb3_motion

serial = ebb3_serial.serial
PORT_NAME = '/dev/fake0'
ebb3_serial.comports = lambda: [(PORT_NAME, 'EiBotBoard', 'USB VID:PID=04D8:FD92 SER=FAKE')]

CHECKS = [0]


def check(cond, *info):
    CHECKS[0] += 1
    if not cond:
        print('FAIL:', *info)
        sys.exit(1)


def same(got, want, *info):
    check(repr(got) == repr(want), *info, '\n   got :', repr(got), '\n   want:', repr(want))


# --------------------------------------------------------------------------
# The simulated world: device + fake port with fault injection
# --------------------------------------------------------------------------
EXC_KINDS = {
    'x_serial': lambda: serial.SerialException('simulated'),
    'x_notopen': serial.serialutil.PortNotOpenError,
    'x_os': lambda: OSError('simulated'),
    'x_runtime': lambda: RuntimeError('simulated'),
}
WRITE_KINDS = ['x_serial', 'x_notopen', 'x_os', 'x_runtime']
READ_KINDS = ['x_serial', 'x_os', 'x_runtime', 'empty:1', 'empty:25', 'empty:26', 'empty:999',
              'err_named', 'err_bare', 'junk', 'baddecode']
INV_RES = {0: 0, 1: 16, 2: 8, 3: 4, 4: 2, 5: 1}


class Device:
    ''' Minimal EiBotBoard, firmware 3.x "future syntax" replies '''

    def __init__(self, firmware='3.0.2', nick='Alpha', banner=None):
        self.firmware = firmware
        self.banner = banner
        self.nick = nick
        self.ram = {}
        self.scale = 1
        self.on = [False, False]

    def handle(self, line):
        parts = line.split(',')
        name = parts[0]
        if name == 'v':
            if self.banner is not None:
                return self.banner
            return 'EBBv13_and_above EB Firmware Version ' + self.firmware
        if name in ('RB', 'BL'):
            return None
        if name == 'QT':
            return 'QT,' + self.nick
        if name == 'ST':
            self.nick = line[3:]
            return 'ST'
        if name == 'SL':
            self.ram[int(parts[2])] = int(parts[1])
            return 'SL'
        if name == 'QL':
            return 'QL,%d' % self.ram.get(int(parts[1]), 0)
        if name == 'EM':
            if int(parts[1]) != 0:
                self.scale = int(parts[1])
            self.on = [int(parts[1]) != 0, int(parts[2]) != 0]
            return 'EM'
        if name == 'QE':
            return 'QE,%d,%d' % tuple(INV_RES[self.scale] if flag else 0 for flag in self.on)
        if name == 'QS':
            return 'QS,1234,-77'
        if name == 'QC':
            return 'QC,0394,0300'
        if name == 'PI':
            return 'PI,1'
        if name == 'QG':
            return 'QG,3E'
        if name == 'QX':
            return 'QX42'       # artificial: payload directly after the name, no comma
        if name == 'QY':
            return 'QY,,7'      # artificial: payload that itself starts with a comma
        return name


class World:
    def __init__(self, fault=None, **devargs):
        self.device = Device(**devargs)
        self.fault = fault          # None or (op index, kind)
        self.ops = 0
        self.log = []
        self.queue = []
        self.empties = 0
        self.last_name = ''
        self.open_fails = False
        self.opened = 0

    def tick(self):
        kind = None
        if self.fault is not None and self.fault[0] == self.ops:
            kind = self.fault[1]
        self.ops += 1
        return kind

    def io_count(self):
        return sum(1 for entry in self.log if entry[0] in ('w', 'wx', 'r'))

    def write_count(self):
        return sum(1 for entry in self.log if entry[0] in ('w', 'wx'))

    # The two primitive operations, shared by FakePort (driven by the library)
    # and by the Model (which predicts what the library must do).
    def do_write(self, data):
        kind = self.tick()
        if kind in EXC_KINDS:
            self.log.append(('wx', data))
            raise EXC_KINDS[kind]()
        self.log.append(('w', data))
        for line in data.decode('ascii').split('\r')[:-1]:
            self.last_name = line.split(',')[0]
            reply = self.device.handle(line)
            if reply is not None:
                self.queue.append((reply + '\r\n').encode('ascii'))
        return len(data)

    def do_read(self):
        kind = self.tick()
        self.log.append(('r',))
        if kind in EXC_KINDS:
            raise EXC_KINDS[kind]()
        if kind is not None and kind.startswith('empty:'):
            self.empties = int(kind[6:])
        if self.empties > 0:
            self.empties -= 1
            return b''
        real = self.queue.pop(0) if self.queue else b''
        if kind == 'err_named':
            return (self.last_name + ',Err: simulated fault\r\n').encode('ascii')
        if kind == 'err_bare':
            return b'!8 Err: simulated fault\r\n'
        if kind == 'junk':
            return b'zz,unexpected\r\n'
        if kind == 'baddecode':
            return b'\xff\xfe\r\n'
        return real


class FakePort:
    def __init__(self, world):
        self.world = world
        self.closed = False

    def write(self, data):
        check(not self.closed, 'write on closed port')
        return self.world.do_write(data)

    def readline(self):
        check(not self.closed, 'read on closed port')
        return self.world.do_read()

    def reset_input_buffer(self):
        self.world.queue.clear()
        self.world.log.append(('flush',))

    def close(self):
        self.closed = True
        self.world.log.append(('close',))


CURRENT = [None]


def serial_factory(name, timeout=None):
    world = CURRENT[0]
    check(name == PORT_NAME and timeout == 1.0, 'serial.Serial arguments', name, timeout)
    world.opened += 1
    if world.open_fails:
        raise serial.SerialException('cannot open')
    return FakePort(world)


serial.Serial = serial_factory


# --------------------------------------------------------------------------
# Reference model (oracle), written as transactions against the same World type
# --------------------------------------------------------------------------
class Latched(Exception):
    pass


class Propagates(Exception):
    pass


IGNORED_USB = ('rb', 'r', 'bl')

# value returned when the object is blocked on entry / when the call itself fails
GUARD = {
    'command': False, 'query': None, 'query_statusbyte': None, 'query_nickname': None,
    'write_nickname': False, 'reboot': False, 'bootload': False,
    'var_write': False, 'var_read': None, 'var_write_int32': False, 'var_read_int32': False,
    'timed_pause': None, 'xy_move': None, 'abs_move': None, 'motors_disable': None,
    'motors_enable': None, 'motors_query_enabled': None, 'query_steps': None,
    'clear_steps': None, 'clear_accumulators': None, 'pen_lower': None, 'pen_raise': None,
    'dio_b_config': None, 'dio_b_set': None, 'dio_b_read': None, 'pen_pos_down': None,
    'pen_pos_up': None, 'pen_rate_down': None, 'pen_rate_up': None, 'servo_timeout': None,
    'query_voltage': None, 'query_current': (None, None),
}
FAIL = dict(GUARD, var_read_int32=None)


class Model:
    def __init__(self, world, name=None):
        self.w = world
        self.connected = True
        self.err = None
        self.name = name

    def latch(self, message):
        if self.err is None:
            self.err = message

    def blocked(self):
        return (not self.connected) or (self.err is not None)

    # -- one command / query / status-byte exchange ------------------------
    def tx(self, kind, text):
        if self.blocked():
            raise Latched()
        name = text.split(',')[0]
        assert len(name) in (1, 2), text
        noun = {'c': 'command', 'q': 'query'}.get(kind)
        reply = ''
        try:
            self.w.do_write((text + '\r').encode('ascii'))
            for _ in range(1 if kind == 'g' else 26):
                raw = self.w.do_read()
                try:
                    reply = raw.decode('ascii').strip()
                except UnicodeDecodeError as exc:
                    raise Propagates('UnicodeDecodeError') from exc
                if reply:
                    break
        except (OSError, RuntimeError):     # includes serial.SerialException
            if kind == 'g':
                self.latch('USB communication error after status byte query')
            elif name.lower() not in IGNORED_USB:
                self.latch('USB communication error after %s: %s' % (noun, text))
            elif kind == 'q':
                self.latch('EBB Serial Timeout after query: ' + text)
            else:
                return None                 # command R / RB / BL: USB trouble is ignored
            raise Latched()
        if kind == 'g':
            if not reply:
                self.latch('EBB Serial Timeout while reading status byte.')
            elif not reply.startswith('QG'):
                self.latch('\nUnexpected response from EBB.    Response to QG query: ' + reply)
            elif 'Err:' in reply:
                self.latch('Error reported by EBB.\n    Query: QG\n    Response: ' + reply)
        elif not reply:
            self.latch('EBB Serial Timeout after %s: %s' % (noun, text))
        elif not reply.startswith(name) or (kind == 'q' and 'Err:' in reply):
            self.latch('\nUnexpected response from EBB.    %s: %s\n    Response: %s'
                       % (noun.capitalize(), text, reply))
        elif 'Err:' in reply:
            self.latch('Error reported by EBB.\n    Command: %s\n    Response: %s' % (text, reply))
        if self.err is not None:
            raise Latched()
        rest = reply[len(name):]
        return rest[1:] if rest.startswith(',') else rest

    # -- public calls --------------------------------------------------------
    def call(self, method, args):
        if method == 'disconnect':
            if self.connected:
                self.w.log.append(('close',))
            self.connected = False
            return None
        if self.blocked():
            return GUARD[method]
        try:
            return getattr(self, 'm_' + method)(*args)
        except Latched:
            return FAIL[method]
        except Propagates as exc:
            return ('raised', str(exc))

    def m_command(self, text):
        if text is None:
            return False
        self.tx('c', text.strip())
        return True

    def m_query(self, text):
        if text is None:
            return None
        return self.tx('q', text.strip())

    def m_query_statusbyte(self):
        return int(self.tx('g', 'QG'), 16)

    def m_query_nickname(self):
        tag = self.tx('q', 'QT')
        if not tag.isspace():
            self.name = tag.strip()

    def m_write_nickname(self, nickname):
        if nickname is None:
            return False
        nickname = nickname.strip()
        self.tx('c', 'ST,' + nickname)
        self.name = nickname
        return True

    def _restart(self, code):
        try:
            self.w.do_write(code)
        except serial.SerialException:
            return False
        except (OSError, RuntimeError) as exc:
            raise Propagates(type(exc).__name__)
        self.w.log.append(('close',))
        self.connected = False
        return True

    def m_reboot(self):
        return self._restart(b'RB\r')

    def m_bootload(self):
        return self._restart(b'BL\r')

    def m_var_write(self, value, index):
        self.tx('c', 'SL,%s,%s' % (value, index))
        return True

    def m_var_read(self, index):
        return int(self.tx('q', 'QL,%s' % index))

    def m_var_write_int32(self, value, start):
        for offset, byte in enumerate((value % 2 ** 32).to_bytes(4, 'big')):
            self.tx('c', 'SL,%d,%d' % (byte, start + offset))
        return True

    def m_var_read_int32(self, start):
        total = 0
        for offset in range(4):
            total = total * 256 + int(self.tx('q', 'QL,%d' % (start + offset)))
        return total - 2 ** 32 if total >= 2 ** 31 else total

    def m_timed_pause(self, remaining):
        while remaining > 0:
            step = 750 if remaining > 750 else max(remaining, 1)
            try:
                self.tx('c', 'SM,%s,0,0' % step)
            except Latched:
                return None
            remaining -= step

    def m_xy_move(self, d_x, d_y, duration):
        self.tx('c', 'SM,%s,%s,%s' % (duration, d_y, d_x))

    def m_abs_move(self, rate, pos1=None, pos2=None):
        if pos1 is None or pos2 is None:
            self.tx('c', 'HM,%s' % rate)
        else:
            self.tx('c', 'HM,%s,%s,%s' % (rate, pos1, pos2))

    def m_motors_disable(self):
        self.tx('c', 'EM,0,0')

    def m_motors_query_enabled(self):
        first, second = self.tx('q', 'QE').split(',')[:2]
        return INV_RES_BACK[int(first)], INV_RES_BACK[int(second)]

    def m_motors_enable(self, res_1, res_2):
        res_1 = sorted((0, int(res_1), 5))[1]
        res_2 = sorted((0, int(res_2), 5))[1]
        if res_1 != res_2 and 0 in (res_1, res_2):
            try:
                self.tx('c', 'CU,50,0')
            except Latched:
                return None
        if res_1 == 0 and res_2 != 0:
            now = self.m_motors_query_enabled()
            if (now[0] or now[1]) != res_2:
                self.tx('c', 'EM,%d,%d' % (res_2, res_2))
        self.tx('c', 'EM,%d,%d' % (res_1, res_2))

    def m_query_steps(self):
        first, second = self.tx('q', 'QS').split(',')[:2]
        return int(first), int(second)

    def m_clear_steps(self):
        self.tx('c', 'CS')

    def m_clear_accumulators(self):
        self.tx('c', 'T3,1,0,0,0,0,0,0,3')

    def _pen(self, state, delay, pin):
        self.tx('c', 'SP,%d,%s' % (state, delay) + ('' if pin is None else ',%s' % pin))

    def m_pen_lower(self, delay, pin=None):
        self._pen(0, delay, pin)

    def m_pen_raise(self, delay, pin=None):
        self._pen(1, delay, pin)

    def m_dio_b_config(self, pin, state, direction):
        self.tx('c', 'PO,B,%s,%s' % (pin, state))
        self.tx('c', 'PD,B,%s,%s' % (pin, direction))

    def m_dio_b_set(self, pin, state):
        self.tx('c', 'PO,B,%s,%s' % (pin, state))

    def m_dio_b_read(self, pin):
        return self.tx('q', 'PI,B,%s' % pin) != '0'

    def m_pen_pos_down(self, value):
        self.tx('c', 'SC,5,%s' % value)

    def m_pen_pos_up(self, value):
        self.tx('c', 'SC,4,%s' % value)

    def m_pen_rate_down(self, value):
        self.tx('c', 'SC,12,%s' % value)

    def m_pen_rate_up(self, value):
        self.tx('c', 'SC,11,%s' % value)

    def m_servo_timeout(self, timeout_ms, state=None):
        self.tx('c', 'SR,%s' % timeout_ms + ('' if state is None else ',%s' % state))

    def m_query_voltage(self, threshold=None):
        fields = self.tx('q', 'QC').split(',')
        return int(fields[1]) >= (250 if threshold is None else threshold)

    def m_query_current(self):
        fields = self.tx('q', 'QC').split(',')
        return int(fields[0]), int(fields[1])


INV_RES_BACK = {16: 1, 8: 2, 4: 3, 2: 4, 1: 5, 0: 0}


# --------------------------------------------------------------------------
# Call programs
# --------------------------------------------------------------------------
# Every request method once; used after each scenario to prove the latch holds
# across the whole public surface.  (method, args)
BATTERY = [
    ('command', ('SM,10,1,1',)), ('command', (None,)), ('query', ('QS',)), ('query', (None,)),
    ('query_statusbyte', ()), ('query_nickname', ()), ('write_nickname', ('Zed',)),
    ('write_nickname', (None,)),
    ('var_write', (5, 3)), ('var_read', (3,)), ('var_write_int32', (-2, 4)),
    ('var_read_int32', (4,)),
    ('timed_pause', (1600,)), ('xy_move', (1, 2, 3)), ('abs_move', (1000,)),
    ('abs_move', (1000, 5, 6)), ('motors_disable', ()), ('motors_enable', (1, 1)),
    ('motors_enable', (0, 2)), ('motors_query_enabled', ()), ('query_steps', ()),
    ('clear_steps', ()), ('clear_accumulators', ()), ('pen_lower', (100,)),
    ('pen_lower', (100, 2)), ('pen_raise', (90,)), ('pen_raise', (90, 3)),
    ('dio_b_config', (1, 0, 0)), ('dio_b_set', (1, 1)), ('dio_b_read', (1,)),
    ('pen_pos_down', (16000,)), ('pen_pos_up', (20000,)), ('pen_rate_down', (400,)),
    ('pen_rate_up', (500,)), ('servo_timeout', (5000,)), ('servo_timeout', (5000, 1)),
    ('query_voltage', ()), ('query_voltage', (1000,)), ('query_current', ()),
    ('reboot', ()), ('bootload', ()),
]
check(set(GUARD) == {method for method, _ in BATTERY}, 'battery covers every request method')

# Hand-written expectation for the healthy battery (documented command formats).
HEALTHY_WRITES = [
    b'SM,10,1,1\r', b'QS\r', b'QG\r', b'QT\r', b'ST,Zed\r', b'SL,5,3\r', b'QL,3\r',
    b'SL,255,4\r', b'SL,255,5\r', b'SL,255,6\r', b'SL,254,7\r',
    b'QL,4\r', b'QL,5\r', b'QL,6\r', b'QL,7\r',
    b'SM,750,0,0\r', b'SM,750,0,0\r', b'SM,100,0,0\r', b'SM,3,2,1\r', b'HM,1000\r',
    b'HM,1000,5,6\r', b'EM,0,0\r', b'EM,1,1\r',
    b'CU,50,0\r', b'QE\r', b'EM,2,2\r', b'EM,0,2\r',
    b'QE\r', b'QS\r', b'CS\r', b'T3,1,0,0,0,0,0,0,3\r', b'SP,0,100\r', b'SP,0,100,2\r',
    b'SP,1,90\r', b'SP,1,90,3\r', b'PO,B,1,0\r', b'PD,B,1,0\r', b'PO,B,1,1\r', b'PI,B,1\r',
    b'SC,5,16000\r', b'SC,4,20000\r', b'SC,12,400\r', b'SC,11,500\r', b'SR,5000\r',
    b'SR,5000,1\r', b'QC\r', b'QC\r', b'QC\r', b'RB\r',
]
HEALTHY_RETURNS = [
    True, False, '1234,-77', None, 0x3E, None, True, False, True, 5, True, -2,
    None, None, None, None, None, None, None, (0, 2), (1234, -77), None, None, None, None,
    None, None, None, None, True, None, None, None, None, None, None, True, False, (394, 300),
    True, False,
]

PROGRAMS = [
    BATTERY[:-1],               # everything, ending with reboot
    [('query_voltage', (200,)), ('motors_enable', (0, 1)), ('motors_enable', (0, 1)),
     ('motors_enable', (3, 0)), ('motors_enable', (0, 3)), ('motors_enable', (9, -4)),
     ('motors_enable', (0, 0)), ('motors_enable', ('2', 2.9)), ('timed_pause', (0,)),
     ('timed_pause', (-20,)), ('timed_pause', (750,)), ('timed_pause', (751,)),
     ('timed_pause', (0.5,)), ('timed_pause', (750.0,)), ('timed_pause', (1500.0,)),
     ('timed_pause', (1,)), ('timed_pause', (1.0,)), ('timed_pause', (2250.5,)), ('abs_move', (800, 7)), ('abs_move', (800, None, 7)),
     ('command', ('  EM,1,1 \n',)), ('command', ('R',)), ('command', ('XY',)),
     ('query', (' QL,3 ',)), ('query', ('QG',)), ('query', ('QX',)), ('query', ('XY',)),
     ('query', ('I',)), ('query', ('A,1',)), ('query', ('QY',)), ('write_nickname', ('   ',)),
     ('query_nickname', ()), ('write_nickname', ('  Some Name ',)), ('query_nickname', ()),
     ('var_write_int32', (2147483647, 0)), ('var_read_int32', (0,)),
     ('var_write_int32', (-2147483648, 10)), ('var_read_int32', (10,)),
     ('var_write_int32', (0, 28)), ('var_read_int32', (28,)), ('var_read', (31,)),
     ('bootload', ())],
    [('command', ('R',)), ('query_statusbyte', ()), ('command', ('RB',)), ('xy_move', (0, 0, 1)),
     ('command', ('BL',)), ('pen_raise', (0,))],
    [('disconnect', ()), ('pen_lower', (10,)), ('disconnect', ())],
]


def random_program(rng):
    pool = [item for item in BATTERY if item[0] not in ('reboot', 'bootload')]
    program = [rng.choice(pool) for _ in range(rng.randint(3, 9))]
    if rng.random() < 0.3:
        program.insert(rng.randrange(len(program) + 1),
                       (rng.choice(['reboot', 'bootload', 'disconnect']), ()))
    return program


# --------------------------------------------------------------------------
# Running the real library, with the latch property asserted around each call
# --------------------------------------------------------------------------
def connect_real(world, cls=ebb3_motion.EBBMotionWrap):
    CURRENT[0] = world
    obj = cls()
    same(obj.connect(), True, 'healthy connect')
    same([e[1] for e in world.log if e[0] == 'w'], [b'v\r', b'CU,10,1\r', b'QT\r'], 'handshake')
    same((obj.err, obj.name, obj.version, obj.port_name),
         (None, world.device.nick, world.device.firmware, PORT_NAME), 'state after connect')
    return obj


def guarded_call(obj, world, method, args, where):
    ''' Call obj.method(*args); assert the C04 latch property for this single call. '''
    err_before = obj.err
    blocked = (obj.port is None) or (err_before is not None)
    io_before = world.io_count()
    name_before = obj.name
    try:
        result = getattr(obj, method)(*args)
    except Exception as exc:            # pylint: disable=broad-except
        result = ('raised', type(exc).__name__)
    if err_before is not None:
        check(obj.err is err_before, 'latched message replaced', where, method, args,
              repr(err_before), repr(obj.err))
    if blocked and method != 'disconnect':
        same(world.io_count(), io_before, 'I/O while blocked', where, method, args)
        same(result, GUARD[method], 'failure value while blocked', where, method, args)
        same(obj.name, name_before, 'nickname changed while blocked', where, method)
    if method == 'disconnect':
        check(obj.port is None, 'disconnect leaves port', where)
    return result


def run_real(program, fault, tail=BATTERY):
    world = World(None)
    obj = connect_real(world)
    world.log.clear()
    world.ops = 0
    world.fault = fault
    results = []
    for position, (method, args) in enumerate(program):
        results.append(guarded_call(obj, world, method, args, ('program', position, fault)))
    state_mid = (obj.err, obj.name, obj.port is None)
    writes_mid = world.write_count()
    for position, (method, args) in enumerate(tail):
        results.append(guarded_call(obj, world, method, args, ('tail', position, fault)))
    if state_mid[0] is not None or state_mid[2]:
        same(world.write_count(), writes_mid, 'tail wrote after latch/disconnect', fault)
        same((obj.err, obj.name, obj.port is None), state_mid, 'tail changed state', fault)
    return results, world.log, (obj.err, obj.name, obj.port is None)


def run_model(program, fault, tail=BATTERY):
    world = World(fault)
    model = Model(world, name=world.device.nick)
    results = [model.call(method, args) for method, args in list(program) + list(tail)]
    return results, world.log, (model.err, model.name, not model.connected)


def compare(program, fault, stats):
    real = run_real(program, fault)
    model = run_model(program, fault)
    for label, got, want in zip(('returns', 'transcript', 'final state'), real, model):
        if repr(got) != repr(want) and label != 'final state':
            for index, (g_item, w_item) in enumerate(zip(got, want)):
                if repr(g_item) != repr(w_item):
                    print('first difference at', index, repr(g_item), repr(w_item))
                    break
        same(got, want, label, 'fault', fault, 'program', program[:4], '...')
    if real[2][0] is not None:
        stats['latched'] += 1
        stats['messages'].add(real[2][0].split(':')[0])
    stats['runs'] += 1


def sweep(program, stats):
    _, healthy_log, _ = run_model(program, None, tail=())
    ops = [entry for entry in healthy_log if entry[0] in ('w', 'r')]
    compare(program, None, stats)
    for index, entry in enumerate(ops):
        for kind in (WRITE_KINDS if entry[0] == 'w' else READ_KINDS):
            compare(program, (index, kind), stats)


# --------------------------------------------------------------------------
# A. hand-written healthy expectation (anchors the model and the library)
# --------------------------------------------------------------------------
def part_healthy():
    results, log, state = run_real(BATTERY, None, tail=())
    same([e[1] for e in log if e[0] in ('w', 'wx')], HEALTHY_WRITES, 'healthy writes')
    same(results, HEALTHY_RETURNS, 'healthy returns')
    same(state, (None, 'Zed', True), 'healthy final state')
    m_results, m_log, m_state = run_model(BATTERY, None, tail=())
    same((m_results, m_log, m_state), (results, log, state), 'model agrees on healthy run')


# --------------------------------------------------------------------------
# B. fault at every read/write of every call, every kind; plus random sequences
# --------------------------------------------------------------------------
def part_sweep():
    stats = {'runs': 0, 'latched': 0, 'messages': set()}
    for program in PROGRAMS:
        sweep(program, stats)
    rng = random.Random(20240528)
    for _ in range(40):
        program = random_program(rng)
        _, healthy_log, _ = run_model(program, None, tail=())
        n_ops = sum(1 for entry in healthy_log if entry[0] in ('w', 'r'))
        compare(program, None, stats)
        for _ in range(12):
            if n_ops == 0:
                break
            index = rng.randrange(n_ops)
            entry = [e for e in healthy_log if e[0] in ('w', 'r')][index]
            kind = rng.choice(WRITE_KINDS if entry[0] == 'w' else READ_KINDS)
            compare(program, (index, kind), stats)
    check(stats['runs'] > 2000 and stats['latched'] > 1500, 'sweep size', stats['runs'],
          stats['latched'])
    want = {'USB communication error after command', 'USB communication error after query',
            'USB communication error after status byte query',
            'EBB Serial Timeout after command', 'EBB Serial Timeout after query',
            'EBB Serial Timeout while reading status byte.',
            '\nUnexpected response from EBB.    Command',
            '\nUnexpected response from EBB.    Query',
            '\nUnexpected response from EBB.    Response to QG query',
            'Error reported by EBB.\n    Command', 'Error reported by EBB.\n    Query'}
    check(want <= stats['messages'], 'all message families exercised', want - stats['messages'])
    return stats


# --------------------------------------------------------------------------
# C. literal message / retry-limit expectations, driven without the model
# --------------------------------------------------------------------------
def fresh(cls=ebb3_serial.EBB3, **devargs):
    world = World(None, **devargs)
    obj = connect_real(world, cls)
    world.log.clear()
    world.ops = 0
    return obj, world


def tail_is_silent(obj, world, where):
    err, writes = obj.err, world.write_count()
    port_missing = obj.port is None
    for method, args in BATTERY:
        if not hasattr(obj, method):
            continue
        same(guarded_call(obj, world, method, args, where), GUARD[method], where, method)
    same(world.write_count(), writes, 'silent tail', where)
    check(obj.err is err, 'tail keeps message', where)
    same(obj.port is None, port_missing, 'tail keeps port', where)


def part_literals():
    # first error wins
    obj = ebb3_serial.EBB3()
    first = 'first message'
    obj.record_error(first)
    obj.record_error('second message')
    check(obj.err is first, 'record_error keeps the first message')
    same((obj.command('SM,1,1,1'), obj.query('QS'), obj.reboot()), (False, None, False), 'no port')

    # never connected: nothing can be sent, nothing is recorded
    world = World(None)
    CURRENT[0] = world
    for cls in (ebb3_serial.EBB3, ebb3_motion.EBBMotionWrap):
        obj = cls()
        tail_is_silent(obj, world, 'never connected')
        same((obj.err, world.log, world.opened), (None, [], 0), 'never connected state')

    # retry limit: 1 + 25 reads
    for method, request, good in (('command', 'SM,5,0,0', True), ('query', 'QS', '1234,-77')):
        obj, world = fresh()
        world.fault = (1, 'empty:25')
        same(getattr(obj, method)(request), good, '25 empty lines then answer')
        same((obj.err, world.log.count(('r',))), (None, 26), 'reads for 25 empties')
        obj, world = fresh()
        world.fault = (1, 'empty:26')
        same(getattr(obj, method)(request), GUARD[method], '26 empty lines')
        same((obj.err, world.log.count(('r',))),
             ('EBB Serial Timeout after %s: %s' % (method, request), 26), 'reads for timeout')
        tail_is_silent(obj, world, 'after timeout')

    # what a query hands back: name and at most one following comma removed
    obj, world = fresh()
    same([obj.query(q) for q in ('QX', 'XY', 'QG', ' QL,9 ', 'QT', 'QC', 'I', 'A,1', 'QY', 'Q')],
         ['42', '', '3E', '0', 'Alpha', '0394,0300', '', '', ',7', ''], 'query payloads')
    same(obj.query('QY,1'), ',7', 'only one comma is removed')
    same((obj.err, [e[1] for e in world.log if e[0] == 'w'][-5:-3]), (None, [b'I\r', b'A,1\r']),
         'query transcript')

    # keyword-argument calls: healthy, then latched, then disconnected
    kw_calls = [('command', {'cmd': 'CS'}, True, False), ('query', {'qry': 'QS'}, '1234,-77', None),
                ('var_write', {'value': 1, 'index': 2}, True, False),
                ('var_read', {'index': 2}, 1, None),
                ('var_write_int32', {'value': 258, 'start_index': 8}, True, False),
                ('var_read_int32', {'start_index': 8}, 258, False),
                ('write_nickname', {'nickname': 'Kw'}, True, False),
                ('pen_lower', {'pen_delay': 5, 'pin': 2}, None, None),
                ('pen_raise', {'pin': 1, 'pen_delay': 6}, None, None),
                ('abs_move', {'rate': 100, 'position2': 2, 'position1': 1}, None, None),
                ('xy_move', {'duration': 9, 'delta_x': 7, 'delta_y': 8}, None, None),
                ('servo_timeout', {'timeout_ms': 10, 'state': 0}, None, None),
                ('timed_pause', {'pause_time': 2}, None, None),
                ('motors_enable', {'resolution_2': 1, 'resolution_1': 1}, None, None),
                ('dio_b_config', {'pin': 3, 'state': 1, 'direction': 0}, None, None),
                ('dio_b_read', {'pin': 3}, True, None),
                ('query_voltage', {'threshold': 100}, True, None)]
    obj, world = fresh(ebb3_motion.EBBMotionWrap)
    same([getattr(obj, m)(**kw) for m, kw, _, _ in kw_calls], [good for _, _, good, _ in kw_calls],
         'keyword calls, healthy')
    same([e[1] for e in world.log if e[0] == 'w'],
         [b'CS\r', b'QS\r', b'SL,1,2\r', b'QL,2\r', b'SL,0,8\r', b'SL,0,9\r', b'SL,1,10\r',
          b'SL,2,11\r', b'QL,8\r', b'QL,9\r', b'QL,10\r', b'QL,11\r', b'ST,Kw\r', b'SP,0,5,2\r',
          b'SP,1,6,1\r', b'HM,100,1,2\r', b'SM,9,8,7\r', b'SR,10,0\r', b'SM,2,0,0\r', b'EM,1,1\r',
          b'PO,B,3,1\r', b'PD,B,3,0\r', b'PI,B,3\r', b'QC\r'], 'keyword calls transcript')
    obj.record_error('latched by hand')
    for stage in ('latched', 'disconnected'):
        before = len(world.log)
        same([getattr(obj, m)(**kw) for m, kw, _, _ in kw_calls], [bad for _, _, _, bad in kw_calls],
             'keyword calls, ' + stage)
        same((len(world.log), obj.err, obj.name), (before, 'latched by hand', 'Kw'), stage)
        obj.disconnect()
    same((ebb3_motion.EBBMotionWrap.pen_lower.__name__, ebb3_serial.EBB3.command.__name__,
          bool(ebb3_serial.EBB3.query.__doc__)), ('pen_lower', 'command', True), 'introspection')

    # pause splitting: literal expectation, including float boundary values
    obj, world = fresh(ebb3_motion.EBBMotionWrap)
    for pause in (0, -3, 1, 1.0, 0.25, 749, 750, 750.0, 751, 1500.0, 2250.5, True):
        obj.timed_pause(pause)
    same([e[1].decode()[3:-5] for e in world.log if e[0] == 'w'],
         ['1', '1.0', '1', '749', '750', '750.0', '750', '1', '750', '750.0',
          '750', '750', '750', '1', 'True'], 'pause segments')
    same(obj.err, None, 'pause segments leave no error')

    # status byte: a single read, no retry
    obj, world = fresh()
    world.fault = (1, 'empty:1')
    same(obj.query_statusbyte(), None, 'status byte timeout')
    same((obj.err, world.log), ('EBB Serial Timeout while reading status byte.',
                                [('w', b'QG\r'), ('r',)]), 'status byte timeout transcript')
    tail_is_silent(obj, world, 'after QG timeout')

    # literal texts
    cases = [
        ('command', 'SM,5,0,0', (1, 'err_named'),
         'Error reported by EBB.\n    Command: SM,5,0,0\n    Response: SM,Err: simulated fault'),
        ('command', 'SM,5,0,0', (1, 'err_bare'),
         '\nUnexpected response from EBB.    Command: SM,5,0,0\n    Response: !8 Err: simulated fault'),
        ('command', ' S,5 ', (1, 'junk'),
         '\nUnexpected response from EBB.    Command: S,5\n    Response: zz,unexpected'),
        ('command', 'SM,5,0,0', (0, 'x_os'), 'USB communication error after command: SM,5,0,0'),
        ('command', 'SM,5,0,0', (1, 'x_runtime'), 'USB communication error after command: SM,5,0,0'),
        ('query', 'QL,3', (1, 'err_named'),
         '\nUnexpected response from EBB.    Query: QL,3\n    Response: QL,Err: simulated fault'),
        ('query', 'QL,3', (1, 'junk'),
         '\nUnexpected response from EBB.    Query: QL,3\n    Response: zz,unexpected'),
        ('query', 'QL,3', (0, 'x_serial'), 'USB communication error after query: QL,3'),
        ('query', 'R', (0, 'x_serial'), 'EBB Serial Timeout after query: R'),
        ('query', 'BL', None, 'EBB Serial Timeout after query: BL'),
        ('query_statusbyte', None, (1, 'junk'),
         '\nUnexpected response from EBB.    Response to QG query: zz,unexpected'),
        ('query_statusbyte', None, (1, 'err_named'),
         'Error reported by EBB.\n    Query: QG\n    Response: QG,Err: simulated fault'),
        ('query_statusbyte', None, (1, 'x_os'), 'USB communication error after status byte query'),
        ('query_statusbyte', None, (0, 'x_notopen'), 'USB communication error after status byte query'),
    ]
    for method, request, fault, message in cases:
        obj, world = fresh()
        world.fault = fault
        args = () if request is None else (request,)
        same(getattr(obj, method)(*args), GUARD[method], 'literal case result', method, fault)
        same(obj.err, message, 'literal case message', method, request, fault)
        # a second, different fault cannot replace the message: nothing is even sent
        world.fault = (world.ops, 'x_serial')
        tail_is_silent(obj, world, ('literal', method, fault))
        same(obj.err, message, 'message survives', method, fault)

    # USB trouble on R / RB / BL commands is ignored: no latch, command "succeeds"
    for request in ('R', 'RB', 'BL', 'rb', 'r,1'):
        for fault in ((0, 'x_serial'), (0, 'x_os'), (1, 'x_runtime'), (1, 'x_serial')):
            obj, world = fresh()
            world.fault = fault
            same((obj.command(request), obj.err), (True, None), 'ignored USB error', request, fault)
        obj, world = fresh()
        world.fault = (1, 'junk')
        same(obj.command(request), False, 'junk reply is never ignored', request)
        check(obj.err is not None and obj.err.startswith('\nUnexpected response'), 'junk latch')

    # reboot / bootload: serial exceptions give False without latching; the port stays
    for method, code in (('reboot', b'RB\r'), ('bootload', b'BL\r')):
        obj, world = fresh()
        world.fault = (0, 'x_serial')
        same((getattr(obj, method)(), obj.err, obj.port is None, world.log),
             (False, None, False, [('wx', code)]), 'restart request with USB failure')
        same((getattr(obj, method)(), obj.err, obj.port is None, world.log),
             (True, None, True, [('wx', code), ('w', code), ('close',)]), 'restart request')
        tail_is_silent(obj, world, 'after ' + method)
        obj, world = fresh()
        obj.record_error('earlier')
        same((getattr(obj, method)(), obj.port is None, world.log), (False, False, []),
             'restart request refused after an error')


# --------------------------------------------------------------------------
# D. connecting: the ways it records an error; reconnecting keeps the latch
# --------------------------------------------------------------------------
def part_connect():
    def attempt(prepare=None, **devargs):
        world = World(None, **devargs)
        if prepare:
            prepare(world)
        CURRENT[0] = world
        obj = ebb3_motion.EBBMotionWrap()
        return obj, world, obj.connect()

    # unsupported firmware: recorded, port stays open, but nothing more is transmitted
    obj, world, result = attempt(firmware='2.8.1')
    same(result, False, 'old firmware refused')
    same(obj.err, 'Firmware version (2.8.1) not supported.\nFirmware 3.0.2 or newer is required.\n'
         'Visit https://bantam.tools/ndfw to update your firmware.', 'old firmware message')
    same([e[1] for e in world.log if e[0] == 'w'], [b'v\r'], 'old firmware transcript')
    check(obj.port is not None, 'port object kept after firmware refusal')
    tail_is_silent(obj, world, 'old firmware')
    same(obj.connect(), True, 'connect on an open port is a no-op returning True')
    same(world.write_count(), 1, 'no-op connect wrote nothing')

    obj, world, result = attempt(banner='EBB something else')
    same((result, obj.err.split('\n')[0]), (False, 'Firmware version (None) not supported.'),
         'unparsable version')
    tail_is_silent(obj, world, 'unparsable firmware')

    # not an EiBotBoard (two tries), then closed
    obj, world, result = attempt(banner='Hello there')
    same((result, obj.err, obj.port), (False, 'Failed to connect via USB (port name: /dev/fake0)',
                                       None), 'not an EiBotBoard')
    same([e for e in world.log if e[0] != 'r'],
         [('flush',), ('w', b'v\r'), ('w', b'v\r'), ('close',)], 'two identification attempts')
    tail_is_silent(obj, world, 'not an EiBotBoard')

    # USB exception while identifying
    for fault in ((0, 'x_serial'), (1, 'x_serial'), (1, 'x_notopen')):
        obj, world, result = attempt(lambda w, f=fault: setattr(w, 'fault', f))
        same((result, obj.err, obj.port),
             (False, 'Error testing USB connection (port name: /dev/fake0)', None), 'USB exception')
        tail_is_silent(obj, world, 'USB exception in connect')
    obj, world, result = attempt(lambda w: setattr(w, 'open_fails', True))
    same((result, obj.err, obj.port, world.log),
         (False, 'Error testing USB connection (port name: /dev/fake0)', None, []), 'cannot open')
    tail_is_silent(obj, world, 'cannot open')

    # no device at all
    saved = ebb3_serial.comports
    ebb3_serial.comports = lambda: []
    obj, world, result = attempt()
    ebb3_serial.comports = saved
    same((result, obj.err, world.opened), (False, 'Unable to locate device on USB', 0), 'no device')
    tail_is_silent(obj, world, 'no device')
    same(obj.connect(), True, 'connecting remains possible')      # device is back
    same([e[1] for e in world.log if e[0] == 'w'], [b'v\r', b'CU,10,1\r'],
         'handshake only; the nickname query is suppressed by the latch')
    same((obj.err, obj.name), ('Unable to locate device on USB', None), 'latch survives reconnect')
    tail_is_silent(obj, world, 'reconnected with latch')

    # latch, disconnect, reconnect: handshake only, message kept, still silent
    obj, world = fresh(ebb3_motion.EBBMotionWrap)
    world.fault = (1, 'junk')
    obj.pen_lower(50)
    message = obj.err
    same(message, '\nUnexpected response from EBB.    Command: SP,0,50\n    Response: zz,unexpected',
         'pen_lower latch')
    tail_is_silent(obj, world, 'latched')
    obj.disconnect()
    same((obj.port, world.log[-1]), (None, ('close',)), 'disconnect remains possible')
    tail_is_silent(obj, world, 'latched and disconnected')
    world.log.clear()
    same(obj.connect(), True, 'reconnect')
    same([e[1] for e in world.log if e[0] in ('w', 'wx')], [b'v\r', b'CU,10,1\r'],
         'reconnect handshake')
    check(obj.err is message, 'message kept across reconnect')
    tail_is_silent(obj, world, 'latched and reconnected')

    # directly attached port object (no handshake), both classes
    for cls in (ebb3_serial.EBB3, ebb3_motion.EBBMotionWrap):
        world = World((3, 'err_named'))
        obj = cls()
        obj.port = FakePort(world)
        same((obj.command('CS'), obj.var_write(1, 2), obj.err),
             (True, False, 'Error reported by EBB.\n    Command: SL,1,2\n'
              '    Response: SL,Err: simulated fault'), 'attached port')
        tail_is_silent(obj, world, 'attached port')


if __name__ == '__main__':
    part_healthy()
    part_literals()
    part_connect()
    STATS = part_sweep()
    print('C04 demo OK: %d assertions, %d fault scenarios (%d latched), %d message families'
          % (CHECKS[0], STATS['runs'], STATS['latched'], len(STATS['messages'])))
