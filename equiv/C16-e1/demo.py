import os, sys; sys.path.insert(0, os.environ.get('PLOTINK_ROOT', '/tmp/wte_C16'))
# Demo / check for property C16: board-state round trips through the EBB3 layer.
#
# A fake serial port emulates an EiBotBoard (firmware 3.x, "future" syntax) that
# implements the documented SL/QL (variables), ST/QT (nickname), EM/QE (motor
# enable + query) and CU (configuration) commands.  The library is driven through
# that port and every result is compared with an independent oracle (struct for
# the int32 split, a tiny model of the board for the motor state, and the
# documented wire protocol for the exact command traces).
import random
import struct

import serial  # pyserial, for the exception classes

from plotink import ebb3_serial, ebb3_motion

FAILURES = []


def check(cond, msg):
    if not cond:
        FAILURES.append(msg)
        if len(FAILURES) <= 25:
            print("FAIL:", msg)


EM_TO_QE = {0: 0, 1: 16, 2: 8, 3: 4, 4: 2, 5: 1}


class FakeBoard:
    """ Emulates the documented behaviour of the board, as a serial port object. """

    def __init__(self):
        self.ram = [0] * 32
        self.nickname = ''
        self.en1 = False
        self.en2 = False
        self.mode = 1           # Global microstep mode, in EM numbering (1..5). Boot: 1/16.
        self.out = []           # Pending response lines (bytes)
        self.log = []           # Commands received, as strings without the CR
        self.readlines = 0
        self.fail_on = None     # function(cmd_str) -> None | 'err' | 'silent' | 'raise'
        self.bad = []           # protocol violations seen by the board

    # --- serial port API used by the library
    def write(self, data):
        assert isinstance(data, bytes)
        text = data.decode('ascii')
        assert text.endswith('\r') and text.count('\r') == 1, repr(text)
        cmd = text[:-1]
        self.log.append(cmd)
        mode = self.fail_on(cmd) if self.fail_on else None
        if mode == 'raise':
            raise serial.SerialException("fake failure")
        if mode == 'silent':
            return len(data)
        if mode == 'err':
            self.out.append((cmd[:2] + ',!8 Err: fake error\r\n').encode('ascii'))
            return len(data)
        self.out.append((self.execute(cmd) + '\r\n').encode('ascii'))
        return len(data)

    def readline(self):
        self.readlines += 1
        if self.out:
            return self.out.pop(0)
        return b''

    def reset_input_buffer(self):
        self.out = []

    def close(self):
        pass

    # --- board behaviour
    def execute(self, cmd):
        parts = cmd.split(',')
        name = parts[0]
        try:
            if name == 'SL':
                value, index = int(parts[1]), int(parts[2])
                if len(parts) != 3 or not 0 <= value <= 255 or not 0 <= index <= 31:
                    raise ValueError
                if parts[1] != str(value) or parts[2] != str(index):
                    raise ValueError
                self.ram[index] = value
                return 'SL'
            if name == 'QL':
                index = int(parts[1])
                if len(parts) != 2 or not 0 <= index <= 31 or parts[1] != str(index):
                    raise ValueError
                return f'QL,{self.ram[index]}'
            if name == 'ST':
                self.nickname = cmd[3:][:16]
                return 'ST'
            if name == 'QT':
                if len(parts) != 1:
                    raise ValueError
                return 'QT,' + '  ' + self.nickname + '  '    # padded: reader must trim
            if name == 'EM':
                e_1, e_2 = int(parts[1]), int(parts[2])
                if len(parts) != 3 or not 0 <= e_1 <= 5 or not 0 <= e_2 <= 5:
                    raise ValueError
                if parts[1] != str(e_1) or parts[2] != str(e_2):
                    raise ValueError
                if e_1 != 0:
                    self.mode = e_1
                self.en1 = e_1 != 0
                self.en2 = e_2 != 0
                return 'EM'
            if name == 'QE':
                if len(parts) != 1:
                    raise ValueError
                qe_val = EM_TO_QE[self.mode]
                return f'QE,{qe_val if self.en1 else 0},{qe_val if self.en2 else 0}'
            if name == 'CU':
                int(parts[1]); int(parts[2])
                if len(parts) != 3:
                    raise ValueError
                return 'CU'
        except (ValueError, IndexError):
            pass
        self.bad.append(cmd)
        return name[:2] + ',!3 Err: bad command'


def new_ebb(board=None):
    ebb = ebb3_motion.EBBMotionWrap()
    ebb.port = board if board is not None else FakeBoard()
    return ebb, ebb.port


# ----------------------------------------------------------------------------------
# 1. int32 round trips: all slots x many values
def int32_values():
    vals = {0, 1, -1, 2, -2, 127, 128, 129, 255, 256, 257, -127, -128, -129, -255, -256, -257,
            2**31 - 1, -2**31, 2**31 - 2, -2**31 + 1, 0x01020304, -0x01020304, 0x7F00FF80,
            -0x7F00FF80, 0x00FF00FF, -0x00FF00FF, 0x12345678, -0x12345678}
    for power in range(0, 31):
        for delta in (-1, 0, 1):
            for sign in (1, -1):
                val = sign * (2 ** power) + delta
                if -2**31 <= val <= 2**31 - 1:
                    vals.add(val)
    rng = random.Random(1601)
    while len(vals) < 330:
        vals.add(rng.randint(-2**31, 2**31 - 1))
    for _ in range(40):
        vals.add(rng.randint(-70000, 70000))
    return sorted(vals)


def test_int32():
    ebb, board = new_ebb()
    values = int32_values()
    for slot in range(0, 29):
        for value in values:
            board.ram = [0xA5] * 32
            board.log = []
            result = ebb.var_write_int32(value, slot)
            check(result is True, f"var_write_int32({value},{slot}) returned {result!r}")
            expect = list(struct.pack('>i', value))
            check(board.ram[slot:slot + 4] == expect,
                  f"int32 {value} at {slot}: stored {board.ram[slot:slot+4]} expected {expect}")
            untouched = board.ram[:slot] + board.ram[slot + 4:]
            check(all(b == 0xA5 for b in untouched), f"int32 {value} at {slot}: other slots changed")
            check(board.log == [f'SL,{expect[i]},{slot + i}' for i in range(4)],
                  f"int32 write {value} at {slot}: trace {board.log}")
            board.log = []
            back = ebb.var_read_int32(slot)
            check(type(back) is int and back == value,
                  f"int32 {value} at {slot}: read back {back!r}")
            check(board.log == [f'QL,{slot + i}' for i in range(4)],
                  f"int32 read at {slot}: trace {board.log}")
    check(ebb.err is None, f"unexpected error {ebb.err!r}")
    check(not board.bad, f"board saw bad commands {board.bad[:3]}")

    # Every byte pattern read is decoded as big-endian two's complement
    rng = random.Random(1602)
    patterns = [[a, b, c, d] for a in (0, 1, 127, 128, 255) for b in (0, 255)
                for c in (0, 128) for d in (0, 1, 255)]
    patterns += [[rng.randrange(256) for _ in range(4)] for _ in range(300)]
    for pattern in patterns:
        slot = rng.randrange(0, 29)
        board.ram[slot:slot + 4] = pattern
        back = ebb.var_read_int32(slot)
        expect = struct.unpack('>i', bytes(pattern))[0]
        check(back == expect, f"pattern {pattern}: read {back!r}, expected {expect}")


# 2. single slot write/read, and arbitrary sequences against a RAM model
def test_single_slot_and_sequences():
    ebb, board = new_ebb()
    for index in range(0, 32):
        for value in (0, 1, 7, 127, 128, 254, 255):
            board.log = []
            check(ebb.var_write(value, index) is True, "var_write result")
            check(board.log == [f'SL,{value},{index}'], f"var_write trace {board.log}")
            check(board.ram[index] == value, "var_write stored value")
            board.log = []
            back = ebb.var_read(index)
            check(type(back) is int and back == value, f"var_read({index}) -> {back!r}")
            check(board.log == [f'QL,{index}'], f"var_read trace {board.log}")

    rng = random.Random(1603)
    ebb, board = new_ebb()
    model = [0] * 32
    for _ in range(3000):
        op_type = rng.randrange(4)
        if op_type == 0:
            slot = rng.randrange(0, 29)
            value = rng.choice([rng.randint(-2**31, 2**31 - 1), rng.randint(-300, 300),
                                -2**31, 2**31 - 1])
            check(ebb.var_write_int32(value, slot) is True, "seq: write_int32 result")
            model[slot:slot + 4] = list(struct.pack('>i', value))
        elif op_type == 1:
            slot = rng.randrange(0, 29)
            expect = struct.unpack('>i', bytes(model[slot:slot + 4]))[0]
            back = ebb.var_read_int32(slot)
            check(back == expect, f"seq: read_int32({slot}) -> {back!r}, expected {expect}")
        elif op_type == 2:
            slot = rng.randrange(0, 32)
            value = rng.randrange(256)
            check(ebb.var_write(value, slot) is True, "seq: var_write result")
            model[slot] = value
        else:
            slot = rng.randrange(0, 32)
            back = ebb.var_read(slot)
            check(back == model[slot], f"seq: var_read({slot}) -> {back!r}")
        check(board.ram == model, "seq: board RAM differs from model")
    check(ebb.err is None and not board.bad, "seq: errors")


# 3. nickname write / read
def test_nickname():
    names = ["Plotter", "  Plotter  ", "\tAxi 7\n", "a", "NextDraw-0042", "x y z", "Sixteen_chars_16",
             "A,B", "", "   ", " \t ", "0", "QT", "ST,ST"]
    ebb, board = new_ebb()
    for raw in names:
        trimmed = raw.strip()
        board.log = []
        result = ebb.write_nickname(raw)
        check(result is True, f"write_nickname({raw!r}) -> {result!r}")
        check(board.log == [('ST,' + trimmed).strip()], f"write_nickname({raw!r}) trace {board.log}")
        check(board.nickname == trimmed, f"board nickname {board.nickname!r} vs {trimmed!r}")
        check(ebb.name == trimmed and type(ebb.name) is str,
              f"name after write {ebb.name!r} vs {trimmed!r}")
        # Read back with a fresh object on the same board
        ebb2, _ = new_ebb(board)
        ebb2.name = "previous"
        board.log = []
        check(ebb2.query_nickname() is None, "query_nickname returns None")
        check(board.log == ['QT'], f"query_nickname trace {board.log}")
        check(ebb2.name == trimmed and type(ebb2.name) is str,
              f"name read back {ebb2.name!r} vs {trimmed!r}")
        check(ebb2.err is None, "query_nickname error")
    check(ebb.err is None and not board.bad, "nickname errors")

    # A board answering with whitespace only leaves the name unchanged
    # (the serial layer strips replies, so stub the query layer to present such an answer)
    for answer, expect in ((' \t\x0b ', "keep"), (None, "keep"), ('', ''), (' n ', 'n')):
        ebb, board = new_ebb()
        ebb.name = "keep"
        asked = []
        ebb.query = lambda qry, answer=answer, asked=asked: (asked.append(qry), answer)[1]
        ebb.query_nickname()
        check(asked == ['QT'], f"stubbed query calls {asked}")
        check(ebb.name == expect, f"QT answer {answer!r}: name {ebb.name!r}, expected {expect!r}")

    class Spaces(FakeBoard):
        def execute(self, cmd):
            if cmd == 'QT':
                return 'QT,A \t B'
            return FakeBoard.execute(self, cmd)
    ebb, board = new_ebb(Spaces())
    ebb.query_nickname()
    check(ebb.name == "A \t B", f"inner whitespace: {ebb.name!r}")


# 4. motor enable / query
def clamp(res):
    return min(max(int(res), 0), 5)


def expected_enable_trace(c_1, c_2, en1, en2, mode):
    trace = []
    if (c_1 == 0) != (c_2 == 0):
        trace.append('CU,50,0')
    if c_1 == 0 and c_2 != 0:
        trace.append('QE')
        current = mode if (en1 or en2) else 0
        if current != c_2:
            trace.append(f'EM,{c_2},{c_2}')
    trace.append(f'EM,{c_1},{c_2}')
    return trace


REQUESTS = [-7, -1, 0, 1, 2, 3, 4, 5, 6, 11, 2.9, -0.5, 5.99, "3", " 4 ", True, False]


def test_motors():
    prior_states = [(en1, en2, mode) for en1 in (False, True) for en2 in (False, True)
                    for mode in (1, 2, 3, 4, 5)]
    for prior in prior_states:
        for r_1 in REQUESTS:
            for r_2 in REQUESTS:
                ebb, board = new_ebb()
                board.en1, board.en2, board.mode = prior
                c_1, c_2 = clamp(r_1), clamp(r_2)
                result = ebb.motors_enable(r_1, r_2)
                tag = f"prior {prior} request ({r_1!r},{r_2!r})"
                check(result is None, f"{tag}: returned {result!r}")
                check(ebb.err is None and not board.bad, f"{tag}: error {ebb.err!r} {board.bad}")
                check(board.log == expected_enable_trace(c_1, c_2, *prior),
                      f"{tag}: trace {board.log}")
                check(board.en1 == (c_1 != 0), f"{tag}: motor 1 enabled = {board.en1}")
                check(board.en2 == (c_2 != 0), f"{tag}: motor 2 enabled = {board.en2}")
                want = c_1 if c_1 != 0 else c_2
                if want != 0:
                    check(board.mode == want, f"{tag}: mode {board.mode}, expected {want}")
                else:
                    check(board.mode == prior[2], f"{tag}: mode changed with both motors off")
                board.log = []
                state = ebb.motors_query_enabled()
                check(board.log == ['QE'], f"{tag}: query trace {board.log}")
                check(state == (want if c_1 else 0, want if c_2 else 0) and type(state) is tuple,
                      f"{tag}: query {state!r}")
                check(all(type(x) is int for x in state), f"{tag}: query types {state!r}")

    # arbitrary sequences on one board
    rng = random.Random(1604)
    ebb, board = new_ebb()
    for step in range(1500):
        r_1 = rng.choice([0, 0, 1, 2, 3, 4, 5, -2, 8])
        r_2 = rng.choice([0, 0, 1, 2, 3, 4, 5, -2, 8])
        prior = (board.en1, board.en2, board.mode)
        board.log = []
        if rng.randrange(10) == 0:
            ebb.motors_disable()
            check(board.log == ['EM,0,0'], "seq: disable trace")
            check(ebb.motors_query_enabled() == (0, 0), "seq: disable state")
            continue
        ebb.motors_enable(r_1, r_2)
        c_1, c_2 = clamp(r_1), clamp(r_2)
        check(board.log == expected_enable_trace(c_1, c_2, *prior), f"seq {step}: trace {board.log}")
        want = c_1 if c_1 else c_2
        state = ebb.motors_query_enabled()
        check(state == (want if c_1 else 0, want if c_2 else 0),
              f"seq {step}: ({r_1},{r_2}) from {prior} -> {state!r}")
        check(board.mode == (want if want else prior[2]), f"seq {step}: mode")
    check(ebb.err is None and not board.bad, "seq motors errors")

    # Decoding of every documented QE answer
    class RawQE(FakeBoard):
        answer = 'QE,0,0'

        def execute(self, cmd):
            if cmd == 'QE':
                return self.answer
            return FakeBoard.execute(self, cmd)
    decode = {16: 1, 8: 2, 4: 3, 2: 4, 1: 5, 0: 0}
    for qe_1 in decode:
        for qe_2 in decode:
            ebb, board = new_ebb(RawQE())
            board.answer = f'QE,{qe_1},{qe_2}'
            state = ebb.motors_query_enabled()
            check(state == (decode[qe_1], decode[qe_2]), f"decode {board.answer}: {state!r}")
            # Enabling only motor 2 from that reported state
            for r_2 in (1, 3, 5):
                board.log = []
                ebb.motors_enable(0, r_2)
                old = decode[qe_1] if decode[qe_1] else decode[qe_2]
                want = ['CU,50,0', 'QE'] + ([f'EM,{r_2},{r_2}'] if old != r_2 else []) + [f'EM,0,{r_2}']
                check(board.log == want, f"only-motor-2 from {board.answer} r2={r_2}: {board.log}")


# 5. guards, errors and timeouts
def test_faults():
    # No port / earlier error: nothing is sent, documented failure values are returned
    for port_present, err in ((False, None), (True, "earlier error"), (False, "earlier error")):
        ebb, board = new_ebb()
        if not port_present:
            ebb.port = None
        ebb.err = err
        ebb.name = "unchanged"
        tag = f"guard port={port_present} err={err!r}"
        check(ebb.var_write(1, 2) is False, f"{tag}: var_write")
        check(ebb.var_read(2) is None, f"{tag}: var_read")
        check(ebb.var_write_int32(5, 2) is False, f"{tag}: var_write_int32")
        check(ebb.var_read_int32(2) is False, f"{tag}: var_read_int32")
        check(ebb.write_nickname("abc") is False, f"{tag}: write_nickname")
        check(ebb.query_nickname() is None, f"{tag}: query_nickname")
        check(ebb.motors_enable(1, 1) is None, f"{tag}: motors_enable")
        check(ebb.motors_enable(0, 2) is None, f"{tag}: motors_enable")
        check(ebb.motors_query_enabled() is None, f"{tag}: motors_query_enabled")
        check(ebb.name == "unchanged", f"{tag}: name changed")
        check(ebb.err == err, f"{tag}: err changed")
        check(board.log == [] and board.readlines == 0, f"{tag}: traffic {board.log}")

    ebb, board = new_ebb()
    check(ebb.write_nickname(None) is False and board.log == [], "write_nickname(None)")
    check(ebb.err is None and ebb.name is None, "write_nickname(None) side effects")

    # Board reports an error on the second byte: remaining writes are suppressed
    for mode, text in (('err', 'Error reported by EBB'), ('silent', 'EBB Serial Timeout after command: SL,2,11'),
                       ('raise', 'USB communication error after command: SL,2,11')):
        ebb, board = new_ebb()
        board.fail_on = lambda cmd, mode=mode: mode if cmd.endswith(',11') else None
        result = ebb.var_write_int32(0x01020304, 10)
        check(result is False, f"write fault {mode}: returned {result!r}")
        check(board.log == ['SL,1,10', 'SL,2,11'], f"write fault {mode}: trace {board.log}")
        check(ebb.err is not None and text in ebb.err, f"write fault {mode}: err {ebb.err!r}")
        check(board.ram[10:14] == [1, 0, 0, 0], f"write fault {mode}: ram {board.ram[10:14]}")
        check(ebb.var_read_int32(10) is False and ebb.var_read(10) is None, f"after fault {mode}")

    for mode, text in (('err', 'Unexpected response from EBB'), ('silent', 'EBB Serial Timeout after query: QL,12'),
                       ('raise', 'USB communication error after query: QL,12')):
        ebb, board = new_ebb()
        board.ram[10:14] = [9, 8, 7, 6]
        board.fail_on = lambda cmd, mode=mode: mode if cmd == 'QL,12' else None
        result = ebb.var_read_int32(10)
        check(result is None, f"read fault {mode}: returned {result!r}")
        check(board.log == ['QL,10', 'QL,11', 'QL,12'], f"read fault {mode}: trace {board.log}")
        check(ebb.err is not None and text in ebb.err, f"read fault {mode}: err {ebb.err!r}")
        if mode == 'silent':
            check(board.readlines == 2 + 26, f"read fault: {board.readlines} readlines")

        ebb, board = new_ebb()
        board.fail_on = lambda cmd, mode=mode: mode if cmd == 'QL,12' else None
        check(ebb.var_read(12) is None and ebb.err is not None, f"var_read fault {mode}")
        ebb, board = new_ebb()
        board.fail_on = lambda cmd, mode=mode: mode if cmd.startswith('SL') else None
        check(ebb.var_write(3, 12) is False and ebb.err is not None, f"var_write fault {mode}")
        check(board.ram[12] == 0, "var_write fault stored a value")

    # Nickname faults
    for mode in ('err', 'silent', 'raise'):
        ebb, board = new_ebb()
        ebb.name = "old"
        board.nickname = "boardname"
        board.fail_on = lambda cmd, mode=mode: mode if cmd.startswith('ST') else None
        check(ebb.write_nickname("new") is False, f"nickname fault {mode}: result")
        check(ebb.name == "old", f"nickname fault {mode}: name {ebb.name!r}")
        check(board.log == ['ST,new'] and ebb.err is not None, f"nickname fault {mode}: trace/err")

        ebb, board = new_ebb()
        ebb.name = "old"
        board.nickname = "boardname"
        board.fail_on = lambda cmd, mode=mode: mode if cmd == 'QT' else None
        ebb.query_nickname()
        check(ebb.name == "old" and ebb.err is not None, f"QT fault {mode}: name {ebb.name!r}")

    class Raiser(FakeBoard):
        def write(self, data):
            self.log.append(data.decode('ascii')[:-1])
            raise serial.serialutil.PortNotOpenError()
    ebb, board = new_ebb(Raiser())
    ebb.name = "old"
    check(ebb.write_nickname("new") is False and ebb.name == "old", "PortNotOpenError on ST")

    # Motor enable faults: if the state cannot be read, no EM command is sent
    for failing in ('CU,50,0', 'QE'):
        for mode in ('err', 'silent', 'raise'):
            ebb, board = new_ebb()
            board.en1, board.en2, board.mode = True, True, 2
            board.fail_on = lambda cmd, mode=mode, failing=failing: mode if cmd == failing else None
            check(ebb.motors_enable(0, 4) is None, "motor fault result")
            want = ['CU,50,0'] if failing == 'CU,50,0' else ['CU,50,0', 'QE']
            check(board.log == want, f"motor fault {failing}/{mode}: trace {board.log}")
            check((board.en1, board.en2, board.mode) == (True, True, 2), "motor fault: state changed")
            check(ebb.err is not None, "motor fault: err not recorded")
            check(ebb.motors_query_enabled() is None, "motor fault: query after error")
    for mode in ('err', 'silent', 'raise'):
        ebb, board = new_ebb()
        board.fail_on = lambda cmd, mode=mode: mode if cmd == 'CU,50,0' else None
        ebb.motors_enable(3, 0)     # Only motor 1: CU fails, final EM is then suppressed by command()
        check(board.log == ['CU,50,0'], f"motor-1-only fault {mode}: trace {board.log}")
        ebb, board = new_ebb()
        board.fail_on = lambda cmd, mode=mode: mode if cmd == 'EM,4,4' else None
        ebb.motors_enable(0, 4)     # pre-set fails; final EM suppressed
        check(board.log == ['CU,50,0', 'QE', 'EM,4,4'], f"preset fault {mode}: trace {board.log}")
        ebb, board = new_ebb()
        board.fail_on = lambda cmd, mode=mode: mode if cmd == 'QE' else None
        check(ebb.motors_query_enabled() is None and ebb.err is not None, f"QE fault {mode}")

    # Invalid resolutions raise before anything is sent
    for bad_args, exc in ((("x", 1), ValueError), ((1, "x"), ValueError), ((None, 1), TypeError),
                          ((1, None), TypeError)):
        ebb, board = new_ebb()
        try:
            ebb.motors_enable(*bad_args)
            check(False, f"motors_enable{bad_args}: no exception")
        except exc:
            pass
        check(board.log == [], f"motors_enable{bad_args}: traffic {board.log}")


def main():
    test_int32()
    test_single_slot_and_sequences()
    test_nickname()
    test_motors()
    test_faults()
    if FAILURES:
        print(f"{len(FAILURES)} check(s) FAILED")
        return 1
    print("C16 demo: all checks passed")
    return 0


if __name__ == '__main__':
    sys.exit(main())
