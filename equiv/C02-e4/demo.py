import os, sys; sys.path.insert(0, os.environ.get('PLOTINK_ROOT', '/tmp/wtf_C02'))
# Demo / evidence for property C02: T3 (jerk) move prediction equals the third-order
# firmware recurrence.  Checks plotink.ebb_calc.move_dist_t3 and rate_t3 against
#   (1) an independent pure-integer simulation of the firmware recurrence (the oracle),
#   (2) an exact-integer closed form of that recurrence for long moves,
#   (3) the documented three-level "clear" rule,
#   (4) move_dist_lt for zero jerk,
#   (5) a frozen verbatim copy of the reference implementation (differential test),
# under several ambient mpmath precisions.  Deterministic, no hardware, a few seconds.

import math
import random

import mpmath

from plotink import ebb_calc

TWO31 = 1 << 31
I32_MIN, I32_MAX = -(1 << 31), (1 << 31) - 1
CHECKS = {"oracle": 0, "closed": 0, "clear": 0, "lt": 0, "diff": 0}


def fail(msg):
    print("FAIL:", msg)
    sys.exit(1)


# ----------------------------------------------------------------------------- oracle
def trunc_div(num, den):
    ''' Integer division truncated toward zero (C semantics), pure integer. '''
    quo = abs(num) // den
    return -quo if num < 0 else quo


def firmware(ticks, rate, accel, jerk, accum):
    '''
    Tick-by-tick firmware recurrence in exact integers.
    Returns (position, remainder, final_rate, in_domain, start_accumulator).
    accum may be an int or the string "clear".
    '''
    rate_w = rate - trunc_div(accel, 2) + trunc_div(jerk, 6)
    accel_w = accel
    in_domain = I32_MIN <= rate <= I32_MAX and I32_MIN <= accel <= I32_MAX
    rates = []
    for _ in range(ticks):
        rate_w += accel_w
        accel_w += jerk
        rates.append(rate_w)
        if not (I32_MIN <= rate_w <= I32_MAX and I32_MIN <= accel_w <= I32_MAX):
            in_domain = False
    if accum == "clear":
        # Work out the first three tick rates even if the move is shorter than that.
        r_w = rate - trunc_div(accel, 2) + trunc_div(jerk, 6)
        a_w = accel
        first3 = []
        for _ in range(3):
            r_w += a_w
            a_w += jerk
            first3.append(r_w)
        start = 0
        for val in first3:
            if val != 0:
                start = TWO31 - 1 if val < 0 else 0
                break
    else:
        start = accum
    total = start + sum(rates)
    pos = total // TWO31
    rem = total - pos * TWO31
    assert 0 <= rem < TWO31
    return pos, rem, rates[-1], in_domain, start


def closed_form(ticks, rate, accel, jerk, start):
    ''' Exact integer closed form of the recurrence: total accumulator and final rate. '''
    r_zero = rate - trunc_div(accel, 2) + trunc_div(jerk, 6)
    six_total = 6 * start + 6 * r_zero * ticks + 3 * accel * ticks * (ticks + 1) \
        + jerk * (ticks - 1) * ticks * (ticks + 1)
    assert six_total % 6 == 0
    total = six_total // 6
    two_rate = 2 * r_zero + 2 * accel * ticks + jerk * ticks * (ticks - 1)
    assert two_rate % 2 == 0
    return total, two_rate // 2


def rate_at(tick, r_zero, accel, jerk):
    return r_zero + accel * tick + jerk * tick * (tick - 1) // 2


def long_move_in_domain(ticks, rate, accel, jerk):
    ''' Domain test without looping: quadratic rate extremes and linear accel endpoints. '''
    r_zero = rate - trunc_div(accel, 2) + trunc_div(jerk, 6)
    probe = {1, ticks}
    if jerk != 0:
        vertex = 0.5 - accel / jerk
        for cand in (math.floor(vertex) - 1, math.floor(vertex), math.ceil(vertex),
                     math.ceil(vertex) + 1):
            if 1 <= cand <= ticks:
                probe.add(cand)
    if not all(I32_MIN <= rate_at(t, r_zero, accel, jerk) <= I32_MAX for t in probe):
        return False
    return all(I32_MIN <= val <= I32_MAX for val in (rate, accel, accel + jerk * ticks))


# ------------------------------------------------------- frozen reference implementation
def ref_move_dist_t3(time, rate, accel, jerk, accum="clear"):
    time = int(time)
    rate = int(rate)
    accel = int(accel)
    jerk = int(jerk)
    if time == 0:
        return 0, 0
    mpmath.mp.dps = 30
    half_accel = int(accel / 2)
    jerk_over_six = int(jerk / 6)
    if accum == "clear":
        accum = 0
        temp_rate = rate - half_accel + jerk_over_six + accel
        if temp_rate < 0:
            accum = 2147483647
        elif temp_rate == 0:
            temp_rate = accel + jerk
            if temp_rate < 0:
                accum = 2147483647
            elif temp_rate == 0:
                if jerk < 0:
                    accum = 2147483647
    else:
        accum = int(accum)
    rate_effective = rate + mpmath.mpf(accel)/2 - half_accel +\
                        jerk_over_six - mpmath.mpf(jerk)/6
    if abs(rate_effective - mpmath.mpf(rate)) < 0.01:
        rate_effective = rate
    accum_final = mpmath.mpf(accum) + rate_effective * time +\
                    mpmath.mpf(accel) * time * time / 2 +\
                    mpmath.mpf(jerk) * time * time * time / 6
    accum_final = round(accum_final)
    pos_final = mpmath.floor(accum_final / mpmath.mpf(2147483648))
    accum_final -= 2147483648 * mpmath.mpf(pos_final)
    return int(pos_final), int(accum_final)


def ref_rate_t3(time, rate, accel, jerk):
    time = int(time)
    if time == 0:
        return rate + accel + jerk
    return round(int(rate) - int(accel / 2) + int(jerk / 6) +\
                (int(accel) - jerk/2) * time + jerk * time * time / 2)


# --------------------------------------------------------------------------- the checks
PRECISIONS = (30, 15, 6, 50, 100, 3, 200)
_prec_index = [0]


def set_ambient_precision():
    ''' Rotate through ambient precisions; the library must not depend on them. '''
    _prec_index[0] = (_prec_index[0] + 1) % len(PRECISIONS)
    mpmath.mp.dps = PRECISIONS[_prec_index[0]]


def is_plain_int(val):
    return type(val) is int


def check_case(ticks, rate, accel, jerk, accum, simulate=True):
    ''' Check one in-domain case against the oracle(s) and the frozen reference. '''
    label = "T=%d rate=%d accel=%d jerk=%d accum=%r" % (ticks, rate, accel, jerk, accum)

    if simulate:
        pos, rem, end_rate, in_domain, start = firmware(ticks, rate, accel, jerk, accum)
        if not in_domain:
            return False
        total_cf, rate_cf = closed_form(ticks, rate, accel, jerk, start)
        if (total_cf // TWO31, total_cf % TWO31, rate_cf) != (pos, rem, end_rate):
            fail("oracle self-check (closed form vs loop) " + label)
        CHECKS["oracle"] += 1
    else:
        if not long_move_in_domain(ticks, rate, accel, jerk):
            return False
        if accum == "clear":
            start = firmware(3, rate, accel, jerk, "clear")[4]
        else:
            start = accum
        total_cf, end_rate = closed_form(ticks, rate, accel, jerk, start)
        pos, rem = total_cf // TWO31, total_cf % TWO31
        CHECKS["closed"] += 1

    set_ambient_precision()
    got = ebb_calc.move_dist_t3(ticks, rate, accel, jerk, accum)
    if mpmath.mp.dps != 30:
        fail("working precision not established by move_dist_t3: " + label)
    if not (isinstance(got, tuple) and len(got) == 2 and all(map(is_plain_int, got))):
        fail("move_dist_t3 result shape/type %r for %s" % (got, label))
    if got != (pos, rem):
        fail("move_dist_t3 %r != firmware %r for %s" % (got, (pos, rem), label))

    set_ambient_precision()
    got_rate = ebb_calc.rate_t3(ticks, rate, accel, jerk)
    if not is_plain_int(got_rate) or got_rate != end_rate:
        fail("rate_t3 %r != firmware %r for %s" % (got_rate, end_rate, label))

    # Explicit start accumulator must agree with what "clear" resolved to.
    if accum == "clear":
        set_ambient_precision()
        if ebb_calc.move_dist_t3(ticks, rate, accel, jerk, start) != (pos, rem):
            fail("clear rule: explicit start %d disagrees for %s" % (start, label))
        CHECKS["clear"] += 1

    # Zero jerk: coincide with the timed-move (LT) prediction.
    if jerk == 0:
        set_ambient_precision()
        if ebb_calc.move_dist_lt(rate, accel, ticks, accum) != (pos, rem):
            fail("zero-jerk T3 differs from move_dist_lt for " + label)
        CHECKS["lt"] += 1

    # Differential check against frozen reference copy.
    set_ambient_precision()
    if ref_move_dist_t3(ticks, rate, accel, jerk, accum) != got:
        fail("differs from frozen reference move_dist_t3 for " + label)
    if ref_rate_t3(ticks, rate, accel, jerk) != got_rate:
        fail("differs from frozen reference rate_t3 for " + label)
    CHECKS["diff"] += 1
    return True


def small_exhaustive():
    values = (-13, -7, -6, -5, -3, -1, 0, 1, 2, 3, 6, 7, 12)
    accums = ("clear", 0, 1, TWO31 - 1, 12345)
    for ticks in (1, 2, 3, 6):
        for rate in values:
            for accel in values:
                for jerk in values:
                    check_case(ticks, rate, accel, jerk, accums[(rate + accel + jerk) % 5])
                    if (rate + 2 * accel + 3 * jerk) % 4 == 0:
                        check_case(ticks, rate, accel, jerk, "clear")


def clear_rule_targets(rng):
    ''' Cases engineered so the first and/or second tick rates are exactly zero. '''
    count = 0
    for _ in range(1500):
        accel = rng.choice((rng.randint(-50, 50), rng.randint(-10**6, 10**6),
                            rng.randint(-2 * 10**8, 2 * 10**8)))
        level = rng.choice((1, 2, 3))
        if level == 1:
            jerk = rng.choice((rng.randint(-40, 40), rng.randint(-5000, 5000)))
        else:
            # Second-tick rate zero as well: accel + jerk == 0
            jerk = -accel
            if level == 3 and rng.random() < 0.5:
                accel, jerk = 0, 0
        # First-tick rate zero: rate - trunc(accel/2) + trunc(jerk/6) + accel == 0
        rate = trunc_div(accel, 2) - trunc_div(jerk, 6) - accel
        rate += rng.choice((0, 0, 0, 1, -1))
        ticks = rng.choice((1, 2, 3, 4, 5, 10, 37))
        if check_case(ticks, rate, accel, jerk, "clear"):
            count += 1
        # Documented expectation, stated directly:
        first = rate - trunc_div(accel, 2) + trunc_div(jerk, 6) + accel
        if first != 0:
            negative = first < 0
        elif accel + jerk != 0:
            negative = accel + jerk < 0
        else:
            negative = jerk < 0
        expected_start = TWO31 - 1 if negative else 0
        other_start = 0 if negative else TWO31 - 1
        set_ambient_precision()
        res_clear = ebb_calc.move_dist_t3(ticks, rate, accel, jerk)   # default argument
        res_exp = ebb_calc.move_dist_t3(ticks, rate, accel, jerk, expected_start)
        res_other = ebb_calc.move_dist_t3(ticks, rate, accel, jerk, other_start)
        if res_clear != res_exp or res_clear == res_other:
            fail("three-level clear rule, T=%d rate=%d accel=%d jerk=%d"
                 % (ticks, rate, accel, jerk))
    if count < 500:
        fail("too few clear-rule target cases in domain (%d)" % count)


def random_simulated(rng):
    done = 0
    attempts = 0
    while done < 2500 and attempts < 100000:
        attempts += 1
        ticks = rng.choice((1, 2, 3, rng.randint(1, 40), rng.randint(1, 600)))
        scale = rng.choice((10, 10**3, 10**6, 10**8, 2 * 10**9))
        rate = rng.randint(-scale, scale)
        accel = rng.choice((0, rng.randint(-scale, scale) // max(1, ticks // 2)))
        jerk = rng.choice((0, rng.randint(-6, 6),
                           rng.randint(-scale, scale) // max(1, ticks * ticks // 4)))
        accum = rng.choice(("clear", "clear", rng.randint(0, TWO31 - 1), 0, TWO31 - 1))
        if check_case(ticks, rate, accel, jerk, accum):
            done += 1
    if done < 2500:
        fail("random generator produced too few in-domain cases (%d)" % done)


def boundary_cases():
    cases = [
        (1, I32_MAX, 0, 0, "clear"), (1, I32_MIN + 1, 0, 0, "clear"),
        (1, 0, I32_MAX, 0, 0), (1, 0, I32_MIN + 2, 0, "clear"),
        (5, I32_MAX, 0, 0, TWO31 - 1), (5, I32_MIN + 1, 0, 0, 0),
        (1000, I32_MAX, 0, 0, "clear"), (1000, -I32_MAX, 0, 0, "clear"),
        (2, 0, 1, 0, "clear"), (2, 0, -1, 0, "clear"), (3, 0, 0, 1, "clear"),
        (3, 0, 0, -1, "clear"), (3, 0, 0, 6, "clear"), (3, 0, 0, -6, "clear"),
        (3, 0, 0, 5, "clear"), (3, 0, 0, -5, "clear"), (9, 0, 3, 3, "clear"),
        (9, 0, -3, -3, 7), (9, 1, 1, 3, "clear"), (9, -1, -1, -3, "clear"),
        (100, 2 * 10**9, -4 * 10**7, 4 * 10**5, "clear"),
        (100, -2 * 10**9, 4 * 10**7, -4 * 10**5, "clear"),
        (250, 1073741824, 4294967, -34359, 55555),
        (1, 0, 0, 0, "clear"), (1, 0, 0, 0, 99), (10, 0, 0, 0, TWO31 - 1),
    ]
    hits = sum(1 for case in cases if check_case(*case))
    if hits < 20:
        fail("boundary cases unexpectedly out of domain (%d in domain)" % hits)


def long_moves(rng):
    done = 0
    attempts = 0
    while done < 1000 and attempts < 100000:
        attempts += 1
        ticks = rng.choice((rng.randint(10**3, 10**5), rng.randint(10**5, 10**7),
                            rng.randint(10**7, 2**32 - 1)))
        rate = rng.randint(-2 * 10**9, 2 * 10**9)
        accel = rng.choice((0, rng.randint(-8 * 10**9, 8 * 10**9) // ticks))
        jerk = rng.choice((0, rng.randint(-1, 1),
                           rng.randint(-16 * 10**9, 16 * 10**9) // (ticks * ticks)))
        accum = rng.choice(("clear", rng.randint(0, TWO31 - 1)))
        if check_case(ticks, rate, accel, jerk, accum, simulate=False):
            done += 1
    if done < 1000:
        fail("long-move generator produced too few in-domain cases (%d)" % done)
    # Cross-validate the loop-free oracle on medium moves where both are affordable.
    for _ in range(40):
        ticks = rng.randint(1000, 5000)
        rate = rng.randint(-10**9, 10**9)
        accel = rng.randint(-10**9, 10**9) // ticks
        jerk = rng.randint(-10**9, 10**9) // (ticks * ticks)
        if long_move_in_domain(ticks, rate, accel, jerk) != \
                firmware(ticks, rate, accel, jerk, 0)[3]:
            fail("oracle self-check: domain predicate mismatch")
        check_case(ticks, rate, accel, jerk, "clear")


def edge_inputs():
    ''' Inputs at the edge of / just outside the stated domain: compare to the reference. '''
    for args in ((0, 5, 6, 7), (0, -5, 0, 0), (0, 0, 0, 0)):
        set_ambient_precision()
        if ebb_calc.move_dist_t3(*args) != (0, 0) or \
                ebb_calc.move_dist_t3(*args, 17) != (0, 0):
            fail("zero-length move_dist_t3 %r" % (args,))
        if ebb_calc.rate_t3(*args) != ref_rate_t3(*args):
            fail("zero-length rate_t3 %r" % (args,))
    for args in ((4.0, 1000.0, 31.0, -5.0), (7, 1e6, -333.0, 12.0)):
        for accum in ("clear", 5.0, 1073741824):
            set_ambient_precision()
            if ebb_calc.move_dist_t3(*args, accum) != ref_move_dist_t3(*args, accum):
                fail("integral-float inputs move_dist_t3 %r" % (args,))
        if ebb_calc.rate_t3(*args) != ref_rate_t3(*args):
            fail("integral-float inputs rate_t3 %r" % (args,))


def main():
    rng = random.Random(20240513)
    boundary_cases()
    small_exhaustive()
    clear_rule_targets(rng)
    random_simulated(rng)
    long_moves(rng)
    edge_inputs()
    if min(CHECKS.values()) < 300:
        fail("a check family was hardly exercised: %r" % (CHECKS,))
    print("C02 demo OK:", ", ".join("%s=%d" % item for item in sorted(CHECKS.items())))
    return 0


if __name__ == "__main__":
    sys.exit(main())
