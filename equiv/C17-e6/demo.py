import os, sys; sys.path.insert(0, os.environ.get('PLOTINK_ROOT', '/tmp/wtf_C17'))
"""
Check of property C17 for plotink.ebb_calc.max_rate_t3 / rate_t3:

  For every valid T3 move the reported maximum absolute rate
    (1) never exceeds the true peak |rate| that the firmware recurrence
        reaches during ticks 1..T,
    (2) is at least |rate| at tick 1 and at tick T,
    (3) falls short of the true peak by at most |jerk|,
  and hence a move reported as <= 2^31-1 exceeds that limit by at most |jerk|.

Oracles used (all pure-integer, independent of the library):
  * tick-by-tick firmware recurrence  (rate += accel; accel += jerk)
  * exact closed form of the same recurrence, for very long moves
  * a frozen copy of the documented formulas, for an exact differential check
    over the full 32-bit domain (including degenerate tick counts)
Deterministic; no hardware; runs in a few seconds.
"""
import math
import random

from plotink import ebb_calc

LIMIT = 2147483647  # 2^31 - 1
FAILURES = []
COUNTS = {}


def fail(kind, *info):
    FAILURES.append((kind, info))
    if len(FAILURES) > 20:
        report_and_exit()


def report_and_exit():
    for kind, info in FAILURES[:20]:
        print("FAIL", kind, info)
    print("checked:", COUNTS)
    if FAILURES:
        print("RESULT: FAIL (%d problems)" % len(FAILURES))
        sys.exit(1)
    print("RESULT: OK")
    sys.exit(0)


def count(kind, n=1):
    COUNTS[kind] = COUNTS.get(kind, 0) + n


# ---------------------------------------------------------------- oracles --
def toward_zero(num, den):
    """Integer division rounding toward zero (den > 0), integers only."""
    quot = abs(num) // den
    return quot if num >= 0 else -quot


def start_rate(rate, accel, jerk):
    return rate - toward_zero(accel, 2) + toward_zero(jerk, 6)


def recurrence_rates(ticks, rate, accel, jerk):
    """Rates at ticks 1..ticks from the firmware-style integer recurrence."""
    out = []
    cur = start_rate(rate, accel, jerk)
    acc = accel
    for _ in range(ticks):
        cur += acc
        acc += jerk
        out.append(cur)
    return out


def closed_rate(tick, rate, accel, jerk):
    """Exact closed form of the recurrence at an integer tick >= 1."""
    return start_rate(rate, accel, jerk) + accel * tick + jerk * (tick * tick - tick) // 2


def closed_peak(ticks, rate, accel, jerk):
    """Exact max |rate| over ticks 1..ticks without iterating all ticks."""
    cand = {1, ticks}
    if jerk != 0:
        base = (jerk - 2 * accel) // (2 * jerk)  # floor of the parabola vertex
        for off in (-1, 0, 1, 2):
            cand.add(min(max(base + off, 1), ticks))
    return max(abs(closed_rate(t, rate, accel, jerk)) for t in cand)


# ----------------------------------------- frozen copy of documented code --
def ref_rate_t3(time, rate, accel, jerk):
    time = int(time)
    if time == 0:
        return rate + accel + jerk
    return round(int(rate) - int(accel / 2) + int(jerk / 6) +
                 (int(accel) - jerk / 2) * time + jerk * time * time / 2)


def ref_max_rate_t3(time, rate, accel, jerk):
    time = int(time)
    v_start = abs(ref_rate_t3(1, rate, accel, jerk))
    if time <= 1:
        return v_start
    v_end = abs(ref_rate_t3(time, rate, accel, jerk))
    if jerk == 0:
        return max(v_start, v_end)
    t_mid = (jerk / 2 - accel) / jerk
    if 1.5 < t_mid < (time - 1.5):
        v_mid = abs(ref_rate_t3(math.ceil(t_mid), rate, accel, jerk))
        return max(v_start, v_end, v_mid)
    return max(v_start, v_end)


# ------------------------------------------------------------- the checks --
def check_property(ticks, rate, accel, jerk, peak, first, last, tag):
    """Assert the C17 bracket for one move, given oracle values."""
    got = ebb_calc.max_rate_t3(ticks, rate, accel, jerk)
    args = (ticks, rate, accel, jerk)
    if type(got) is not int:
        fail(tag + ":type", args, type(got))
        return
    if got > peak:
        fail(tag + ":exceeds-true-peak", args, got, peak)
    if got < abs(first):
        fail(tag + ":below-first-tick", args, got, first)
    if got < abs(last):
        fail(tag + ":below-last-tick", args, got, last)
    if peak - got > abs(jerk):
        fail(tag + ":short-by-more-than-jerk", args, got, peak)
    if got <= LIMIT and peak > LIMIT + abs(jerk):
        fail(tag + ":limit-escape", args, got, peak)
    count(tag)


def check_brute(ticks, rate, accel, jerk, tag):
    rates = recurrence_rates(ticks, rate, accel, jerk)
    peak = max(abs(r) for r in rates)
    if peak != closed_peak(ticks, rate, accel, jerk):
        fail(tag + ":oracle-disagreement", (ticks, rate, accel, jerk))
    check_property(ticks, rate, accel, jerk, peak, rates[0], rates[-1], tag)
    # per-tick formula against the recurrence (anchor: rate_t3)
    probes = {1, ticks, (ticks + 1) // 2, min(2, ticks), max(ticks - 1, 1)}
    if ticks <= 16:
        probes = set(range(1, ticks + 1))
    for t in probes:
        got = ebb_calc.rate_t3(t, rate, accel, jerk)
        if got != rates[t - 1] or type(got) is not int:
            fail(tag + ":rate_t3", (t, rate, accel, jerk), got, rates[t - 1])
    count(tag + ":rate_t3", len(probes))


def floats_exact(ticks, accel, jerk):
    """Moves for which every partial term of the float formula is exact."""
    return abs(2 * accel - jerk) * ticks < 2 ** 51 and abs(jerk) * ticks * ticks < 2 ** 51


def check_closed(ticks, rate, accel, jerk, tag):
    if not floats_exact(ticks, accel, jerk):
        return
    peak = closed_peak(ticks, rate, accel, jerk)
    first = closed_rate(1, rate, accel, jerk)
    last = closed_rate(ticks, rate, accel, jerk)
    check_property(ticks, rate, accel, jerk, peak, first, last, tag)
    for t in {1, ticks, ticks // 2 + 1}:
        got = ebb_calc.rate_t3(t, rate, accel, jerk)
        if got != closed_rate(t, rate, accel, jerk):
            fail(tag + ":rate_t3", (t, rate, accel, jerk), got)


def check_differential(time, rate, accel, jerk, tag):
    exp_r = ref_rate_t3(time, rate, accel, jerk)
    got_r = ebb_calc.rate_t3(time, rate, accel, jerk)
    if got_r != exp_r or type(got_r) is not type(exp_r):
        fail(tag + ":rate_t3", (time, rate, accel, jerk), got_r, exp_r)
    exp_m = ref_max_rate_t3(time, rate, accel, jerk)
    got_m = ebb_calc.max_rate_t3(time, rate, accel, jerk)
    if got_m != exp_m or type(got_m) is not type(exp_m):
        fail(tag + ":max_rate_t3", (time, rate, accel, jerk), got_m, exp_m)
    count(tag)


def main():
    rng = random.Random(0xC17)

    # 1. exhaustive small grid: extrema at first ticks, last ticks, inside
    small_rates = (-40, -7, -1, 0, 1, 6, 33)
    for ticks in range(1, 15):
        for rate in small_rates:
            for accel in range(-9, 10):
                for jerk in range(-7, 8):
                    check_brute(ticks, rate, accel, jerk, "grid")

    # 2. vertex placed exactly on / next to every decision boundary
    for ticks in (2, 3, 4, 5, 6, 7, 10, 31, 200):
        for jerk in (-4000, -37, -6, -2, -1, 1, 2, 3, 6, 12, 50, 1001, 600998):
            near = set(range(-3, 9)) | set(range(2 * ticks - 9, 2 * ticks + 6)) | {ticks}
            for k2 in sorted(near):                   # vertex = k2 / 2
                # vertex = 0.5 - accel/jerk = k2/2  ->  accel = jerk*(1-k2)/2
                num = jerk * (1 - k2)
                accels = {num // 2, num // 2 + 1, num // 2 - 1, -(-num // 2)}
                for accel in accels:
                    for rate in (0, 5, -123456789, 2000000000):
                        check_brute(ticks, rate, accel, jerk, "boundary")

    # 3. random realistic moves, tick-by-tick oracle
    for _ in range(2500):
        ticks = rng.choice((1, 2, 3, 4, 5, rng.randint(6, 60), rng.randint(61, 2500)))
        where = rng.choice(("start", "end", "inside", "outside", "any"))
        jerk = rng.choice((0, 1, -1, rng.randint(-50, 50), rng.randint(-700000, 700000)))
        if where == "any" or jerk == 0:
            accel = rng.randint(-60000000, 60000000) // rng.choice((1, 10, 1000, 100000))
        else:
            vertex = {"start": rng.uniform(-1, 3.5),
                      "end": ticks - rng.uniform(-1, 3.5),
                      "inside": rng.uniform(1, max(ticks, 2)),
                      "outside": rng.choice((-1, 1)) * rng.uniform(1, 3) * ticks}[where]
            accel = int(round((0.5 - vertex) * jerk)) + rng.randint(-1, 1)
        rate = rng.choice((0, rng.randint(-LIMIT, LIMIT), rng.randint(-100000, 100000)))
        check_brute(ticks, rate, accel, jerk, "random")

    # 4. moves whose peak sits right at the 2^31-1 limit
    made = 0
    while made < 600:
        ticks = rng.randint(2, 400)
        jerk = rng.choice((-1, 1)) * rng.randint(1, 40000)
        vertex = rng.uniform(0, ticks + 1)
        accel = int(round((0.5 - vertex) * jerk))
        # choose the start rate so that the extremum lands near +/-(2^31-1)
        probe = closed_rate(min(max(int(round(vertex)), 1), ticks), 0, accel, jerk)
        sign = 1 if jerk < 0 else -1            # jerk<0: maximum, jerk>0: minimum
        rate = sign * LIMIT - probe + rng.randint(-2 * abs(jerk), 2 * abs(jerk))
        if abs(rate) > LIMIT:
            continue
        check_brute(ticks, rate, accel, jerk, "limit")
        made += 1

    # 5. very long moves: exact closed-form oracle
    for _ in range(4000):
        ticks = rng.choice((rng.randint(2000, 10 ** 6), rng.randint(10 ** 6, 2 ** 32 - 1)))
        jerk = rng.choice((0, 1, -1, rng.randint(-30, 30), rng.randint(-5000, 5000)))
        if jerk and rng.random() < 0.7:
            vertex = rng.choice((rng.uniform(-2, 4), ticks - rng.uniform(-2, 4),
                                 rng.uniform(0, ticks)))
            accel = int(round((0.5 - vertex) * jerk)) + rng.randint(-1, 1)
        else:
            accel = rng.randint(-2000000, 2000000) // rng.choice((1, 100, 10000))
        rate = rng.choice((0, rng.randint(-LIMIT, LIMIT)))
        check_closed(ticks, rate, accel, jerk, "long")
    if COUNTS.get("long", 0) < 500:
        fail("long:too-few-cases", COUNTS.get("long", 0))

    # 6. exact differential against the documented formulas, whole 32-bit
    #    domain plus degenerate tick counts (0, 1) and awkward magnitudes
    edge = (0, 1, -1, 2, -2, 3, 5, 6, -6, 7, -7, 11, 12, -12, 13,
            LIMIT, -LIMIT, -LIMIT - 1, LIMIT - 1, 2 ** 30, -2 ** 30 + 1)
    times = (0, 1, 2, 3, 4, 5, 17, 1000, 65535, 2 ** 31, 2 ** 32 - 1)
    for time in times:
        for rate in (0, 7, -LIMIT, LIMIT):
            for accel in edge:
                for jerk in edge:
                    check_differential(time, rate, accel, jerk, "diff-edge")
    for _ in range(30000):
        bits = rng.choice((3, 8, 16, 24, 31))
        time = rng.choice((0, 1, 2, 3, rng.randint(0, 40), rng.randint(0, 2 ** 20),
                           rng.randint(0, 2 ** 32 - 1)))
        rate = rng.randint(-2 ** 31, 2 ** 31 - 1)
        accel = rng.randint(-2 ** bits, 2 ** bits - 1)
        jerk = rng.randint(-2 ** rng.choice((2, 6, 12, 20, 31)), 2 ** rng.choice((2, 6, 12, 20, 31)) - 1)
        if rng.random() < 0.5 and jerk and time > 3:
            vertex = rng.choice((1.5, time - 1.5, rng.uniform(0, time), 2, time - 2))
            accel = int(round((0.5 - vertex) * jerk)) + rng.randint(-1, 1)
        check_differential(time, rate, accel, jerk, "diff-random")

    # 7. documented special cases
    if ebb_calc.rate_t3(0, 100, 20, 3) != 123:
        fail("rate_t3:T=0 convention")
    for time in (0, 1):
        if ebb_calc.max_rate_t3(time, 2147054151, -1171655, 3481) != 2146468903:
            fail("max_rate_t3:single tick", time)
    if ebb_calc.max_rate_t3(41, 455698567, 110694928, -5426265) != 1584524564:
        fail("max_rate_t3:published case")
    if ebb_calc.max_rate_t3(69, 1800095000, -26012345, 600999) != 1787188993:
        fail("max_rate_t3:published case 2")

    report_and_exit()


if __name__ == "__main__":
    main()
