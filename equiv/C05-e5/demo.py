import os, sys; sys.path.insert(0, os.environ.get('PLOTINK_ROOT', '/tmp/wtf_C05'))
# Demo / checker for property C05: EBB3 command/query framing and fault handling.
#
# A scripted fake serial port is attached to EBB3 / EBBMotionWrap objects and every
# request is compared with an independent reference model written from the property
# statement (what is written, how many reads are consumed, what is returned, what
# is recorded as the object's error).  Deterministic, no hardware, no network.

import itertools

import serial

from plotink import ebb3_serial, ebb3_motion

FAILS = []
CHECKS = [0]


def check(cond, *info):
    CHECKS[0] += 1
    if not cond:
        FAILS.append(info)
        if len(FAILS) <= 25:
            print("FAIL:", *info)


class FakePort:
    """Scripted serial port. script items: bytes to return, or exception to raise."""

    def __init__(self, script=(), write_exc=None):
        self.script = list(script)
        self.write_exc = write_exc
        self.writes = []
        self.reads = 0
        self.closed = False

    def write(self, data):
        self.writes.append(data)
        if self.write_exc is not None:
            raise self.write_exc
        return len(data)

    def readline(self):
        self.reads += 1
        if not self.script:
            return b''
        item = self.script.pop(0)
        if isinstance(item, BaseException):
            raise item
        return item

    def reset_input_buffer(self):
        pass

    def close(self):
        self.closed = True


QUIET = ("rb", "r", "bl")
MAX_READS = 26   # the first read plus up to 25 further reads after empty ones


def ref_name(text):
    """One- or two-letter request name (reference)."""
    if len(text) == 1:
        return text
    if text[1] == ',':
        return text[0]
    return text[:2]


def ref_exchange(script, write_exc):
    """Reference: returns (reply, reads_consumed, io_fault)."""
    if write_exc is not None:
        return '', 0, True
    reads = 0
    while reads < MAX_READS:
        item = script[reads] if reads < len(script) else b''
        reads += 1
        if isinstance(item, BaseException):
            return '', reads, True
        line = item.decode('ascii').strip()
        if line:
            return line, reads, False
    return '', reads, False


def ref_request(kind, raw, script, write_exc=None):
    """
    Reference model of one command ('c') or query ('q') on a connected, error-free
    object.  Returns dict(sent, reads, ret, err).
    """
    text = raw.strip()
    name = ref_name(text)
    reply, reads, fault = ref_exchange(script, write_exc)
    err = None
    if kind == 'c':
        if fault:
            if name.lower() not in QUIET:
                err = 'USB communication error after command: ' + text
        elif not reply.startswith(name):
            if reply:
                err = '\nUnexpected response from EBB.    Command: ' + text + \
                      '\n    Response: ' + reply
            else:
                err = 'EBB Serial Timeout after command: ' + text
        elif 'Err:' in reply:
            err = 'Error reported by EBB.\n    Command: ' + text + '\n    Response: ' + reply
        ret = err is None
    else:
        ret = None
        if fault and name.lower() not in QUIET:
            err = 'USB communication error after query: ' + text
        elif reply == '':
            err = 'EBB Serial Timeout after query: ' + text
        elif 'Err:' in reply or not reply.startswith(name):
            err = '\nUnexpected response from EBB.    Query: ' + text + \
                  '\n    Response: ' + reply
        else:
            rest = reply[len(name):]
            if rest.startswith(','):
                rest = rest[1:]
            ret = rest
    return dict(sent=text.encode('ascii') + b'\r', reads=reads, ret=ret, err=err)


def new_ebb(port, cls=ebb3_serial.EBB3):
    ebb = cls()
    ebb.port = port
    ebb.port_name = 'FAKE'
    return ebb


def run_one(kind, raw, script, write_exc=None, cls=ebb3_serial.EBB3):
    port = FakePort(script, write_exc)
    ebb = new_ebb(port, cls)
    label = (kind, raw, [s if isinstance(s, bytes) else repr(s) for s in script][:4],
             len(script), repr(write_exc))
    try:
        got = ebb.command(raw) if kind == 'c' else ebb.query(raw)
    except Exception as exc:  # pylint: disable=broad-except
        check(False, "raised", label, repr(exc))
        return
    exp = ref_request(kind, raw, script, write_exc)
    check(port.writes == [exp['sent']], "writes", label, port.writes, exp['sent'])
    check(port.reads == exp['reads'], "reads", label, port.reads, exp['reads'])
    check(port.script == list(script)[exp['reads']:], "leftover", label)
    check(got == exp['ret'] and type(got) is type(exp['ret']), "return", label, got, exp['ret'])
    check(ebb.err == exp['err'], "err", label, ebb.err, exp['err'])
    check(ebb.port is port, "port kept", label)
    # A later request on an object in error does nothing and reports failure.
    if ebb.err is not None:
        before_w, before_r = list(port.writes), port.reads
        again = ebb.command(raw) if kind == 'c' else ebb.query(raw)
        check(again is (False if kind == 'c' else None), "after-error return", label, again)
        check(port.writes == before_w and port.reads == before_r, "after-error io", label)
        check(ebb.err == exp['err'], "first error kept", label)


def excs():
    return [serial.SerialException('boom'),
            serial.SerialTimeoutException('wt'),
            serial.serialutil.PortNotOpenError(),
            OSError(5, 'io'),
            IOError('io2'),
            RuntimeError('rt')]


BASES = ["R", "r", "V", "v", "S,1,2", "r,5", "I,", "QG", "SM,100,-20,30", "QE", "QS",
         "RB", "rb", "BL", "bl", "Bl,1", "QC", "T3,1,0,0,0,0,0,0,3", "HM,1000",
         "PI,B,2", "QL,7", "ST,Bob the plotter", "EM,0,0", "XX"]
DECOR = ["{}", " {}", "{} ", "\t{} \n", "  {}\r\n", "\r{}\r"]


def reply_scripts(name):
    """Reply streams for a request whose name is `name`."""
    n = name.encode('ascii')
    tail = [b'ZZ,tail\r\n']   # must never be consumed on a first-line answer
    good = [n + b'\r\n', n + b',12,34\r\n', n + b',\r\n', n + b'3E\r\n', n + b',,5\r\n',
            b'  ' + n + b',7  \r\n', n + b',0\n', n]
    bad = [b'!8 Err: Unknown command\r\n', n + b',Err: bad parameter\r\n',
           n + b'Err:\r\n', b'Err: ' + n + b'\r\n',
           b'ZZ,1\r\n', b'OK\r\n', b'x' + n + b',1\r\n', n.swapcase() + b',1\r\n',
           n[:1] + b'\r\n', b',' + n + b'\r\n', n[::-1] + b',9\r\n']
    out = []
    for line in good + bad:
        out.append([line] + tail)
    empties = [b'', b'\r\n', b'  \n', b'\r']
    for k in (1, 2, 3, 24, 25, 26, 27, 40):
        pad = [empties[i % len(empties)] for i in range(k)]
        for line in (good[1], good[0], bad[0], bad[1], bad[4]):
            out.append(pad + [line] + tail)
    out.append([])                       # total silence
    out.append([b''] * 26)
    out.append([b''] * 60)
    for exc_pos in (0, 1, 2, 24, 25, 26):
        for exc in excs():
            out.append([b''] * exc_pos + [exc, good[1]] + tail)
    return out


def part_single_requests():
    for base, deco, kind in itertools.product(BASES, DECOR, 'cq'):
        raw = deco.format(base)
        name = ref_name(raw.strip())
        scripts = reply_scripts(name)
        if deco != "{}":
            scripts = scripts[::3]       # thinner sample for decorated variants
        for script in scripts:
            run_one(kind, raw, script)
        for exc in excs():
            run_one(kind, raw, [name.encode() + b',1\r\n'], write_exc=exc)
    # Same through the motion subclass
    for base in ("QG", "R", "S,1", "SM,1,2,3"):
        for script in reply_scripts(ref_name(base))[::5]:
            run_one('c', base, script, cls=ebb3_motion.EBBMotionWrap)
            run_one('q', base, script, cls=ebb3_motion.EBBMotionWrap)


def part_not_ready():
    """Disconnected object, object already in error, None request: nothing is sent."""
    for kind in 'cq':
        fail = False if kind == 'c' else None
        ebb = ebb3_serial.EBB3()
        got = ebb.command('QG') if kind == 'c' else ebb.query('QG')
        check(got is fail and ebb.err is None, "no port", kind, got)
        port = FakePort([b'QG,1\r\n'])
        ebb = new_ebb(port)
        ebb.err = 'earlier'
        got = ebb.command('QG') if kind == 'c' else ebb.query('QG')
        check(got is fail and ebb.err == 'earlier' and not port.writes and port.reads == 0,
              "in error", kind, got)
        ebb = new_ebb(port)
        got = ebb.command(None) if kind == 'c' else ebb.query(None)
        check(got is fail and ebb.err is None and not port.writes and port.reads == 0,
              "None request", kind, got)


class Device:
    """
    A conforming EBB3 device in "future" syntax: every request line gets exactly one
    reply line starting with the request name; `lag` empty reads precede every reply.
    """

    def __init__(self, lag=0):
        self.lag = lag
        self.pending = []
        self.writes = []
        self.reads = 0
        self.ram = {}
        self.steps = (1234, -567)
        self.qe = (16, 16)
        self.qc = (421, 297)
        self.pins = {0: 1, 1: 0, 2: 1, 3: 0}
        self.nick = 'Lefty'
        self.status = 0x3E

    def write(self, data):
        self.writes.append(data)
        text = data.decode('ascii').rstrip('\r')
        name = ref_name(text)
        args = text[len(name):].lstrip(',').split(',')
        reply = name
        if name == 'QL':
            reply = 'QL,%d' % self.ram.get(int(args[0]), 0)
        elif name == 'SL':
            self.ram[int(args[1])] = int(args[0])
        elif name == 'QS':
            reply = 'QS,%d,%d' % self.steps
        elif name == 'QE':
            reply = 'QE,%d,%d' % self.qe
        elif name == 'QC':
            reply = 'QC,%04d,%04d' % self.qc
        elif name == 'PI':
            reply = 'PI,%d' % self.pins[int(args[1])]
        elif name == 'QT':
            reply = 'QT,' + self.nick
        elif name == 'ST':
            self.nick = args[0]
        elif name == 'QG':
            reply = 'QG,%02X' % self.status
        self.pending.extend([b''] * self.lag + [(reply + '\r\n').encode('ascii')])
        return len(data)

    def readline(self):
        self.reads += 1
        if self.pending:
            return self.pending.pop(0)
        return b''

    def reset_input_buffer(self):
        self.pending = []

    def close(self):
        pass


def part_conforming_device():
    """Back-to-back requests: each reply is attributed to the request that caused it."""
    for lag in (0, 1, 7, 25):
        dev = Device(lag)
        ebb = new_ebb(dev, ebb3_motion.EBBMotionWrap)
        sent = []

        def expect(texts, _sent=sent):
            _sent.extend(t.encode('ascii') + b'\r' for t in texts)

        check(ebb.query_steps() == (1234, -567), "steps", lag); expect(['QS'])
        check(ebb.query_current() == (421, 297), "current", lag); expect(['QC'])
        check(ebb.query_voltage() is True, "voltage default", lag); expect(['QC'])
        check(ebb.query_voltage(297) is True, "voltage eq", lag); expect(['QC'])
        check(ebb.query_voltage(298) is False, "voltage below", lag); expect(['QC'])
        check(ebb.query_voltage(0) is True, "voltage zero thr", lag); expect(['QC'])
        check(ebb.motors_query_enabled() == (1, 1), "QE", lag); expect(['QE'])
        for raw, dec in ((16, 1), (8, 2), (4, 3), (2, 4), (1, 5), (0, 0)):
            dev.qe = (raw, 0)
            check(ebb.motors_query_enabled() == (dec, 0), "QE map", lag, raw); expect(['QE'])
            dev.qe = (0, raw)
            check(ebb.motors_query_enabled() == (0, dec), "QE map2", lag, raw); expect(['QE'])
        check(ebb.dio_b_read(0) is True, "pin0", lag); expect(['PI,B,0'])
        check(ebb.dio_b_read(1) is False, "pin1", lag); expect(['PI,B,1'])
        check(ebb.var_write(200, 3) is True, "var_write", lag); expect(['SL,200,3'])
        check(ebb.var_read(3) == 200, "var_read", lag); expect(['QL,3'])
        check(ebb.var_read(4) == 0, "var_read0", lag); expect(['QL,4'])
        for val in (0, 1, -1, 2147483647, -2147483648, 0x01020304):
            check(ebb.var_write_int32(val, 8) is True, "w32", lag, val)
            bts = val.to_bytes(4, 'big', signed=True)
            expect(['SL,%d,%d' % (b, 8 + i) for i, b in enumerate(bts)])
            check(ebb.var_read_int32(8) == val, "r32", lag, val)
            expect(['QL,%d' % (8 + i) for i in range(4)])
        if lag == 0:    # the status byte query does not wait through empty reads
            check(ebb.query_statusbyte() == 0x3E, "status", lag); expect(['QG'])
        ebb.query_nickname()
        check(ebb.name == 'Lefty', "nick", lag); expect(['QT'])
        check(ebb.write_nickname('  Righty ') is True and ebb.name == 'Righty', "wnick", lag)
        expect(['ST,Righty'])
        ebb.query_nickname()
        check(ebb.name == 'Righty', "nick2", lag); expect(['QT'])
        check(ebb.command(' SM,10,1,1 ') is True, "cmd", lag); expect(['SM,10,1,1'])
        check(ebb.query(' QC\n') == '0421,0297', "qry", lag); expect(['QC'])
        check(ebb.query('V') == '', "one-letter", lag); expect(['V'])
        check(ebb.query('V,3') == '', "one-letter args", lag); expect(['V,3'])
        check(ebb.command('R') is True, "R", lag); expect(['R'])

        check(ebb.xy_move(3, -4, 25) is None, "xy"); expect(['SM,25,-4,3'])
        ebb.abs_move(1000); expect(['HM,1000'])
        ebb.abs_move(1000, 5, 6); expect(['HM,1000,5,6'])
        ebb.abs_move(1000, 5); expect(['HM,1000'])
        ebb.timed_pause(2000); expect(['SM,750,0,0', 'SM,750,0,0', 'SM,500,0,0'])
        ebb.timed_pause(750); expect(['SM,750,0,0'])
        ebb.timed_pause(0.5); expect(['SM,1,0,0'])
        ebb.timed_pause(0)
        ebb.timed_pause(-3)
        ebb.motors_disable(); expect(['EM,0,0'])
        ebb.clear_steps(); expect(['CS'])
        ebb.clear_accumulators(); expect(['T3,1,0,0,0,0,0,0,3'])
        ebb.pen_lower(100); expect(['SP,0,100'])
        ebb.pen_lower(100, 3); expect(['SP,0,100,3'])
        ebb.pen_raise(90); expect(['SP,1,90'])
        ebb.pen_raise(90, 0); expect(['SP,1,90,0'])
        ebb.dio_b_config(2, 1, 0); expect(['PO,B,2,1', 'PD,B,2,0'])
        ebb.dio_b_set(2, 0); expect(['PO,B,2,0'])
        ebb.pen_pos_down(12000); expect(['SC,5,12000'])
        ebb.pen_pos_up(20000); expect(['SC,4,20000'])
        ebb.pen_rate_down(300); expect(['SC,12,300'])
        ebb.pen_rate_up(400); expect(['SC,11,400'])
        ebb.servo_timeout(5000); expect(['SR,5000'])
        ebb.servo_timeout(5000, 1); expect(['SR,5000,1'])
        ebb.motors_enable(1, 1); expect(['EM,1,1'])
        ebb.motors_enable(2, 0); expect(['CU,50,0', 'EM,2,0'])
        dev.qe = (0, 0)
        ebb.motors_enable(0, 3); expect(['CU,50,0', 'QE', 'EM,3,3', 'EM,0,3'])
        dev.qe = (4, 4)
        ebb.motors_enable(0, 3); expect(['CU,50,0', 'QE', 'EM,0,3'])
        ebb.motors_enable(9, -2); expect(['CU,50,0', 'EM,5,0'])

        check(ebb.err is None, "device run error-free", lag, ebb.err)
        check(dev.writes == sent, "device run writes", lag,
              [(a, b) for a, b in zip(dev.writes, sent) if a != b][:3], len(dev.writes), len(sent))
        check(dev.reads == len(sent) * (lag + 1), "device run reads", lag, dev.reads,
              len(sent) * (lag + 1))
        check(not dev.pending, "nothing left unread", lag)


def public_calls():
    """(label, first request text, kind, call, failure value) for public request methods."""
    return [
        ('xy_move', 'SM,25,-4,3', 'c', lambda e: e.xy_move(3, -4, 25), None),
        ('abs_move', 'HM,1000', 'c', lambda e: e.abs_move(1000), None),
        ('abs_move3', 'HM,1000,5,6', 'c', lambda e: e.abs_move(1000, 5, 6), None),
        ('timed_pause', 'SM,750,0,0', 'c', lambda e: e.timed_pause(2000), None),
        ('motors_disable', 'EM,0,0', 'c', lambda e: e.motors_disable(), None),
        ('motors_enable', 'EM,1,1', 'c', lambda e: e.motors_enable(1, 1), None),
        ('motors_enable one', 'CU,50,0', 'c', lambda e: e.motors_enable(0, 2), None),
        ('clear_steps', 'CS', 'c', lambda e: e.clear_steps(), None),
        ('clear_accumulators', 'T3,1,0,0,0,0,0,0,3', 'c', lambda e: e.clear_accumulators(), None),
        ('pen_lower', 'SP,0,100', 'c', lambda e: e.pen_lower(100), None),
        ('pen_raise', 'SP,1,90,2', 'c', lambda e: e.pen_raise(90, 2), None),
        ('dio_b_config', 'PO,B,2,1', 'c', lambda e: e.dio_b_config(2, 1, 0), None),
        ('dio_b_set', 'PO,B,2,0', 'c', lambda e: e.dio_b_set(2, 0), None),
        ('pen_pos_down', 'SC,5,12000', 'c', lambda e: e.pen_pos_down(12000), None),
        ('pen_pos_up', 'SC,4,20000', 'c', lambda e: e.pen_pos_up(20000), None),
        ('pen_rate_down', 'SC,12,300', 'c', lambda e: e.pen_rate_down(300), None),
        ('pen_rate_up', 'SC,11,400', 'c', lambda e: e.pen_rate_up(400), None),
        ('servo_timeout', 'SR,5000', 'c', lambda e: e.servo_timeout(5000), None),
        ('var_write', 'SL,200,3', 'c', lambda e: e.var_write(200, 3), False),
        ('var_write_int32', 'SL,1,8', 'c', lambda e: e.var_write_int32(0x01020304, 8), False),
        ('write_nickname', 'ST,Bob', 'c', lambda e: e.write_nickname(' Bob '), False),
        ('dio_b_read', 'PI,B,1', 'q', lambda e: e.dio_b_read(1), None),
        ('query_voltage', 'QC', 'q', lambda e: e.query_voltage(), None),
        ('query_voltage thr', 'QC', 'q', lambda e: e.query_voltage(100), None),
        ('query_current', 'QC', 'q', lambda e: e.query_current(), (None, None)),
        ('motors_query_enabled', 'QE', 'q', lambda e: e.motors_query_enabled(), None),
        ('query_steps', 'QS', 'q', lambda e: e.query_steps(), None),
        ('var_read', 'QL,3', 'q', lambda e: e.var_read(3), None),
        ('var_read_int32', 'QL,8', 'q', lambda e: e.var_read_int32(8), None),
        ('query_nickname', 'QT', 'q', lambda e: e.query_nickname(), None),
        ('command', 'SM,1,2,3', 'c', lambda e: e.command(' SM,1,2,3 '), False),
        ('query', 'QG', 'q', lambda e: e.query('\tQG\r\n'), None),
        ('query 1', 'V', 'q', lambda e: e.query('V'), None),
        ('command 1', 'S,4', 'c', lambda e: e.command('S,4'), False),
    ]


def fault_scripts(name):
    n = name.encode('ascii')
    scripts = [[],                                     # timeout
               [b''] * 26 + [n + b',1,1\r\n'],         # answer too late
               [b'!8 Err: Unknown command\r\n'],        # device error
               [n + b',Err: parameter out of range\r\n'],
               [b'ZZ,1,1\r\n'],                         # wrong name
               [b'', b'', b'OK\r\n']]
    for pos in (0, 1, 25):
        for exc in excs():
            scripts.append([b''] * pos + [exc])
    return scripts


def part_public_methods_faults():
    for label, text, kind, call, failure in public_calls():
        name = ref_name(text)
        cases = [(s, None) for s in fault_scripts(name)] + [([], e) for e in excs()]
        for script, wexc in cases:
            port = FakePort(script, wexc)
            ebb = new_ebb(port, ebb3_motion.EBBMotionWrap)
            tag = (label, [s if isinstance(s, bytes) else repr(s) for s in script][:3],
                   len(script), repr(wexc))
            try:
                got = call(ebb)
            except Exception as exc:  # pylint: disable=broad-except
                check(False, "public method raised", tag, repr(exc))
                continue
            exp = ref_request(kind, text, script, wexc)
            check(exp['err'] is not None, "model sanity", tag)
            check(ebb.err == exp['err'], "public err", tag, ebb.err, exp['err'])
            check(got == failure and type(got) is type(failure), "public failure value",
                  tag, got, failure)
            check(port.writes == [exp['sent']], "public writes once", tag, port.writes)
            check(port.reads == exp['reads'], "public reads", tag, port.reads, exp['reads'])


def part_statusbyte_and_reboot():
    def sb(script, wexc=None):
        port = FakePort(script, wexc)
        ebb = new_ebb(port)
        got = ebb.query_statusbyte()
        return got, ebb.err, port

    got, err, port = sb([b'QG,3E\r\n', b'QG,FF\r\n'])
    check(got == 0x3E and err is None and port.writes == [b'QG\r'] and port.reads == 1, "sb ok")
    got, err, port = sb([b'QG,00\r\n'])
    check(got == 0 and err is None, "sb zero")
    got, err, port = sb([])
    check(got is None and err == 'EBB Serial Timeout while reading status byte.'
          and port.reads == 1 and port.writes == [b'QG\r'], "sb timeout", got, err)
    got, err, port = sb([b'QS,1,2\r\n'])
    check(got is None and err == '\nUnexpected response from EBB.    Response to QG query: QS,1,2',
          "sb wrong", got, err)
    got, err, port = sb([b'QG,Err: x\r\n'])
    check(got is None and err == 'Error reported by EBB.\n    Query: QG\n    Response: QG,Err: x',
          "sb err", got, err)
    got, err, port = sb([b'!8 Err: x\r\n'])
    check(got is None and err == '\nUnexpected response from EBB.    Response to QG query: !8 Err: x',
          "sb err2", got, err)
    got, err, port = sb([b'QG,zz\r\n'])
    check(got is None and err is None, "sb nonhex", got, err)
    for exc in excs():
        got, err, port = sb([exc])
        check(got is None and err == 'USB communication error after status byte query',
              "sb exc read", repr(exc), got, err)
        got, err, port = sb([b'QG,3E\r\n'], exc)
        check(got is None and err == 'USB communication error after status byte query'
              and port.reads == 0, "sb exc write", repr(exc), got, err)

    for meth, text in (('reboot', b'RB\r'), ('bootload', b'BL\r')):
        port = FakePort([])
        ebb = new_ebb(port)
        check(getattr(ebb, meth)() is True and port.writes == [text] and port.reads == 0
              and ebb.port is None and port.closed and ebb.err is None, meth)
        port = FakePort([], serial.SerialException('gone'))
        ebb = new_ebb(port)
        check(getattr(ebb, meth)() is False and ebb.err is None, meth + " exc")

    # R / RB / BL sent through command(): I/O exceptions are tolerated, replies still judged.
    for text in ('R', 'RB', 'BL', 'r', 'bl'):
        for exc in excs():
            ebb = new_ebb(FakePort([exc]))
            check(ebb.command(text) is True and ebb.err is None, "quiet cmd", text, repr(exc))
            ebb = new_ebb(FakePort([exc]))
            check(ebb.query(text) is None
                  and ebb.err == 'EBB Serial Timeout after query: ' + text,
                  "quiet qry", text, repr(exc), ebb.err)


def part_good_parsing():
    """Callers that consume query results, on well-formed replies."""
    def mk(script):
        port = FakePort(script)
        return new_ebb(port, ebb3_motion.EBBMotionWrap), port

    ebb, port = mk([b'', b'QC,0394,0300\r\n'])
    check(ebb.query_voltage() is True and port.reads == 2, "qv")
    ebb, port = mk([b'QC,0394,0249\r\n'])
    check(ebb.query_voltage() is False, "qv below default")
    ebb, port = mk([b'QC,0394,0250\r\n'])
    check(ebb.query_voltage() is True, "qv at default")
    ebb, port = mk([b'QC,0394,0250\r\n'])
    check(ebb.query_voltage(250.5) is False, "qv float thr")
    ebb, port = mk([b'QC,0394\r\n'])
    check(ebb.query_voltage() is None and ebb.err is None, "qv short")
    ebb, port = mk([b'QC,0394\r\n'])
    check(ebb.query_current() == (None, None) and ebb.err is None, "qc short")
    ebb, port = mk([b'QC\r\n'])
    check(ebb.query_current() == (None, None) and ebb.err is None, "qc bare")
    ebb, port = mk([b'QC,0394,0300\r\n'])
    check(ebb.query_current() == (394, 300), "qc")
    ebb, port = mk([b'QS,-5,+17\r\n'])
    check(ebb.query_steps() == (-5, 17), "qs")
    ebb, port = mk([b'QS,1,2,3\r\n'])
    check(ebb.query_steps() == (1, 2), "qs extra")
    ebb, port = mk([b'QE,8,0\r\n'])
    check(ebb.motors_query_enabled() == (2, 0), "qe")
    ebb, port = mk([b'PI,1\r\n'])
    check(ebb.dio_b_read(5) is True and port.writes == [b'PI,B,5\r'], "pi1")
    ebb, port = mk([b'PI,0\r\n'])
    check(ebb.dio_b_read(5) is False, "pi0")
    ebb, port = mk([b'PI,128\r\n'])
    check(ebb.dio_b_read(7) is True, "pi128")
    ebb, port = mk([b'QL,255\r\n'])
    got = ebb.var_read(31)
    check(got == 255 and type(got) is int and port.writes == [b'QL,31\r'], "ql")
    ebb, port = mk([b'QL,1\r\n', b'QL,2\r\n', b'QL,3\r\n', b'QL,4\r\n'])
    check(ebb.var_read_int32(0) == 0x01020304
          and port.writes == [b'QL,0\r', b'QL,1\r', b'QL,2\r', b'QL,3\r'], "ql32")
    ebb, port = mk([b'QL,255\r\n'] * 4)
    check(ebb.var_read_int32(0) == -1, "ql32 neg")
    # second of four reads fails: None, first error kept, no further traffic
    ebb, port = mk([b'QL,1\r\n', b'!5 Err: x\r\n', b'QL,3\r\n', b'QL,4\r\n'])
    check(ebb.var_read_int32(0) is None and port.writes == [b'QL,0\r', b'QL,1\r']
          and ebb.err == '\nUnexpected response from EBB.    Query: QL,1\n    Response: !5 Err: x',
          "ql32 fault", ebb.err)
    ebb, port = mk([b'SL\r\n', b'SL,Err: no\r\n', b'SL\r\n', b'SL\r\n'])
    check(ebb.var_write_int32(7, 0) is False and port.writes == [b'SL,0,0\r', b'SL,0,1\r']
          and ebb.err == 'Error reported by EBB.\n    Command: SL,0,1\n    Response: SL,Err: no',
          "sl32 fault", ebb.err)
    ebb, port = mk([b'QT,\r\n'])
    ebb.name = 'old'
    ebb.query_nickname()
    check(ebb.name == '', "qt empty", ebb.name)
    ebb, port = mk([b'ST\r\n'])
    check(ebb.write_nickname('   ') is True and ebb.name == '' and port.writes == [b'ST,\r'],
          "st blank")
    ebb, port = mk([b'ST\r\n'])
    check(ebb.write_nickname(None) is False and not port.writes, "st none")
    # motors_enable with a failing QE in the middle: stops, no EM sent
    ebb, port = mk([b'CU\r\n', b'ZZ\r\n', b'EM\r\n'])
    check(ebb.motors_enable(0, 2) is None and port.writes == [b'CU,50,0\r', b'QE\r']
          and ebb.err == '\nUnexpected response from EBB.    Query: QE\n    Response: ZZ',
          "em fault", port.writes, ebb.err)


def main():
    part_single_requests()
    part_not_ready()
    part_conforming_device()
    part_public_methods_faults()
    part_statusbyte_and_reboot()
    part_good_parsing()
    print("checks: %d, failures: %d" % (CHECKS[0], len(FAILS)))
    return 1 if FAILS else 0


if __name__ == '__main__':
    sys.exit(main())
