import os, sys; sys.path.insert(0, os.environ.get('PLOTINK_ROOT', '/tmp/wtf_C16'))
# Demo / checker for property C16: board-state round trips through the EBB3
# layer (variables, nickname, motor enable) are faithful.
#
# A fake EiBotBoard (serial-port look-alike) implements the documented SL/QL,
# ST/QT, EM/QE and CU,50 commands in "future syntax". The library is driven
# against it and compared with an independent oracle: both the resulting board
# state / return values AND the exact command traffic are checked, including
# guard, timeout, error-reply and USB-exception paths.

import itertools
import random

import serial  # pyserial; used only for the exception type

from plotink import ebb3_serial, ebb3_motion

EM_TO_QE = {0: 0, 1: 16, 2: 8, 3: 4, 4: 2, 5: 1}   # EM resolution -> QE microstep report

CHECKS = 0


def check(cond, msg):
    global CHECKS
    CHECKS += 1
    if not cond:
        print("FAIL:", msg)
        sys.exit(1)


class FakeBoard:
    """Serial-port stand-in for an EBB (firmware 3.x, future syntax mode)."""

    def __init__(self, qt_pad_left='', qt_pad_right=''):
        self.vars = [0] * 32
        self.nickname = ''
        self.en1 = False
        self.en2 = False
        self.mode = 1            # global microstep mode, EM numbering 1..5
        self.cu50 = 1            # 1: EM always drives both motors (legacy); 0: single motor allowed
        self.log = []            # every command line received (without CR)
        self.pending = []        # lines waiting to be read
        self.readlines = 0
        self.fault_at = None     # index (in self.log) of the command that gets a fault
        self.fault_kind = None   # 'timeout' | 'err' | 'garbage' | 'exc'
        self.closed = False
        self.qt_pad_left = qt_pad_left
        self.qt_pad_right = qt_pad_right

    # --- serial port API used by the library ---
    def write(self, data):
        check(isinstance(data, bytes), "port.write must get bytes")
        text = data.decode('ascii')
        check(text.endswith('\r') and text.count('\r') == 1, f"bad line termination {text!r}")
        line = text[:-1]
        index = len(self.log)
        self.log.append(line)
        if self.fault_at is not None and index == self.fault_at:
            if self.fault_kind == 'exc':
                raise serial.SerialException("fake unplugged")
            if self.fault_kind == 'timeout':
                return len(data)
            if self.fault_kind == 'err':
                self.pending.append('!8 Err: fake parameter error')
                return len(data)
            if self.fault_kind == 'garbage':
                self.pending.append('zz,unexpected')
                return len(data)
        self.pending.append(self.execute(line))
        return len(data)

    def readline(self):
        self.readlines += 1
        if self.pending:
            return (self.pending.pop(0) + '\r\n').encode('ascii')
        return b''

    def reset_input_buffer(self):
        self.pending = []

    def close(self):
        self.closed = True

    # --- board behaviour ---
    def execute(self, line):
        parts = line.split(',')
        name = parts[0]
        if name == 'SL':
            value, index = int(parts[1]), int(parts[2])
            if len(parts) != 3 or not 0 <= value <= 255 or not 0 <= index <= 31:
                return '!8 Err: SL parameter out of range'
            self.vars[index] = value
            return 'SL'
        if name == 'QL':
            index = int(parts[1])
            if len(parts) != 2 or not 0 <= index <= 31:
                return '!8 Err: QL parameter out of range'
            return f'QL,{self.vars[index]}'
        if name == 'ST':
            self.nickname = line[3:][:16]
            return 'ST'
        if name == 'QT':
            return 'QT,' + self.qt_pad_left + self.nickname + self.qt_pad_right
        if name == 'CU':
            if parts[1] == '50':
                self.cu50 = int(parts[2])
            return 'CU'
        if name == 'EM':
            e_1, e_2 = int(parts[1]), int(parts[2])
            if not 0 <= e_1 <= 5:
                return '!8 Err: EM parameter out of range'
            if e_1 != 0:
                self.mode = e_1
            self.en1 = e_1 != 0
            self.en2 = e_2 != 0
            if self.cu50 != 0 and (self.en1 or self.en2):
                self.en1 = self.en2 = True      # single-motor operation not permitted
            return 'EM'
        if name == 'QE':
            rep = EM_TO_QE[self.mode]
            return f'QE,{rep if self.en1 else 0},{rep if self.en2 else 0}'
        return '!8 Err: unknown command'


def attach(board, cls=ebb3_motion.EBBMotionWrap):
    ebb = cls()
    ebb.port = board
    ebb.port_name = 'FAKE'
    return ebb


# ---------------------------------------------------------------- oracles

def oracle_bytes(value):
    """Big-endian two's-complement bytes, computed arithmetically (independent)."""
    unsigned = value + (1 << 32) if value < 0 else value
    return [(unsigned // (256 ** k)) % 256 for k in (3, 2, 1, 0)]


def clamp(res):
    res = int(res)
    if res < 0:
        return 0
    if res > 5:
        return 5
    return res


def oracle_motor_trace(r_1, r_2, en1, en2, mode):
    """Documented command sequence for motors_enable from a given prior state."""
    c_1, c_2 = clamp(r_1), clamp(r_2)
    trace = []
    if (c_1 == 0) != (c_2 == 0):
        trace.append('CU,50,0')
    if c_1 == 0 and c_2 != 0:
        trace.append('QE')
        current = mode if (en1 or en2) else 0
        if current != c_2:
            trace.append(f'EM,{c_2},{c_2}')
    trace.append(f'EM,{c_1},{c_2}')
    return trace


# ---------------------------------------------------------------- int32 / variable slots

def interesting_int32():
    vals = {0, 1, -1, 2, -2, 127, 128, 255, 256, -128, -129, -255, -256, -257,
            0x7FFFFFFF, -0x80000000, 0x7FFFFFFE, -0x7FFFFFFF, 0x01020304, -0x01020304,
            0x00FF00FF, -0x00FF00FF, 0x7F000000, -0x7F000000, 0x00010000, 0x0000FFFF,
            -0x00010000, -0x0000FFFF, 16909060, 305419896, -305419896}
    for shift in range(0, 31):
        for delta in (-1, 0, 1):
            for sign in (1, -1):
                val = sign * ((1 << shift) + delta)
                if -0x80000000 <= val <= 0x7FFFFFFF:
                    vals.add(val)
    rng = random.Random(1601)
    for _ in range(250):
        vals.add(rng.randint(-0x80000000, 0x7FFFFFFF))
    return sorted(vals)


def test_int32_roundtrip():
    values = interesting_int32()
    rng = random.Random(1602)
    boundary = [0, 1, -1, 0x7FFFFFFF, -0x80000000, 0x01020304, -0x01020304, 255, -256]
    for value in values:
        slots = range(0, 29) if value in boundary else sorted(rng.sample(range(0, 29), 4) + [0, 28])
        for slot in slots:
            board = FakeBoard()
            filler = [rng.randrange(256) for _ in range(32)]
            board.vars = list(filler)
            ebb = attach(board)
            result = ebb.var_write_int32(value, slot)
            check(result is True, f"var_write_int32({value},{slot}) returned {result!r}")
            expect_bytes = oracle_bytes(value)
            check(all(0 <= b <= 255 for b in board.vars), "byte out of range on board")
            check(board.vars[slot:slot + 4] == expect_bytes,
                  f"slots wrong for {value}@{slot}: {board.vars[slot:slot+4]} != {expect_bytes}")
            check(board.vars[:slot] == filler[:slot] and board.vars[slot + 4:] == filler[slot + 4:],
                  f"other slots disturbed for {value}@{slot}")
            check(board.log == [f'SL,{b},{slot + k}' for k, b in enumerate(expect_bytes)],
                  f"write traffic wrong for {value}@{slot}: {board.log}")
            del board.log[:]
            back = ebb.var_read_int32(slot)
            check(back == value and type(back) is int, f"read back {back!r} != {value} @ {slot}")
            check(board.log == [f'QL,{slot + k}' for k in range(4)],
                  f"read traffic wrong @ {slot}: {board.log}")
            check(ebb.err is None, "unexpected error recorded")
            # A fresh object on the same board sees the same thing
            check(attach(board, ebb3_serial.EBB3).var_read_int32(slot) == value, "fresh reader differs")


def test_single_slot():
    board = FakeBoard()
    ebb = attach(board, ebb3_serial.EBB3)
    for index in range(32):
        for value in (0, 1, 127, 128, 254, 255, (index * 37) % 256):
            del board.log[:]
            res = ebb.var_write(value, index)
            check(res is True, f"var_write({value},{index}) -> {res!r}")
            check(board.vars[index] == value, "single slot store")
            got = ebb.var_read(index)
            check(got == value and type(got) is int, f"var_read({index}) -> {got!r}")
            check(board.log == [f'SL,{value},{index}', f'QL,{index}'], f"traffic {board.log}")
    # Out of range value: board reports an error; write fails; later ops refuse
    del board.log[:]
    res = ebb.var_write(256, 3)
    check(res is False and ebb.err is not None and 'SL,256,3' in ebb.err, "err reply on SL")
    check(ebb.var_read(3) is None and ebb.var_write(1, 1) is False, "sticky error")
    check(ebb.var_write_int32(5, 0) is False and ebb.var_read_int32(0) is False, "sticky error int32")
    check(board.log == ['SL,256,3'], f"traffic after error: {board.log}")


def test_int32_sequences():
    rng = random.Random(1603)
    for _ in range(25):
        board = FakeBoard()
        ebb = attach(board)
        shadow = [0] * 32
        for _step in range(60):
            slot = rng.randrange(0, 29)
            if rng.random() < 0.6:
                value = rng.choice([rng.randint(-0x80000000, 0x7FFFFFFF),
                                    rng.randint(-300, 300), 0x7FFFFFFF, -0x80000000])
                check(ebb.var_write_int32(value, slot) is True, "seq write")
                shadow[slot:slot + 4] = oracle_bytes(value)
            else:
                unsigned = 0
                for byte in shadow[slot:slot + 4]:
                    unsigned = unsigned * 256 + byte
                expect = unsigned - (1 << 32) if unsigned >= (1 << 31) else unsigned
                got = ebb.var_read_int32(slot)
                check(got == expect, f"seq read {got} != {expect}")
            check(board.vars == shadow, "board and shadow diverge")


def test_int32_domain_edges():
    ebb = attach(FakeBoard())
    for bad in (0x80000000, -0x80000001, 1 << 40):
        try:
            ebb.var_write_int32(bad, 0)
        except OverflowError:
            pass
        else:
            check(False, f"no OverflowError for {bad}")
        check(ebb.port.log == [] and ebb.err is None, "overflow must not touch the board")


def test_int32_guards_and_faults():
    # No port / prior error: documented "apparent failure" returns, no traffic
    for cls in (ebb3_serial.EBB3, ebb3_motion.EBBMotionWrap):
        ebb = cls()
        check(ebb.var_write(1, 1) is False and ebb.var_read(1) is None, "no-port single")
        check(ebb.var_write_int32(1, 1) is False, "no-port write32")
        check(ebb.var_read_int32(1) is False, "no-port read32 (historic False)")
        board = FakeBoard()
        ebb = attach(board, cls)
        ebb.err = "earlier"
        check(ebb.var_write(1, 1) is False and ebb.var_read(1) is None, "err single")
        check(ebb.var_write_int32(1, 1) is False and ebb.var_read_int32(1) is False, "err int32")
        check(board.log == [] and ebb.err == "earlier", "no traffic when in error state")

    value, slot = -0x01020304, 7
    expect_bytes = oracle_bytes(value)
    for kind in ('timeout', 'err', 'garbage', 'exc'):
        for position in range(4):
            # write fault
            board = FakeBoard()
            board.vars = [9] * 32
            board.fault_at, board.fault_kind = position, kind
            ebb = attach(board)
            res = ebb.var_write_int32(value, slot)
            failing = f'SL,{expect_bytes[position]},{slot + position}'
            check(res is False, f"write fault {kind}@{position} -> {res!r}")
            check(board.log == [f'SL,{b},{slot + k}' for k, b in enumerate(expect_bytes)][:position + 1],
                  f"write fault traffic {kind}@{position}: {board.log}")
            check(ebb.err is not None and failing in ebb.err, f"err text {ebb.err!r}")
            check(board.vars[slot:slot + 4] == (expect_bytes[:position] + [9] * 4)[:4], "partial write")
            # read fault
            board = FakeBoard()
            ebb = attach(board)
            check(ebb.var_write_int32(value, slot) is True, "pre-write")
            del board.log[:]
            board.fault_at, board.fault_kind = position, kind
            res = ebb.var_read_int32(slot)
            check(res is None, f"read fault {kind}@{position} -> {res!r}")
            check(board.log == [f'QL,{slot + k}' for k in range(position + 1)],
                  f"read fault traffic {kind}@{position}: {board.log}")
            check(ebb.err is not None and f'QL,{slot + position}' in ebb.err, f"err text {ebb.err!r}")
            check(ebb.var_read(slot) is None, "single read after fault")


# ---------------------------------------------------------------- nickname

def test_nickname():
    names = ['Plotter', '  Plotter', 'Plotter  ', '\tMy Plotter \n', 'A', 'abc def ghi', 'x' * 16,
             ' 16 chars long!! ', 'ümlaut'.encode('ascii', 'ignore').decode(), 'a,b', '0', '', '   ', '\t\n']
    for pad_left, pad_right in (('', ''), ('', '   '), ('  ', ''), (' ', '\t')):
        for given in names:
            board = FakeBoard(pad_left, pad_right)
            board.nickname = 'previous'
            ebb = attach(board)
            ebb.name = 'stale'
            res = ebb.write_nickname(given)
            trimmed = given.strip()
            check(res is True, f"write_nickname({given!r}) -> {res!r}")
            check(board.log == ['ST,' + trimmed if trimmed else 'ST,'], f"ST traffic {board.log}")
            check(board.nickname == trimmed, f"board nickname {board.nickname!r}")
            check(ebb.name == trimmed and type(ebb.name) is str, f"ebb.name {ebb.name!r}")
            del board.log[:]
            ebb.name = 'stale'
            check(ebb.query_nickname() is None, "query_nickname returns None")
            check(board.log == ['QT'], f"QT traffic {board.log}")
            check(ebb.name == trimmed, f"read back {ebb.name!r} != {trimmed!r}")
            other = attach(board, ebb3_serial.EBB3)
            other.query_nickname()
            check(other.name == trimmed, "fresh object nickname")

    # Guards
    board = FakeBoard()
    ebb = attach(board)
    ebb.name = 'keep'
    check(ebb.write_nickname(None) is False and board.log == [] and ebb.name == 'keep', "None nickname")
    ebb.err = 'earlier'
    check(ebb.write_nickname('abc') is False and board.log == [] and ebb.name == 'keep', "err guard write")
    check(ebb.query_nickname() is None and board.log == [] and ebb.name == 'keep', "err guard query")
    ebb = ebb3_serial.EBB3()
    ebb.name = 'keep'
    check(ebb.write_nickname('abc') is False and ebb.name == 'keep', "no-port write")
    check(ebb.query_nickname() is None and ebb.name == 'keep', "no-port query")

    # Faults: the name is only updated on success
    for kind in ('timeout', 'err', 'garbage', 'exc'):
        board = FakeBoard()
        board.nickname = 'previous'
        board.fault_at, board.fault_kind = 0, kind
        ebb = attach(board)
        ebb.name = 'keep'
        check(ebb.write_nickname(' new ') is False, f"write fault {kind}")
        check(ebb.name == 'keep' and board.nickname == 'previous' and board.log == ['ST,new'], "no update")
        check(ebb.err is not None and 'ST,new' in ebb.err, "err text")
        board = FakeBoard()
        board.nickname = 'previous'
        board.fault_at, board.fault_kind = 0, kind
        ebb = attach(board)
        ebb.name = 'keep'
        check(ebb.query_nickname() is None and ebb.name == 'keep' and board.log == ['QT'], "query fault")
        check(ebb.err is not None and 'QT' in ebb.err, "err text")

    # query() stub results: whitespace-only is ignored, empty string is stored, padding is stripped
    class Stub(ebb3_serial.EBB3):
        reply = None
        def query(self, qry):
            check(qry == 'QT', "query_nickname must send QT")
            return self.reply
    for reply, expect in ((None, 'keep'), ('   ', 'keep'), ('\t', 'keep'), ('', ''), (' a b ', 'a b'), ('n', 'n')):
        stub = Stub()
        stub.port = object()
        stub.name = 'keep'
        stub.reply = reply
        stub.query_nickname()
        check(stub.name == expect, f"stub reply {reply!r} -> {stub.name!r}")


# ---------------------------------------------------------------- motors

def prior_states():
    for en1, en2, mode, cu50 in itertools.product((False, True), (False, True), (1, 2, 3, 4, 5), (0, 1)):
        if cu50 == 1 and en1 != en2:
            continue    # not reachable on a board that forbids single-motor operation
        yield en1, en2, mode, cu50


def test_motors_exhaustive():
    requests = list(itertools.product(range(-2, 9), repeat=2))
    requests += [(2.9, 0), (0, 3.7), (0.5, 4), (-0.9, 2), ('3', '0'), ('0', '4'), (True, False),
                 (False, True), (5.99, 7.2), (0, 100), (-100, 1), (1000, -1000)]
    for r_1, r_2 in requests:
        c_1, c_2 = clamp(r_1), clamp(r_2)
        for en1, en2, mode, cu50 in prior_states():
            board = FakeBoard()
            board.en1, board.en2, board.mode, board.cu50 = en1, en2, mode, cu50
            ebb = attach(board)
            res = ebb.motors_enable(r_1, r_2)
            ctx = f"request ({r_1!r},{r_2!r}) from prior {(en1, en2, mode, cu50)}"
            check(res is None, f"motors_enable returns None; {ctx}")
            check(ebb.err is None, f"error {ebb.err!r}; {ctx}")
            check(board.log == oracle_motor_trace(r_1, r_2, en1, en2, mode),
                  f"traffic {board.log} != {oracle_motor_trace(r_1, r_2, en1, en2, mode)}; {ctx}")
            # The property itself, on the board ...
            check(board.en1 == (c_1 != 0), f"motor 1 enable wrong; {ctx}")
            check(board.en2 == (c_2 != 0), f"motor 2 enable wrong; {ctx}")
            wanted = c_1 if c_1 != 0 else c_2
            if wanted != 0:
                check(board.mode == wanted, f"global mode {board.mode} != {wanted}; {ctx}")
            else:
                check(board.mode == mode, f"global mode changed by all-off request; {ctx}")
            # ... and as reported through the library
            del board.log[:]
            report = ebb.motors_query_enabled()
            check(board.log == ['QE'], "QE traffic")
            check(isinstance(report, tuple) and len(report) == 2, f"report shape {report!r}")
            check(report == (wanted if c_1 else 0, wanted if c_2 else 0), f"report {report!r}; {ctx}")
            check(report[0] == (c_1 if c_1 else 0) and all(type(x) is int for x in report), "report ints")


def test_motor_query_decoding():
    for en1, en2, mode in itertools.product((False, True), (False, True), (1, 2, 3, 4, 5)):
        board = FakeBoard()
        board.en1, board.en2, board.mode = en1, en2, mode
        ebb = attach(board)
        rep = ebb.motors_query_enabled()
        check(rep == (mode if en1 else 0, mode if en2 else 0), f"decode {rep!r}")
        check(rep[0] == (mode if en1 else 0) and rep[1] == (mode if en2 else 0), "indexable")
        r_a, r_b = rep
        check((r_a, r_b) == tuple(rep), "unpackable")
    # query() stub: every documented QE pair, incl. whitespace tolerated by int()
    class Stub(ebb3_motion.EBBMotionWrap):
        reply = None
        def query(self, qry):
            check(qry == 'QE', "must send QE")
            return self.reply
    for q_1, q_2 in itertools.product(EM_TO_QE.items(), repeat=2):
        stub = Stub()
        stub.port = object()
        stub.reply = f'{q_1[1]},{q_2[1]}'
        check(stub.motors_query_enabled() == (q_1[0], q_2[0]), f"stub decode {stub.reply}")
        stub.reply = f' {q_1[1]} , {q_2[1]},7'
        check(stub.motors_query_enabled() == (q_1[0], q_2[0]), f"stub decode {stub.reply!r}")
    stub = Stub()
    stub.port = object()
    stub.reply = None
    check(stub.motors_query_enabled() is None, "None reply")
    for reply, exc in (('3,1', KeyError), ('1,x', ValueError), ('16', IndexError), ('x', ValueError)):
        stub.reply = reply
        try:
            stub.motors_query_enabled()
        except exc:
            pass
        else:
            check(False, f"malformed {reply!r} should raise {exc.__name__}")
    # Guards
    ebb = ebb3_motion.EBBMotionWrap()
    check(ebb.motors_query_enabled() is None and ebb.motors_enable(1, 1) is None, "no-port motors")
    board = FakeBoard()
    ebb = attach(board)
    ebb.err = 'earlier'
    check(ebb.motors_query_enabled() is None and ebb.motors_enable(1, 1) is None, "err motors")
    check(board.log == [] and (board.en1, board.en2) == (False, False), "no traffic in error state")


def test_motor_2_only_decision():
    """Only-motor-2 requests: the pre-set EM is sent iff the resolution in use (motor 1's
    report if enabled, else motor 2's, else none) differs from the requested one."""
    class Stub(ebb3_motion.EBBMotionWrap):
        states = None
        def motors_query_enabled(self):
            self.port.log.append('<query>')
            return self.states
    for rep_1, rep_2, want in itertools.product(range(6), range(6), range(1, 6)):
        for as_type in (tuple, list):
            board = FakeBoard()
            ebb = attach(board, Stub)
            ebb.states = as_type((rep_1, rep_2))
            ebb.motors_enable(0, want)
            in_use = rep_1 if rep_1 != 0 else rep_2
            expect = ['CU,50,0', '<query>'] + ([f'EM,{want},{want}'] if in_use != want else []) \
                + [f'EM,0,{want}']
            check(board.log == expect, f"motor-2-only decision {(rep_1, rep_2, want)}: {board.log}")
    board = FakeBoard()
    ebb = attach(board, Stub)
    ebb.states = None
    check(ebb.motors_enable(0, 2) is None and board.log == ['CU,50,0', '<query>'], "query failure aborts")
    # Requests that do not need the query never make it
    for r_1, r_2 in ((0, 0), (1, 0), (3, 3), (5, 1), (-1, -1)):
        board = FakeBoard()
        ebb = attach(board, Stub)
        ebb.states = (0, 0)
        ebb.motors_enable(r_1, r_2)
        check('<query>' not in board.log, f"needless query for {(r_1, r_2)}")


def test_motor_sequences():
    rng = random.Random(1604)
    for _ in range(40):
        board = FakeBoard()
        ebb = attach(board)
        mode_model = board.mode
        for _step in range(50):
            r_1, r_2 = rng.randint(-1, 7), rng.randint(-1, 7)
            if rng.random() < 0.1:
                ebb.motors_disable()
                r_1 = r_2 = 0
                check(board.log[-1] == 'EM,0,0', "motors_disable traffic")
            else:
                before = (board.en1, board.en2, board.mode)
                start = len(board.log)
                ebb.motors_enable(r_1, r_2)
                check(board.log[start:] == oracle_motor_trace(r_1, r_2, *before), "sequence traffic")
            c_1, c_2 = clamp(r_1), clamp(r_2)
            if c_1 or c_2:
                mode_model = c_1 if c_1 else c_2
            check((board.en1, board.en2, board.mode) == (c_1 != 0, c_2 != 0, mode_model), "sequence state")
            check(ebb.motors_query_enabled() == (mode_model if c_1 else 0, mode_model if c_2 else 0),
                  "sequence report")
            # interleave variable and nickname traffic; they must not interfere
            if rng.random() < 0.3:
                val, slot = rng.randint(-0x80000000, 0x7FFFFFFF), rng.randrange(29)
                check(ebb.var_write_int32(val, slot) and ebb.var_read_int32(slot) == val, "interleaved var")
            if rng.random() < 0.1:
                nick = rng.choice(['  one', 'two  ', ' three '])
                check(ebb.write_nickname(nick) and ebb.name == nick.strip(), "interleaved nickname")
                ebb.query_nickname()
                check(ebb.name == nick.strip() == board.nickname, "interleaved nickname read")
        check(ebb.err is None, "no error in sequences")


def test_motor_faults():
    cases = [((0, 3), (False, False, 1)),   # CU, QE, EM33, EM03
             ((0, 3), (True, True, 3)),     # CU, QE, EM03
             ((2, 0), (True, True, 5)),     # CU, EM20
             ((4, 2), (False, True, 1)),    # EM42
             ((0, 0), (True, True, 2))]     # EM00
    for (r_1, r_2), (en1, en2, mode) in cases:
        full = oracle_motor_trace(r_1, r_2, en1, en2, mode)
        for kind in ('timeout', 'err', 'garbage', 'exc'):
            for position in range(len(full)):
                board = FakeBoard()
                board.en1, board.en2, board.mode, board.cu50 = en1, en2, mode, 0
                board.fault_at, board.fault_kind = position, kind
                ebb = attach(board)
                check(ebb.motors_enable(r_1, r_2) is None, "fault return")
                check(board.log == full[:position + 1],
                      f"fault traffic {kind}@{position} {(r_1, r_2)}: {board.log} vs {full}")
                check(ebb.err is not None and full[position] in ebb.err, f"err text {ebb.err!r}")
                check(ebb.motors_query_enabled() is None, "query after fault")


def main():
    test_single_slot()
    test_int32_roundtrip()
    test_int32_sequences()
    test_int32_domain_edges()
    test_int32_guards_and_faults()
    test_nickname()
    test_motors_exhaustive()
    test_motor_query_decoding()
    test_motor_2_only_decision()
    test_motor_sequences()
    test_motor_faults()
    print(f"C16 demo OK: {CHECKS} checks passed")
    return 0


if __name__ == '__main__':
    sys.exit(main())
