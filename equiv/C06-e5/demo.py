import os, sys; sys.path.insert(0, os.environ.get('PLOTINK_ROOT', '/tmp/wtf_C06'))
# Demo / check for property C06: motion & configuration helpers emit exactly the
# documented EBB command text, in both the legacy function layer (ebb_motion) and
# the EBB3 class layer (ebb3_motion / ebb3_serial).
#
# Everything is done against fake serial-port objects which record every byte
# string written to them.  Expected wire text is produced by an independent
# oracle written straight from the EBB command documentation.

import itertools
import logging

from plotink import ebb_motion, ebb_serial, ebb3_motion

FAILURES = []
CHECKS = [0]


def check(cond, msg):
    CHECKS[0] += 1
    if not cond:
        FAILURES.append(msg)
        if len(FAILURES) <= 25:
            print("FAIL:", msg)


def expect(got, want, label):
    check(got == want, "%s: got %r, want %r" % (label, got, want))


# --------------------------------------------------------------------------
# Fake ports
# --------------------------------------------------------------------------

VERSION_LINE = "EBBv13_and_above EB Firmware Version {}\r\n"


class LegacyPort:
    """ Fake pyserial port for the legacy layer: answers OK to everything """

    def __init__(self, fw="2.8.1", bad=False):
        self.sent = []
        self.fw = fw
        self.bad = bad      # if True, answer commands with an error line
        self._last = ''

    def write(self, data):
        assert isinstance(data, bytes)
        self._last = data.decode('ascii')
        self.sent.append(self._last)
        return len(data)

    def readline(self):
        if self._last == 'V\r':
            if self.fw is None:
                return b'EBBv13_and_above, version not known\r\n'
            return VERSION_LINE.format(self.fw).encode('ascii')
        if self.bad:
            return b'!8 Err: Unknown command\r\n'
        return b'OK\r\n'


class EBB3Port:
    """ Fake pyserial port for the EBB3 layer: echoes the command name """

    def __init__(self, qe='0,0', ql='37', fail_on=None):
        self.sent = []
        self.qe = qe
        self.ql = ql
        self.fail_on = fail_on  # command name which gets an error reply
        self._last = ''

    def write(self, data):
        assert isinstance(data, bytes)
        self._last = data.decode('ascii')
        self.sent.append(self._last)
        return len(data)

    def readline(self):
        cmd = self._last.strip()
        name = cmd[0] if (len(cmd) == 1 or cmd[1] == ',') else cmd[0:2]
        if self.fail_on is not None and name == self.fail_on:
            return b'!8 Err: Unknown command\r\n'
        if name == 'QE':
            return ('QE,' + self.qe + '\r\n').encode('ascii')
        if name == 'QL':
            return ('QL,' + self.ql + '\r\n').encode('ascii')
        return (name + '\r\n').encode('ascii')

    def close(self):
        pass

    def reset_input_buffer(self):
        pass


def new_ebb3(**kw):
    dev = ebb3_motion.EBBMotionWrap()
    dev.port = EBB3Port(**kw)
    return dev


def legacy(func, *args, **kw):
    """ Run a legacy helper against a fresh fake port; return (sent, retval) """
    fw = kw.pop('_fw', "2.8.1")
    port = LegacyPort(fw=fw)
    ret = func(port, *args, **kw)
    return port.sent, ret


def modern(name, *args, **kw):
    """ Run an EBB3 method against a fresh fake port; return (sent, retval, dev) """
    port_kw = kw.pop('_port', {})
    dev = new_ebb3(**port_kw)
    ret = getattr(dev, name)(*args, **kw)
    return dev.port.sent, ret, dev


def both(label, legacy_call, modern_call, want):
    """
    legacy_call / modern_call: (callable-or-name, args, kwargs).
    want: list of command texts WITHOUT the trailing CR.
    Check both layers emit exactly these, and hence the same text.
    """
    lf, la, lk = legacy_call
    sent_l, ret_l = legacy(lf, *la, **lk)
    mn, ma, mk = modern_call
    sent_m, ret_m, dev = modern(mn, *ma, **mk)
    wire = [w + '\r' for w in want]
    expect(sent_l, wire, label + " [legacy]")
    expect(sent_m, wire, label + " [ebb3]")
    expect(sent_l, sent_m, label + " [layers agree]")
    expect(ret_l, None, label + " [legacy return]")
    expect(ret_m, None, label + " [ebb3 return]")
    expect(dev.err, None, label + " [ebb3 err]")


INTS = [-2147483648, -32768, -751, -750, -1, 0, 1, 2, 5, 749, 750, 751, 65535, 2147483647]
SMALL = [-3, -1, 0, 1, 7]

# --------------------------------------------------------------------------
# 1. XY move: SM,<duration>,<axis1 = Y>,<axis2 = X>
# --------------------------------------------------------------------------
for dx, dy, dur in itertools.product(INTS, INTS, [0, 1, 30, 750, 16777215]):
    both("xy_move(%d,%d,%d)" % (dx, dy, dur),
         (ebb_motion.doXYMove, (dx, dy, dur), {}),
         ('xy_move', (dx, dy, dur), {}),
         ['SM,%d,%d,%d' % (dur, dy, dx)])
# keyword form
both("xy_move kw",
     (ebb_motion.doXYMove, (), dict(delta_x=11, delta_y=-22, duration=33, verbose=False)),
     ('xy_move', (), dict(delta_x=11, delta_y=-22, duration=33)),
     ['SM,33,-22,11'])

# AB move (legacy only): XM,<duration>,<A>,<B>
for da, db, dur in itertools.product(INTS, INTS, [0, 1, 750]):
    sent, ret = legacy(ebb_motion.doABMove, da, db, dur)
    expect(sent, ['XM,%d,%d,%d\r' % (dur, da, db)], "doABMove(%d,%d,%d)" % (da, db, dur))
    expect(ret, None, "doABMove return")
sent, ret = legacy(ebb_motion.doABMove, delta_a=4, delta_b=-5, duration=6, verbose=False)
expect(sent, ['XM,6,4,-5\r'], "doABMove kw")

# --------------------------------------------------------------------------
# 2. Absolute move: HM,<rate>[,<p1>,<p2>]
# --------------------------------------------------------------------------
for rate in [0, 1, 2, 1000, 25000]:
    for p1, p2 in itertools.product([None] + INTS, [None] + INTS):
        if p1 is not None and p2 is not None:
            want = ['HM,%d,%d,%d' % (rate, p1, p2)]
        else:
            want = ['HM,%d' % rate]
        both("abs_move(%r,%r,%r)" % (rate, p1, p2),
             (ebb_motion.doAbsMove, (rate, p1, p2), {}),
             ('abs_move', (rate, p1, p2), {}), want)
    both("abs_move(%r) defaults" % rate,
         (ebb_motion.doAbsMove, (rate,), {}), ('abs_move', (rate,), {}), ['HM,%d' % rate])
both("abs_move kw p2 only",
     (ebb_motion.doAbsMove, (5,), dict(position2=0)), ('abs_move', (5,), dict(position2=0)),
     ['HM,5'])
both("abs_move kw p1 only",
     (ebb_motion.doAbsMove, (5,), dict(position1=0)), ('abs_move', (5,), dict(position1=0)),
     ['HM,5'])
both("abs_move kw both zero",
     (ebb_motion.doAbsMove, (0,), dict(position1=0, position2=0, verbose=False)),
     ('abs_move', (0,), dict(position1=0, position2=0)),
     ['HM,0,0,0'])

# --------------------------------------------------------------------------
# 3. Timed pause: zero-move SM commands, each 1..750 ms, summing to n
# --------------------------------------------------------------------------


def pause_oracle(n):
    if n <= 0:
        return []
    full, rest = n // 750, n % 750
    return [750] * full + ([rest] if rest else [])


for n in list(range(-10, 3100)) + [7499, 7500, 7501, 100000, 123457, -750, -751, -100000]:
    want = pause_oracle(n)
    assert sum(want) == max(n, 0) and all(1 <= c <= 750 for c in want)
    both("timed_pause(%d)" % n,
         (ebb_motion.doTimedPause, (n,), {}), ('timed_pause', (n,), {}),
         ['SM,%d,0,0' % c for c in want])
both("timed_pause kw",
     (ebb_motion.doTimedPause, (), dict(n_pause=1501, verbose=False)),
     ('timed_pause', (), dict(pause_time=1501)),
     ['SM,750,0,0', 'SM,750,0,0', 'SM,1,0,0'])

# --------------------------------------------------------------------------
# 4. Low-level move (legacy): LM,<r1>,<s1>,<a1>,<r2>,<s2>,<a2>[,<clear>]
#    suppressed only when neither axis can move
# --------------------------------------------------------------------------
LMV = [-5, 0, 3]


def axis_can_move(rate, steps, accel):
    return steps != 0 and (rate != 0 or accel != 0)


n_suppressed = 0
for r1, s1, a1, r2, s2, a2 in itertools.product(LMV, repeat=6):
    for clear in (None, 0, 1, 2, 3):
        if axis_can_move(r1, s1, a1) or axis_can_move(r2, s2, a2):
            text = 'LM,%d,%d,%d,%d,%d,%d' % (r1, s1, a1, r2, s2, a2)
            if clear is not None:
                text += ',%d' % clear
            want = [text + '\r']
        else:
            want = []
            n_suppressed += 1
        sent, ret = legacy(ebb_motion.doLowLevelMove, r1, s1, a1, r2, s2, a2, clear)
        expect(sent, want, "doLowLevelMove(%r)" % ((r1, s1, a1, r2, s2, a2, clear),))
        expect(ret, None, "doLowLevelMove return")
assert n_suppressed > 0
sent, _ = legacy(ebb_motion.doLowLevelMove, 1, 2, 3, 4, 5, 6)
expect(sent, ['LM,1,2,3,4,5,6\r'], "doLowLevelMove default clear")
sent, _ = legacy(ebb_motion.doLowLevelMove, rate1=-2147483647, steps1=2147483647, accel1=0,
                 rate2=0, steps2=0, accel2=0, clear=0, verbose=False)
expect(sent, ['LM,-2147483647,2147483647,0,0,0,0,0\r'], "doLowLevelMove kw")

# --------------------------------------------------------------------------
# 5. Motors
# --------------------------------------------------------------------------


def clamp(res):
    return 0 if res < 0 else (5 if res > 5 else res)


both("motors disable", (ebb_motion.sendDisableMotors, (), {}), ('motors_disable', (), {}),
     ['EM,0,0'])

for res in range(-9, 15):
    sent, ret = legacy(ebb_motion.sendEnableMotors, res)
    expect(sent, ['EM,%d,%d\r' % (clamp(res), clamp(res))], "sendEnableMotors(%d)" % res)
    expect(ret, None, "sendEnableMotors return")
    # same request through the class layer (both motors, same resolution)
    sent_m, ret_m, dev = modern('motors_enable', res, res)
    expect(sent_m, sent, "motors_enable(%d,%d) agrees with legacy" % (res, res))
    expect(ret_m, None, "motors_enable return")
sent, _ = legacy(ebb_motion.sendEnableMotors, res=3, verbose=False)
expect(sent, ['EM,3,3\r'], "sendEnableMotors kw")

QE_CODES = {0: 0, 1: 16, 2: 8, 3: 4, 4: 2, 5: 1}  # EM value -> QE report value


def em_oracle(r1, r2, cur1, cur2):
    r1, r2 = clamp(int(r1)), clamp(int(r2))
    out = []
    if (r1 == 0) != (r2 == 0):
        out.append('CU,50,0')
    if r1 == 0 and r2 != 0:
        out.append('QE')
        old = cur1 if cur1 != 0 else cur2
        if old != r2:
            out.append('EM,%d,%d' % (r2, r2))
    out.append('EM,%d,%d' % (r1, r2))
    return [o + '\r' for o in out]


for r1, r2 in itertools.product(range(-2, 8), repeat=2):
    for cur1, cur2 in itertools.product(range(0, 6), repeat=2):
        qe = '%d,%d' % (QE_CODES[cur1], QE_CODES[cur2])
        sent, ret, dev = modern('motors_enable', r1, r2, _port=dict(qe=qe))
        expect(sent, em_oracle(r1, r2, cur1, cur2),
               "motors_enable(%d,%d) with state %s" % (r1, r2, qe))
        expect(ret, None, "motors_enable return")
        expect(dev.err, None, "motors_enable err")
sent, ret, dev = modern('motors_enable', resolution_1='0', resolution_2=2.9, _port=dict(qe='4,0'))
expect(sent, ['CU,50,0\r', 'QE\r', 'EM,2,2\r', 'EM,0,2\r'], "motors_enable int() conversion")
# Error while reading the motor state: nothing more is sent.
sent, ret, dev = modern('motors_enable', 0, 3, _port=dict(fail_on='QE'))
expect(sent, ['CU,50,0\r', 'QE\r'], "motors_enable with failing QE")
expect(ret, None, "motors_enable with failing QE return")
check(dev.err is not None, "motors_enable with failing QE records error")

# --------------------------------------------------------------------------
# 6. Pen up / down: SP,<state>,<delay>[,<pin>]
# --------------------------------------------------------------------------
for delay in [0, 1, 150, 65535, -1]:
    for pin in [None, 0, 1, 2, 7]:
        tail = '' if pin is None else ',%d' % pin
        both("pen down %r %r" % (delay, pin),
             (ebb_motion.sendPenDown, (delay, pin), {}), ('pen_lower', (delay, pin), {}),
             ['SP,0,%d%s' % (delay, tail)])
        both("pen up %r %r" % (delay, pin),
             (ebb_motion.sendPenUp, (delay, pin), {}), ('pen_raise', (delay, pin), {}),
             ['SP,1,%d%s' % (delay, tail)])
    both("pen down default pin", (ebb_motion.sendPenDown, (delay,), {}),
         ('pen_lower', (delay,), {}), ['SP,0,%d' % delay])
    both("pen up default pin", (ebb_motion.sendPenUp, (delay,), {}),
         ('pen_raise', (delay,), {}), ['SP,1,%d' % delay])
both("pen down kw", (ebb_motion.sendPenDown, (), dict(pen_delay=0, pin=0, verbose=False)),
     ('pen_lower', (), dict(pen_delay=0, pin=0)), ['SP,0,0,0'])
both("pen up kw", (ebb_motion.sendPenUp, (), dict(pen_delay=0, pin=0, verbose=False)),
     ('pen_raise', (), dict(pen_delay=0, pin=0)), ['SP,1,0,0'])

sent, ret = legacy(ebb_motion.TogglePen)
expect(sent, ['TP\r'], "TogglePen")
expect(ret, None, "TogglePen return")

# --------------------------------------------------------------------------
# 7. Servo configuration: SC,<param>,<value>
# --------------------------------------------------------------------------
SC = [(ebb_motion.setPenDownPos, 'servo_max', 'pen_pos_down', 5),
      (ebb_motion.setPenUpPos, 'servo_min', 'pen_pos_up', 4),
      (ebb_motion.setPenDownRate, 'pen_down_rate', 'pen_rate_down', 12),
      (ebb_motion.setPenUpRate, 'pen_up_rate', 'pen_rate_up', 11)]
for lfunc, kwname, mname, code in SC:
    for val in [0, 1, 4, 5, 11, 12, 400, 16000, 65535, -1]:
        both("%s(%d)" % (mname, val), (lfunc, (val,), {}), (mname, (val,), {}),
             ['SC,%d,%d' % (code, val)])
    both("%s kw" % mname, (lfunc, (), {kwname: 0, 'verbose': False}), (mname, (), {kwname: 0}),
         ['SC,%d,0' % code])

# --------------------------------------------------------------------------
# 8. Digital I/O, port B
# --------------------------------------------------------------------------
for pin, state in itertools.product(range(0, 8), [0, 1]):
    both("dio_b_set(%d,%d)" % (pin, state),
         (ebb_motion.PBOutValue, (pin, state), {}), ('dio_b_set', (pin, state), {}),
         ['PO,B,%d,%d' % (pin, state)])
    both("dio_b_config(%d,%d,0)" % (pin, state),
         (ebb_motion.PBOutConfig, (pin, state), {}), ('dio_b_config', (pin, state, 0), {}),
         ['PO,B,%d,%d' % (pin, state), 'PD,B,%d,0' % pin])
    sent, ret, dev = modern('dio_b_config', pin, state, 1)
    expect(sent, ['PO,B,%d,%d\r' % (pin, state), 'PD,B,%d,1\r' % pin], "dio_b_config input")
    expect(ret, None, "dio_b_config return")
both("dio kw",
     (ebb_motion.PBOutConfig, (), dict(pin=3, state=0, verbose=False)),
     ('dio_b_config', (), dict(pin=3, state=0, direction=0)),
     ['PO,B,3,0', 'PD,B,3,0'])
both("dio set kw",
     (ebb_motion.PBOutValue, (), dict(pin=3, state=0, verbose=False)),
     ('dio_b_set', (), dict(pin=3, state=0)),
     ['PO,B,3,0'])
# First error is sticky in the class layer: the second command is not transmitted.
sent, ret, dev = modern('dio_b_config', 2, 1, 0, _port=dict(fail_on='PO'))
expect(sent, ['PO,B,2,1\r'], "dio_b_config after error")
check(dev.err is not None, "dio_b_config records error")

# --------------------------------------------------------------------------
# 9. Servo timeout: SR,<ms>[,<state>]
# --------------------------------------------------------------------------
for ms in [0, 1, 60000, 4294967295]:
    for state in [None, 0, 1]:
        tail = '' if state is None else ',%d' % state
        want = 'SR,%d%s' % (ms, tail)
        # The legacy layer makes a firmware version check first ("V" query).
        sent, ret = legacy(ebb_motion.servo_timeout, ms, state)
        expect(sent, ['V\r', want + '\r'], "servo_timeout(%r,%r) legacy" % (ms, state))
        expect(ret, None, "servo_timeout legacy return")
        sent_m, ret_m, dev = modern('servo_timeout', ms, state)
        expect(sent_m, [want + '\r'], "servo_timeout(%r,%r) ebb3" % (ms, state))
        expect(ret_m, None, "servo_timeout ebb3 return")
        expect(sent[1:], sent_m, "servo_timeout layers agree")
    sent, ret = legacy(ebb_motion.servo_timeout, ms)
    expect(sent, ['V\r', 'SR,%d\r' % ms], "servo_timeout default state legacy")
    sent_m, ret_m, dev = modern('servo_timeout', ms)
    expect(sent_m, ['SR,%d\r' % ms], "servo_timeout default state ebb3")
sent, ret = legacy(ebb_motion.servo_timeout, timeout_ms=0, state=0, verbose=False)
expect(sent, ['V\r', 'SR,0,0\r'], "servo_timeout kw legacy")
sent_m, _, _ = modern('servo_timeout', timeout_ms=0, state=0)
expect(sent_m, ['SR,0,0\r'], "servo_timeout kw ebb3")
# Old firmware: nothing but the version query.
for fw in ["2.5.9", "1.0.0"]:
    sent, ret = legacy(ebb_motion.servo_timeout, 1000, 1, _fw=fw)
    expect(sent, ['V\r'], "servo_timeout on old firmware " + fw)
    expect(ret, None, "servo_timeout on old firmware return")
# Firmware version cannot be determined: likewise.
for state in (None, 0, 1):
    sent, ret = legacy(ebb_motion.servo_timeout, 1000, state, _fw=None)
    expect(sent, ['V\r'], "servo_timeout with unreadable firmware version")
    expect(ret, None, "servo_timeout with unreadable firmware version return")
sent, ret = legacy(ebb_motion.servo_timeout, 1000, 1, _fw="2.6.0")
expect(sent, ['V\r', 'SR,1000,1\r'], "servo_timeout on firmware 2.6.0")

# --------------------------------------------------------------------------
# 10. Layer variable / RAM variables, step counters
# --------------------------------------------------------------------------
for val in [0, 1, 127, 255]:
    sent, ret = legacy(ebb_motion.setEBBLV, val)
    expect(sent, ['SL,%d\r' % val], "setEBBLV(%d)" % val)
    expect(ret, None, "setEBBLV return")
    for idx in [0, 1, 31]:
        sent_m, ret_m, dev = modern('var_write', val, idx)
        expect(sent_m, ['SL,%d,%d\r' % (val, idx)], "var_write(%d,%d)" % (val, idx))
        expect(ret_m, True, "var_write return")
        sent_m, ret_m, dev = modern('var_write', val, idx, _port=dict(fail_on='SL'))
        expect(sent_m, ['SL,%d,%d\r' % (val, idx)], "var_write failing")
        expect(ret_m, False, "var_write failing return")
        sent_m, ret_m, dev = modern('var_read', idx, _port=dict(ql=str(val)))
        expect(sent_m, ['QL,%d\r' % idx], "var_read(%d)" % idx)
        expect(ret_m, val, "var_read return")
        sent_m, ret_m, dev = modern('var_read', idx, _port=dict(fail_on='QL'))
        expect(sent_m, ['QL,%d\r' % idx], "var_read failing")
        expect(ret_m, None, "var_read failing return")
sent_m, ret_m, dev = modern('var_write', value=0, index=0)
expect(sent_m, ['SL,0,0\r'], "var_write kw")
sent_m, ret_m, dev = modern('var_read', index=0)
expect(sent_m, ['QL,0\r'], "var_read kw")
expect(ret_m, 37, "var_read kw return")

sent_m, ret_m, dev = modern('clear_steps')
expect(sent_m, ['CS\r'], "clear_steps")
expect(ret_m, None, "clear_steps return")
sent_m, ret_m, dev = modern('clear_accumulators')
expect(sent_m, ['T3,1,0,0,0,0,0,0,3\r'], "clear_accumulators")
expect(ret_m, None, "clear_accumulators return")

# --------------------------------------------------------------------------
# 11. With no port, nothing is sent (and nothing blows up); likewise after an error
# --------------------------------------------------------------------------
_real_command = ebb_serial.command
_real_query = ebb_serial.query
leaks = []
ebb_serial.command = lambda *a, **k: leaks.append(('command', a))
ebb_serial.query = lambda *a, **k: leaks.append(('query', a))
try:
    none_calls = [
        (ebb_motion.doABMove, (1, 2, 3)), (ebb_motion.doTimedPause, (2000,)),
        (ebb_motion.doLowLevelMove, (1, 2, 3, 4, 5, 6)),
        (ebb_motion.doLowLevelMove, (1, 2, 3, 4, 5, 6, 1)),
        (ebb_motion.doXYMove, (1, 2, 3)), (ebb_motion.doAbsMove, (10,)),
        (ebb_motion.doAbsMove, (10, 1, 2)), (ebb_motion.sendDisableMotors, ()),
        (ebb_motion.sendEnableMotors, (1,)), (ebb_motion.sendEnableMotors, (-4,)),
        (ebb_motion.sendPenDown, (10,)), (ebb_motion.sendPenDown, (10, 2)),
        (ebb_motion.sendPenUp, (10,)), (ebb_motion.sendPenUp, (10, 2)),
        (ebb_motion.PBOutConfig, (1, 1)), (ebb_motion.PBOutValue, (1, 1)),
        (ebb_motion.TogglePen, ()), (ebb_motion.setPenDownPos, (1,)),
        (ebb_motion.setPenDownRate, (1,)), (ebb_motion.setPenUpPos, (1,)),
        (ebb_motion.setPenUpRate, (1,)), (ebb_motion.setEBBLV, (1,)),
        (ebb_motion.servo_timeout, (10,)), (ebb_motion.servo_timeout, (10, 1)),
    ]
    for func, args in none_calls:
        expect(func(None, *args), None, "%s(None, ...) return" % func.__name__)
        expect(func(None, *args, verbose=False), None, "%s(None, ...) return" % func.__name__)
finally:
    ebb_serial.command = _real_command
    ebb_serial.query = _real_query
expect(leaks, [], "legacy layer with port None sends nothing")

METHOD_CALLS = [
    ('timed_pause', (2000,), None), ('xy_move', (1, 2, 3), None), ('abs_move', (10,), None),
    ('abs_move', (10, 1, 2), None), ('motors_disable', (), None),
    ('motors_enable', (1, 1), None), ('motors_enable', (0, 2), None),
    ('clear_steps', (), None), ('clear_accumulators', (), None),
    ('pen_lower', (10,), None), ('pen_lower', (10, 2), None),
    ('pen_raise', (10,), None), ('pen_raise', (10, 2), None),
    ('dio_b_config', (1, 1, 0), None), ('dio_b_set', (1, 1), None),
    ('pen_pos_down', (1,), None), ('pen_pos_up', (1,), None),
    ('pen_rate_down', (1,), None), ('pen_rate_up', (1,), None),
    ('servo_timeout', (10,), None), ('servo_timeout', (10, 1), None),
    ('var_write', (1, 2), False), ('var_read', (2,), None),
]
for name, args, want_ret in METHOD_CALLS:
    dev = ebb3_motion.EBBMotionWrap()       # never connected: port is None
    expect(getattr(dev, name)(*args), want_ret, "%s with no port: return" % name)
    expect(dev.err, None, "%s with no port: err" % name)
    dev = new_ebb3()
    dev.err = "earlier failure"
    expect(getattr(dev, name)(*args), want_ret, "%s after error: return" % name)
    expect(dev.port.sent, [], "%s after error: nothing sent" % name)
    expect(dev.err, "earlier failure", "%s after error: err kept" % name)

# motors_enable must not even look at its arguments when there is no port
dev = ebb3_motion.EBBMotionWrap()
expect(dev.motors_enable("not a number", None), None, "motors_enable no port, junk args")

# --------------------------------------------------------------------------
# 12. The legacy "verbose" flag reaches the serial layer unchanged
#     (error -> logged at ERROR level when verbose, INFO level otherwise)
# --------------------------------------------------------------------------


class Collect(logging.Handler):
    def __init__(self):
        logging.Handler.__init__(self, level=logging.DEBUG)
        self.levels = []

    def emit(self, record):
        self.levels.append(record.levelno)


collector = Collect()
ser_logger = logging.getLogger(ebb_serial.__name__)
old_level, old_propagate = ser_logger.level, ser_logger.propagate
ser_logger.addHandler(collector)
ser_logger.setLevel(logging.DEBUG)
ser_logger.propagate = False
try:
    verbose_calls = [
        (ebb_motion.doABMove, (1, 2, 3), 1), (ebb_motion.doTimedPause, (1500,), 2),
        (ebb_motion.doLowLevelMove, (1, 2, 3, 4, 5, 6), 1),
        (ebb_motion.doLowLevelMove, (1, 2, 3, 4, 5, 6, 1), 1),
        (ebb_motion.doXYMove, (1, 2, 3), 1), (ebb_motion.doAbsMove, (10,), 1),
        (ebb_motion.doAbsMove, (10, 1, 2), 1), (ebb_motion.sendDisableMotors, (), 1),
        (ebb_motion.sendEnableMotors, (1,), 1),
        (ebb_motion.sendPenDown, (10,), 1), (ebb_motion.sendPenDown, (10, 2), 1),
        (ebb_motion.sendPenUp, (10,), 1), (ebb_motion.sendPenUp, (10, 2), 1),
        (ebb_motion.PBOutConfig, (1, 1), 2), (ebb_motion.PBOutValue, (1, 1), 1),
        (ebb_motion.TogglePen, (), 1), (ebb_motion.setPenDownPos, (1,), 1),
        (ebb_motion.setPenDownRate, (1,), 1), (ebb_motion.setPenUpPos, (1,), 1),
        (ebb_motion.setPenUpRate, (1,), 1), (ebb_motion.setEBBLV, (1,), 1),
        (ebb_motion.servo_timeout, (10,), 1), (ebb_motion.servo_timeout, (10, 1), 1),
    ]
    for func, args, n_cmds in verbose_calls:
        for flag, level in ((True, logging.ERROR), (False, logging.INFO)):
            for how in ('positional', 'keyword', 'default'):
                if how == 'default' and not flag:
                    continue
                del collector.levels[:]
                port = LegacyPort(bad=True)
                if how == 'keyword':
                    func(port, *args, verbose=flag)
                elif how == 'default':
                    func(port, *args)
                else:
                    # pad optional arguments so that verbose can go positionally
                    pad = ()
                    if func in (ebb_motion.sendPenDown, ebb_motion.sendPenUp,
                                ebb_motion.servo_timeout) and len(args) == 1:
                        pad = (None,)
                    if func is ebb_motion.doAbsMove and len(args) == 1:
                        pad = (None, None)
                    if func is ebb_motion.doLowLevelMove and len(args) == 6:
                        pad = (None,)
                    func(port, *(args + pad + (flag,)))
                expect(collector.levels, [level] * n_cmds,
                       "%s verbose=%r (%s): log levels" % (func.__name__, flag, how))
finally:
    ser_logger.removeHandler(collector)
    ser_logger.setLevel(old_level)
    ser_logger.propagate = old_propagate

# --------------------------------------------------------------------------
print("%d checks, %d failures" % (CHECKS[0], len(FAILURES)))
sys.exit(1 if FAILURES else 0)
