import os, sys; sys.path.insert(0, os.environ.get('PLOTINK_ROOT', '/tmp/wte_C14'))
"""
Property C14 check: for every collection of identified boxes and every query box,
rtree.Index(boxes).intersection(query) is exactly the set of identifiers whose closed box
shares a point with the closed query box; construction terminates.

Two independent oracles:
  * integer data: a box is the finite set of lattice points it covers; two integer boxes
    share a point iff those point sets intersect (no interval comparisons involved);
  * any data: overlap interval [max(lows), min(highs)] is non-empty on both axes.
Both are cross-checked against each other on integer data.

The demo additionally checks the structure produced by construction against a reference
model (leaf-or-inner decision, extents, contents AND ORDER of the four quadrant lists),
and a few structural invariants (a node stores boxes or subtrees, never both; every
stored box lies inside the extent of its node; every input identifier is reachable).
"""
import itertools
import math
import random

from plotink import rtree

INF = math.inf
FAILS = []
STATS = {"trees": 0, "queries": 0, "leaves": 0, "inner": 0}


def fail(msg):
    FAILS.append(msg)
    if len(FAILS) <= 10:
        print("FAIL:", msg)


# ---------------------------------------------------------------- oracles
def lattice_points(box):
    x_lo, y_lo, x_hi, y_hi = box
    return {(x, y) for x in range(x_lo, x_hi + 1) for y in range(y_lo, y_hi + 1)}


def oracle_lattice(boxes, query):
    q_pts = lattice_points(query)
    return {ident for ident, box in boxes if q_pts & lattice_points(box)}


def oracle_interval(boxes, query):
    hits = set()
    for ident, box in boxes:
        x_lo, x_hi = max(box[0], query[0]), min(box[2], query[2])
        y_lo, y_hi = max(box[1], query[1]), min(box[3], query[3])
        if x_lo <= x_hi and y_lo <= y_hi:
            hits.add(ident)
    return hits


# ---------------------------------------------------------------- reference structure
QUADRANT_RULES = [
    lambda b, cx, cy: b[0] <= cx and b[1] <= cy,
    lambda b, cx, cy: b[2] >= cx and b[1] <= cy,
    lambda b, cx, cy: b[0] <= cx and b[3] >= cy,
    lambda b, cx, cy: b[2] >= cx and b[3] >= cy,
]


def reference(boxes):
    total = len(boxes)
    c_x, c_y = 0, 0
    for _, box in boxes:
        c_x += (box[0] / 2 + box[2] / 2) / total
        c_y += (box[1] / 2 + box[3] / 2) / total
    ext = [INF, INF, -INF, -INF]
    for _, box in boxes:
        ext = [min(ext[0], box[0]), min(ext[1], box[1]), max(ext[2], box[2]), max(ext[3], box[3])]
    parts = [[entry for entry in boxes if rule(entry[1], c_x, c_y)] for rule in QUADRANT_RULES]
    sizes = sorted(len(p) for p in parts)
    if sizes[-1] == total:
        return {"ext": ext, "leaf": [(i, tuple(b)) for i, b in boxes]}
    return {"ext": ext, "kids": [reference(p) for p in parts]}


def observed(node):
    ext = [node.xmin, node.ymin, node.xmax, node.ymax]
    has_boxes, has_kids = len(node.bboxes) > 0, len(node.subtrees) > 0
    if has_boxes and has_kids:
        fail("node stores boxes and subtrees at the same time")
    if has_kids:
        STATS["inner"] += 1
        if len(node.subtrees) != 4:
            fail("inner node has %d subtrees" % len(node.subtrees))
        return {"ext": ext, "kids": [observed(k) for k in node.subtrees]}
    STATS["leaves"] += 1
    for _, (x_1, y_1, x_2, y_2) in node.bboxes:
        if not (node.xmin <= x_1 and x_2 <= node.xmax and node.ymin <= y_1 and y_2 <= node.ymax):
            fail("stored box outside its node extent")
    return {"ext": ext, "leaf": [(i, tuple(b)) for i, b in node.bboxes]}


def reachable_ids(node):
    ids = {i for i, _ in node.bboxes}
    for kid in node.subtrees:
        ids |= reachable_ids(kid)
    return ids


# ---------------------------------------------------------------- driver
def run_case(label, boxes, queries, integer):
    before = list(boxes)
    try:
        index = rtree.Index(boxes)
    except RecursionError:
        fail("%s: construction did not terminate: %r" % (label, boxes[:5]))
        return
    STATS["trees"] += 1
    if boxes != before:
        fail("%s: construction changed the caller's list" % label)
    if observed(index) != reference(boxes):
        fail("%s: structure differs from reference model: %r" % (label, boxes[:5]))
    if reachable_ids(index) != {i for i, _ in boxes}:
        fail("%s: some identifiers are not stored anywhere in the tree" % label)
    for query in queries:
        STATS["queries"] += 1
        want = oracle_interval(boxes, query)
        if integer and STATS["queries"] % 3 == 0 and all(isinstance(v, int) for v in query):
            if oracle_lattice(boxes, query) != want:
                fail("%s: the two oracles disagree (demo bug) for %r" % (label, query))
        got = index.intersection(query)
        if not isinstance(got, set) or got != want:
            fail("%s: query %r over %d boxes -> missed %r, extra %r"
                 % (label, query, len(boxes),
                    sorted(map(repr, want - set(got)))[:4], sorted(map(repr, set(got) - want))[:4]))
    # full-plane and far-away queries
    if index.intersection((-INF, -INF, INF, INF)) != {i for i, _ in boxes}:
        fail("%s: whole-plane query does not return every identifier" % label)
    if boxes and index.intersection((index.xmax + 1, index.ymax + 1, index.xmax + 2, index.ymax + 2)):
        fail("%s: query beyond the extent returned something" % label)


def spans(values):
    return [(lo, hi) for lo in values for hi in values if lo <= hi]


def boxes_on(values):
    return [(x[0], y[0], x[1], y[1]) for x in spans(values) for y in spans(values)]


def rand_int_box(rng, lo, hi, thin_p, cap):
    def one():
        a, b = sorted((rng.randint(lo, hi), rng.randint(lo, hi)))
        b = min(b, a + cap)
        return (a, a) if rng.random() < thin_p else (a, b)
    (x_1, x_2), (y_1, y_2) = one(), one()
    return (x_1, y_1, x_2, y_2)


def rand_float_box(rng, lo, hi, thin_p, cap):
    def one():
        a, b = sorted((rng.uniform(lo, hi), rng.uniform(lo, hi)))
        b = min(b, a + cap)
        return (a, a) if rng.random() < thin_p else (a, b)
    (x_1, x_2), (y_1, y_2) = one(), one()
    return (x_1, y_1, x_2, y_2)


def edge_queries(boxes, rng, how_many):
    """Queries built from stored-box coordinates: abutting, corner-touching, just-missing."""
    chosen = boxes if len(boxes) <= how_many else rng.sample(boxes, how_many)
    xs = sorted({v for _, b in boxes for v in (b[0], b[2])})
    ys = sorted({v for _, b in boxes for v in (b[1], b[3])})
    result = []
    for _, (x_1, y_1, x_2, y_2) in chosen:
        far_x, far_y = xs[-1] + 1, ys[-1] + 1
        near_x, near_y = xs[0] - 1, ys[0] - 1
        result += [
            (x_2, y_2, far_x, far_y), (near_x, near_y, x_1, y_1),
            (x_2, near_y, far_x, y_1), (near_x, y_2, x_1, far_y),
            (x_2, y_1, x_2, y_2), (x_1, y_2, x_2, y_2),
            (x_1, y_1, x_1, y_1), (x_2, y_2, x_2, y_2),
        ]
        for up in (math.nextafter(float(x_2), INF),):
            if up <= far_x:
                result.append((up, near_y, far_x, far_y))
        for down in (math.nextafter(float(y_1), -INF),):
            if near_y <= down:
                result.append((near_x, near_y, far_x, down))
    return result


def install_watchdog(seconds=60, max_bytes=3 << 30):
    """A construction that never terminates (or grows without bound) is a property failure."""
    import resource
    import signal

    def expired(_signum, _frame):
        print("C14 demo: FAILED (watchdog: did not finish within %d s)" % seconds)
        os._exit(1)
    signal.signal(signal.SIGALRM, expired)
    signal.alarm(seconds)
    try:
        resource.setrlimit(resource.RLIMIT_AS, (max_bytes, max_bytes))
    except (ValueError, OSError):
        pass


def main():
    install_watchdog()
    rng = random.Random(20240514)

    # A. degenerate collections
    run_case("empty", [], [(0, 0, 0, 0), (-5, -5, 5, 5)], True)
    for box in boxes_on([0, 1, 3]):
        run_case("single", [("a", box)], boxes_on([-1, 0, 1, 2, 3, 4])[::5], True)

    # B. exhaustive ordered pairs on a 3-value lattice, every lattice query
    lattice = boxes_on([0, 1, 2])
    for first in lattice:
        for second in lattice:
            run_case("pairs", [("p", first), ("q", second)], lattice, True)

    # C. layouts aimed at the leaf / inner decision and at the split lines
    #    (C1) every box contains the mean centre -> all four quadrants are full -> leaf
    nested = [(k, (-k, -k, k, k)) for k in range(1, 9)]
    run_case("nested", nested, boxes_on([-9, -4, 0, 4, 9]), True)
    #    (C2) exactly one quadrant full: everything in the upper-right except one spanning box
    one_full = [("span", (-10, -10, 10, 10))] + [(k, (k, k, k + 1, k + 2)) for k in range(1, 8)]
    run_case("one-full", one_full, boxes_on([-10, 0, 1, 4, 8, 10]), True)
    #    (C3) four separated clusters -> inner node with four disjoint children
    clusters = []
    for n_c, (o_x, o_y) in enumerate([(-50, -50), (50, -50), (-50, 50), (50, 50)]):
        clusters += [((n_c, k), (o_x + k, o_y - k, o_x + k + 2, o_y - k + 3)) for k in range(5)]
    run_case("clusters", clusters, boxes_on([-60, -50, -46, 0, 46, 50, 60]), True)
    #    (C4) boxes whose edges sit exactly on the mean centre lines
    for half in (1, 2, 4):
        on_lines = [
            ("east", (0, -half, half, half)), ("west", (-half, -half, 0, half)),
            ("north", (-half, 0, half, half)), ("south", (-half, -half, half, 0)),
            ("hbar", (-half, 0, half, 0)), ("vbar", (0, -half, 0, half)), ("pt", (0, 0, 0, 0)),
        ]
        for size in range(2, len(on_lines) + 1):
            for sub in itertools.combinations(on_lines, size):
                run_case("on-lines", list(sub), boxes_on([-half, 0, half])[::2], True)
    #    (C5) identical boxes many times over (no quadrant can shrink -> must stop as a leaf)
    for box in [(3, 3, 3, 3), (0, 1, 0, 7), (2, 5, 11, 5), (-1, -1, 4, 6)]:
        for copies in (2, 3, 17, 200):
            run_case("copies", [(k, box) for k in range(copies)], boxes_on([-2, 0, 3, 5, 12])[::3], True)
    #    (C6) staircases of abutting boxes (shared edges / corners everywhere)
    for step in (1, 2):
        stairs = [(k, (k * step, k * step, (k + 1) * step, (k + 1) * step)) for k in range(12)]
        run_case("stairs", stairs, boxes_on([0, step, 3 * step, 6 * step, 12 * step]), True)
        tiles = [((r, c), (c * step, r * step, (c + 1) * step, (r + 1) * step))
                 for r in range(5) for c in range(5)]
        run_case("tiles", tiles, boxes_on([0, step, 2 * step, 5 * step]) + [(step, step, step, step)], True)

    # D. random integer collections (ties, duplicates, thin boxes, repeated identifiers)
    for trial in range(300):
        reach = rng.choice([1, 2, 4, 7, 15])
        count = rng.choice([2, 3, 4, 6, 9, 14, 25, 70])
        boxes = [(k, rand_int_box(rng, -reach, reach, rng.choice([0.0, 0.3, 1.0]), rng.choice([1, 2, 99])))
                 for k in range(count)]
        if trial % 4 == 0:
            boxes = [("dup%d" % (k % 3), b) for k, b in boxes]
        queries = [rand_int_box(rng, -reach - 1, reach + 1, 0.25, 99) for _ in range(20)]
        queries += edge_queries(boxes, rng, 3)
        run_case("rand-int", boxes, queries, True)

    # E. random float collections at several magnitudes and offsets
    for trial in range(150):
        mag = rng.choice([1e-6, 1.0, 300.0, 1e9])
        off_x, off_y = rng.choice([(0, 0), (mag * 50, -mag * 80), (-mag * 1e3, mag * 1e3)])
        count = rng.choice([2, 5, 11, 40, 100])
        boxes = [(k, rand_float_box(rng, -mag, mag, 0.3, rng.choice([mag / 20, mag])))
                 for k in range(count)]
        boxes = [(k, (a + off_x, b + off_y, c + off_x, d + off_y)) for k, (a, b, c, d) in boxes]
        queries = [rand_float_box(rng, -mag, mag, 0.2, mag) for _ in range(15)]
        queries = [(a + off_x, b + off_y, c + off_x, d + off_y) for (a, b, c, d) in queries]
        queries += edge_queries(boxes, rng, 3)
        queries += [b for _, b in boxes[:4]]
        run_case("rand-float", boxes, queries, False)

    # F. one larger data set
    large = [(k, rand_float_box(rng, 0, 500, 0.2, 8)) for k in range(2500)]
    run_case("large", large, [rand_float_box(rng, -5, 505, 0.1, 60) for _ in range(120)], False)

    print("trees %(trees)d (leaf nodes %(leaves)d, inner nodes %(inner)d), queries %(queries)d" % STATS)
    if FAILS:
        print("C14 demo: FAILED with %d failures" % len(FAILS))
        return 1
    if STATS["queries"] < 60000 or STATS["inner"] < 1000:
        print("C14 demo: FAILED (too little was exercised)")
        return 1
    print("C14 demo: OK")
    return 0


if __name__ == "__main__":
    sys.exit(main())
