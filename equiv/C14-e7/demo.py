import os, sys; sys.path.insert(0, os.environ.get('PLOTINK_ROOT', '/tmp/e3_C14'))
# Property C14: the R-tree intersection query equals brute force, for every
# finite collection of closed boxes (min <= max, possibly degenerate) and every
# query box; touching counts; construction terminates.
import copy
import itertools
import math
import random

from plotink import rtree

FAILURES = []
CHECKS = [0]


def shares_a_point(box, query):
    """Independent oracle: closed rectangles share a point iff the intersection
    interval on each axis is non-empty (lo <= hi)."""
    bx1, by1, bx2, by2 = box
    qx1, qy1, qx2, qy2 = query
    return max(bx1, qx1) <= min(bx2, qx2) and max(by1, qy1) <= min(by2, qy2)


def brute(bboxes, query):
    return {ident for (ident, box) in bboxes if shares_a_point(box, query)}


def check(label, bboxes, queries):
    snapshot = copy.deepcopy(bboxes)
    index = rtree.Index(bboxes)            # must terminate
    for query in queries:
        got = index.intersection(query)
        want = brute(snapshot, query)
        CHECKS[0] += 1
        if type(got) is not set or got != want:
            FAILURES.append((label, query, sorted(want, key=repr), got))
            if len(FAILURES) > 10:
                report()
        again = index.intersection(query)  # queries are repeatable, results are fresh sets
        if again != want or again is got:
            FAILURES.append((label + ' (repeat)', query, sorted(want, key=repr), again))
    if bboxes != snapshot:
        FAILURES.append((label + ' (input mutated)', None, None, None))


def report():
    for item in FAILURES[:10]:
        print('FAIL', item)
    print('%d checks, %d failures' % (CHECKS[0], len(FAILURES)))
    sys.exit(1 if FAILURES else 0)


def norm(x_a, y_a, x_b, y_b):
    return (min(x_a, x_b), min(y_a, y_b), max(x_a, x_b), max(y_a, y_b))


def grid_queries(lo, hi):
    """All query boxes (including degenerate ones) with corners on a small lattice."""
    pts = list(range(lo, hi + 1))
    out = []
    for x_a, x_b in itertools.combinations_with_replacement(pts, 2):
        for y_a, y_b in itertools.combinations_with_replacement(pts, 2):
            out.append((x_a, y_a, x_b, y_b))
    return out


def random_box(rng, kind, span):
    if kind == 'int':
        pick = lambda: rng.randint(0, span)
    elif kind == 'half':
        pick = lambda: rng.randint(0, 2 * span) / 2
    else:
        pick = lambda: rng.uniform(0, span)
    box = norm(pick(), pick(), pick(), pick())
    shape = rng.random()
    if shape < 0.15:      # horizontal stroke
        box = (box[0], box[1], box[2], box[1])
    elif shape < 0.30:    # vertical stroke
        box = (box[0], box[1], box[0], box[3])
    elif shape < 0.40:    # a single point
        box = (box[0], box[1], box[0], box[1])
    return box


def main():
    rng = random.Random(14014)
    everything = (-math.inf, -math.inf, math.inf, math.inf)
    small_queries = grid_queries(-1, 5)

    # --- hand-written edge cases -------------------------------------------
    check('empty', [], [(0, 0, 1, 1), (0, 0, 0, 0), everything])
    check('single', [('a', (1, 1, 3, 3))], small_queries + [everything])
    check('single point box', [('p', (2, 2, 2, 2))], small_queries + [everything])
    check('duplicates', [(k, (1, 1, 3, 3)) for k in range(6)], small_queries)
    check('duplicate ids', [(7, (0, 0, 1, 1)), (7, (3, 3, 4, 4)), (8, (3, 0, 4, 1))],
          small_queries)
    check('nested', [(k, (k, k, 8 - k, 8 - k)) for k in range(5)],
          grid_queries(-1, 9) + [everything])
    check('diagonal pair (two empty quadrants)',
          [('lo', (0, 0, 1, 1)), ('hi', (3, 3, 4, 4))], small_queries + [everything])
    check('anti-diagonal pair', [('a', (0, 3, 1, 4)), ('b', (3, 0, 4, 1))],
          small_queries + [everything])
    check('shared edges 2x2 tiles',
          [((i, j), (2 * i, 2 * j, 2 * i + 2, 2 * j + 2)) for i in range(2) for j in range(2)],
          small_queries)
    check('shared edges 4x4 tiles',
          [((i, j), (i, j, i + 1, j + 1)) for i in range(4) for j in range(4)],
          small_queries + [everything])
    # strokes lying exactly on the split lines (mean centre is (2, 2))
    check('strokes on the split lines',
          [('h', (0, 2, 4, 2)), ('v', (2, 0, 2, 4)), ('c', (2, 2, 2, 2)),
           ('sw', (0, 0, 1, 1)), ('ne', (3, 3, 4, 4)), ('nw', (0, 3, 1, 4)), ('se', (3, 0, 4, 1))],
          small_queries + [everything])
    check('boxes touching the centre from each side',
          [('l', (0, 1, 2, 3)), ('r', (2, 1, 4, 3)), ('b', (1, 0, 3, 2)), ('t', (1, 2, 3, 4))],
          small_queries)
    check('collinear points', [(k, (k, 0, k, 0)) for k in range(9)],
          grid_queries(-1, 9))
    check('collinear vertical strokes', [(k, (k, 0, k, 4)) for k in range(6)],
          grid_queries(-1, 6))
    check('string ids, falsy ids',
          [('', (0, 0, 1, 1)), (0, (1, 1, 2, 2)), (None, (2, 2, 3, 3)), (False, (4, 4, 5, 5))],
          small_queries)
    check('negative and float coordinates',
          [('a', (-2.5, -1.0, -0.5, 0.0)), ('b', (-0.5, 0.0, 1.25, 3.5)),
           ('c', (1.25, -4.0, 1.25, 3.5)), ('d', (-10.0, -10.0, 10.0, 10.0))],
          [(-0.5, 0.0, -0.5, 0.0), (1.25, 3.5, 2.0, 9.0), (-3.0, -3.0, -2.5, -1.0),
           (1.2500000000000002, 0.0, 2.0, 1.0), (-11.0, -11.0, -10.0, -10.0),
           (10.000000000000002, 0.0, 11.0, 1.0), everything])
    check('tuple container', tuple((k, (k, k, k + 1, k + 1)) for k in range(5)),
          grid_queries(-1, 7))
    check('huge magnitudes',
          [(1, (-1e308, -1e308, 1e308, 1e308)), (2, (1e308, 1e308, 1e308, 1e308)),
           (3, (-1e308, 0.0, -1e308, 5e-324)), (4, (0.0, 0.0, 5e-324, 5e-324))],
          [(0.0, 0.0, 0.0, 0.0), (1e308, 1e308, math.inf, math.inf),
           (-math.inf, 0.0, -1e308, 0.0), (5e-324, 5e-324, 1.0, 1.0), everything])

    # --- exhaustive small collections on a lattice --------------------------
    lattice_boxes = [b for b in grid_queries(0, 2)]          # 36 boxes incl. degenerate
    lattice_queries = grid_queries(-1, 3)
    for combo in itertools.combinations(range(len(lattice_boxes)), 2):
        check('lattice pair', [(k, lattice_boxes[k]) for k in combo],
              rng.sample(lattice_queries, 45))
    for _ in range(150):
        combo = rng.sample(range(len(lattice_boxes)), 3)
        check('lattice triple', [(k, lattice_boxes[k]) for k in combo],
              rng.sample(lattice_queries, 45))

    # --- randomised collections ---------------------------------------------
    for kind, span, sizes in (('int', 4, (2, 3, 5, 8, 13)),
                              ('int', 12, (4, 10, 40, 100)),
                              ('half', 6, (3, 9, 30, 90)),
                              ('float', 100.0, (2, 7, 25, 120))):
        for size in sizes:
            for trial in range(4):
                boxes = [(k, random_box(rng, kind, span)) for k in range(size)]
                if trial % 2:     # sprinkle exact duplicates and nested copies
                    boxes += [('dup%d' % k, boxes[k % size][1]) for k in range(size // 3 + 1)]
                    rng.shuffle(boxes)
                queries = [random_box(rng, kind, span) for _ in range(40)]
                # queries that touch stored boxes exactly on an edge / corner
                for (_, (x_1, y_1, x_2, y_2)) in boxes[:10]:
                    queries.append((x_2, y_2, x_2 + 1, y_2 + 1))
                    queries.append((x_1 - 1, y_1 - 1, x_1, y_1))
                    queries.append((x_2, y_1, x_2, y_2))
                    queries.append((x_1, y_2, x_2, y_2))
                queries.append(everything)
                check('random %s n=%d' % (kind, size), boxes, queries)

    # --- a large collection: construction terminates, answers still exact ---
    big = [(k, random_box(rng, 'int', 60)) for k in range(800)]
    check('big', big, [random_box(rng, 'int', 60) for _ in range(15)] + [everything])

    report()


if __name__ == '__main__':
    main()
