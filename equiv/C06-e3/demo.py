import os, sys; sys.path.insert(0, os.environ.get('PLOTINK_ROOT', '/tmp/wte_C06'))
# Demo / checker for property C06: motion/configuration helpers emit exactly the
# documented EBB command text (legacy function layer and EBB3 class layer).
#
# Everything is checked at the serial-port level with fake port objects (what is
# written to the wire), against expectations written out independently here from
# the EBB command documentation.  Deterministic, no hardware, no network.

import itertools
import logging

from plotink import ebb_motion, ebb_serial, ebb3_motion, ebb3_serial

logging.disable(logging.CRITICAL)

ROOT = os.path.realpath(os.environ.get('PLOTINK_ROOT', '/tmp/wte_C06'))
assert os.path.realpath(ebb_motion.__file__).startswith(ROOT), ebb_motion.__file__
assert os.path.realpath(ebb3_motion.__file__).startswith(ROOT), ebb3_motion.__file__

FAILS = []
N_CHECKS = [0]


def check(cond, msg):
    N_CHECKS[0] += 1
    if not cond:
        if len(FAILS) < 40:
            FAILS.append(msg)
        else:
            FAILS.append(None)


# ---------------------------------------------------------------------------
# Fake ports
# ---------------------------------------------------------------------------

class LegacyPort:
    ''' Fake pyserial port for the legacy layer: answers OK to commands and a
        version string to the V query. '''
    def __init__(self, fw='2.8.1'):
        self.fw = fw
        self.writes = []
        self.queue = []

    def write(self, data):
        assert isinstance(data, bytes)
        self.writes.append(data)
        text = data.decode('ascii')
        if text == 'V\r':
            self.queue.append(
                ('EBBv13_and_above EB Firmware Version %s\r\n' % self.fw).encode('ascii'))
        else:
            self.queue.append(b'OK\r\n')

    def readline(self):
        if self.queue:
            return self.queue.pop(0)
        return b''

    def sent(self):
        return [w.decode('ascii') for w in self.writes]


class V3Port:
    ''' Fake pyserial port for the EBB3 layer (future syntax: the reply starts
        with the command name). '''
    def __init__(self, qe=(0, 0), ql=17, bad_qe=False, fail_after=None):
        self.qe = qe
        self.ql = ql
        self.bad_qe = bad_qe
        self.fail_after = fail_after    # after this many writes, reply garbage
        self.writes = []
        self.queue = []

    def write(self, data):
        assert isinstance(data, bytes)
        self.writes.append(data)
        text = data.decode('ascii').strip()
        if len(text) == 1 or text[1] == ',':
            name = text[0]
        else:
            name = text[0:2]
        if self.fail_after is not None and len(self.writes) > self.fail_after:
            reply = '!8 Err: garbage'
        elif name == 'QE':
            reply = 'XX,nonsense' if self.bad_qe else 'QE,%d,%d' % self.qe
        elif name == 'QL':
            reply = 'QL,%d' % self.ql
        else:
            reply = name
        self.queue.append((reply + '\r\n').encode('ascii'))

    def readline(self):
        if self.queue:
            return self.queue.pop(0)
        return b''

    def sent(self):
        return [w.decode('ascii') for w in self.writes]


def v3(**kw):
    ebb = ebb3_motion.EBBMotionWrap()
    ebb.port = V3Port(**kw)
    return ebb


def legacy_sent(func, *args, **kwargs):
    port = LegacyPort(kwargs.pop('_fw', '2.8.1'))
    ret = func(port, *args, **kwargs)
    check(ret is None, 'legacy %s%r returned %r' % (func.__name__, args, ret))
    return port.sent()


def v3_sent(method, *args, **kwargs):
    ebb = v3(**{k[1:]: kwargs.pop(k) for k in list(kwargs) if k.startswith('_')})
    ret = getattr(ebb, method)(*args, **kwargs)
    return ebb.port.sent(), ret, ebb


def both(desc, expected, leg_func, leg_args, v3_method, v3_args, leg_kw=None, v3_kw=None):
    ''' expected: list of command strings without the trailing CR '''
    want = [e + '\r' for e in expected]
    got_l = legacy_sent(leg_func, *leg_args, **(leg_kw or {}))
    got_3, ret3, ebb = v3_sent(v3_method, *v3_args, **(v3_kw or {}))
    check(got_l == want, 'legacy %s: sent %r, expected %r' % (desc, got_l, want))
    check(got_3 == want, 'EBB3 %s: sent %r, expected %r' % (desc, got_3, want))
    check(got_l == got_3, 'layers disagree for %s: %r vs %r' % (desc, got_l, got_3))
    check(ret3 is None and ebb.err is None, 'EBB3 %s: ret %r err %r' % (desc, ret3, ebb.err))


INTS = [-2147483648, -70000, -751, -750, -1, 0, 1, 2, 5, 6, 749, 750, 751, 65535, 2147483647]
SMALL = [-32768, -1, 0, 1, 7, 65535]


# ---------------------------------------------------------------------------
# XY move: SM,<duration>,<axis1 = Y>,<axis2 = X>
# ---------------------------------------------------------------------------
for dx, dy, dur in itertools.product(INTS, INTS, [-1, 0, 1, 750, 16777215]):
    both('xy_move(%d,%d,%d)' % (dx, dy, dur), ['SM,%d,%d,%d' % (dur, dy, dx)],
         ebb_motion.doXYMove, (dx, dy, dur), 'xy_move', (dx, dy, dur))
# keyword form
both('xy_move kw', ['SM,9,-3,4'], ebb_motion.doXYMove, (), 'xy_move', (),
     leg_kw=dict(delta_x=4, delta_y=-3, duration=9), v3_kw=dict(delta_x=4, delta_y=-3, duration=9))

# ---------------------------------------------------------------------------
# AB move (legacy only): XM,<duration>,<A>,<B>
# ---------------------------------------------------------------------------
for da, db, dur in itertools.product(SMALL, SMALL, [-1, 0, 1, 750]):
    got = legacy_sent(ebb_motion.doABMove, da, db, dur)
    check(got == ['XM,%d,%d,%d\r' % (dur, da, db)], 'doABMove(%d,%d,%d): %r' % (da, db, dur, got))

# ---------------------------------------------------------------------------
# Absolute / home move: HM,<rate>[,<p1>,<p2>]
# ---------------------------------------------------------------------------
for rate, p1, p2 in itertools.product([-1, 0, 1, 25000], [None] + SMALL, [None] + SMALL):
    if p1 is not None and p2 is not None:
        exp = ['HM,%d,%d,%d' % (rate, p1, p2)]
    else:
        exp = ['HM,%d' % rate]
    both('abs_move(%r,%r,%r)' % (rate, p1, p2), exp,
         ebb_motion.doAbsMove, (rate, p1, p2), 'abs_move', (rate, p1, p2))
for rate in INTS:
    both('abs_move(%r)' % rate, ['HM,%d' % rate], ebb_motion.doAbsMove, (rate,), 'abs_move', (rate,))
both('abs_move kw p2 only', ['HM,5'], ebb_motion.doAbsMove, (5,), 'abs_move', (5,),
     leg_kw=dict(position2=0), v3_kw=dict(position2=0))
both('abs_move kw both', ['HM,5,0,0'], ebb_motion.doAbsMove, (5,), 'abs_move', (5,),
     leg_kw=dict(position2=0, position1=0), v3_kw=dict(position2=0, position1=0))

# ---------------------------------------------------------------------------
# Low-level move (legacy only): LM,<r1>,<s1>,<a1>,<r2>,<s2>,<a2>[,<clear>]
# suppressed only when neither axis can move
# ---------------------------------------------------------------------------
LMV = [-5, 0, 1, 3]
for r1, s1, a1, r2, s2, a2 in itertools.product(LMV, repeat=6):
    idle1 = (s1 == 0) or (r1 == 0 and a1 == 0)
    idle2 = (s2 == 0) or (r2 == 0 and a2 == 0)
    for clear in (None, 0, 1, 3):
        if idle1 and idle2:
            exp = []
        elif clear is None:
            exp = ['LM,%d,%d,%d,%d,%d,%d\r' % (r1, s1, a1, r2, s2, a2)]
        else:
            exp = ['LM,%d,%d,%d,%d,%d,%d,%d\r' % (r1, s1, a1, r2, s2, a2, clear)]
        port = LegacyPort()
        if clear is None:
            ret = ebb_motion.doLowLevelMove(port, r1, s1, a1, r2, s2, a2)
        else:
            ret = ebb_motion.doLowLevelMove(port, r1, s1, a1, r2, s2, a2, clear)
        check(ret is None and port.sent() == exp,
              'doLowLevelMove%r clear=%r: %r expected %r' % ((r1, s1, a1, r2, s2, a2), clear, port.sent(), exp))
got = legacy_sent(ebb_motion.doLowLevelMove, 2147483647, -2147483648, -2147483647, 1, 0, 0, clear=2)
check(got == ['LM,2147483647,-2147483648,-2147483647,1,0,0,2\r'], 'LM big: %r' % got)
got = legacy_sent(ebb_motion.doLowLevelMove, 0, 5, 0, 7, 0, 7, clear=0)
check(got == [], 'LM idle (rate/accel zero; steps zero): %r' % got)

# ---------------------------------------------------------------------------
# Timed pause
# ---------------------------------------------------------------------------
def pause_oracle(n):
    out = []
    if n >= 1:
        out = [750] * (n // 750)
        if n % 750:
            out.append(n % 750)
    return out

PAUSES = list(range(-3, 2300)) + [-100000, 7499, 7500, 7501, 74999, 75000, 75001, 123456]
for n in PAUSES:
    exp = ['SM,%d,0,0\r' % d for d in pause_oracle(n)]
    got_l = legacy_sent(ebb_motion.doTimedPause, n)
    got_3, ret3, ebb = v3_sent('timed_pause', n)
    for name, got in (('legacy', got_l), ('EBB3', got_3)):
        durs = []
        ok = True
        for text in got:
            parts = text.rstrip('\r').split(',')
            if not (text.endswith('\r') and len(parts) == 4 and parts[0] == 'SM'
                    and parts[2] == '0' and parts[3] == '0'):
                ok = False
                break
            durs.append(int(parts[1]))
        check(ok, '%s pause %d: malformed %r' % (name, n, got))
        check(all(1 <= d <= 750 for d in durs), '%s pause %d: chunk out of 1..750: %r' % (name, n, durs))
        check(sum(durs) == (n if n >= 1 else 0), '%s pause %d: sum %d' % (name, n, sum(durs)))
        check((len(durs) == 0) == (n <= 0), '%s pause %d: emptiness' % (name, n))
        check(got == exp, '%s pause %d: sent %r expected %r' % (name, n, got[:4], exp[:4]))
    check(got_l == got_3, 'layers disagree on pause %d' % n)
    check(ret3 is None and ebb.err is None, 'EBB3 pause %d ret/err' % n)

# pause interrupted by a device error on the second command: nothing more is sent
ebb = v3(fail_after=1)
ebb.timed_pause(3000)
check(ebb.port.sent() == ['SM,750,0,0\r', 'SM,750,0,0\r'], 'pause with fault: %r' % ebb.port.sent())
check(ebb.err is not None, 'pause with fault: err not recorded')

# ---------------------------------------------------------------------------
# Motors
# ---------------------------------------------------------------------------
both('motors disable', ['EM,0,0'], ebb_motion.sendDisableMotors, (), 'motors_disable', ())

def clamp(v):
    return 0 if v < 0 else (5 if v > 5 else v)

for res in list(range(-4, 10)) + [-1000, 1000]:
    c = clamp(res)
    both('enable motors res=%d' % res, ['EM,%d,%d' % (c, c)],
         ebb_motion.sendEnableMotors, (res,), 'motors_enable', (res, res))

QE_DECODE = {16: 1, 8: 2, 4: 3, 2: 4, 1: 5, 0: 0}
QE_STATES = [(0, 0), (16, 16), (8, 8), (4, 4), (2, 2), (1, 1), (16, 0), (0, 16),
             (4, 0), (0, 8), (0, 1), (2, 0)]
for r1, r2 in itertools.product(range(-2, 9), repeat=2):
    c1, c2 = clamp(r1), clamp(r2)
    for qe in QE_STATES:
        exp = []
        if (c1 == 0) != (c2 == 0):
            exp.append('CU,50,0')
        if c1 == 0 and c2 != 0:
            exp.append('QE')
            m1, m2 = QE_DECODE[qe[0]], QE_DECODE[qe[1]]
            old = m1 if m1 != 0 else m2
            if old != c2:
                exp.append('EM,%d,%d' % (c2, c2))
        exp.append('EM,%d,%d' % (c1, c2))
        got, ret, ebb = v3_sent('motors_enable', r1, r2, _qe=qe)
        check(got == [e + '\r' for e in exp] and ret is None and ebb.err is None,
              'motors_enable(%d,%d) qe=%r: %r expected %r' % (r1, r2, qe, got, exp))
# QE failure while enabling motor 2 only: stop after the query
got, ret, ebb = v3_sent('motors_enable', 0, 3, _bad_qe=True)
check(got == ['CU,50,0\r', 'QE\r'] and ret is None and ebb.err is not None,
      'motors_enable with QE failure: %r' % got)
# resolutions are passed through int()
got, ret, ebb = v3_sent('motors_enable', '2', 7.9)
check(got == ['EM,2,5\r'], 'motors_enable("2", 7.9): %r' % got)
got, ret, ebb = v3_sent('motors_enable', 1.9, 1.2)
check(got == ['EM,1,1\r'], 'motors_enable(1.9, 1.2): %r' % got)

for method, text in (('clear_steps', 'CS'), ('clear_accumulators', 'T3,1,0,0,0,0,0,0,3')):
    got, ret, ebb = v3_sent(method)
    check(got == [text + '\r'] and ret is None and ebb.err is None, '%s: %r' % (method, got))

# ---------------------------------------------------------------------------
# Pen
# ---------------------------------------------------------------------------
for delay, pin in itertools.product(INTS, [None, -1, 0, 1, 2, 3, 7]):
    for state, leg, meth in ((0, ebb_motion.sendPenDown, 'pen_lower'), (1, ebb_motion.sendPenUp, 'pen_raise')):
        if pin is None:
            exp = ['SP,%d,%d' % (state, delay)]
        else:
            exp = ['SP,%d,%d,%d' % (state, delay, pin)]
        both('%s(%d,%r)' % (meth, delay, pin), exp, leg, (delay, pin), meth, (delay, pin))
        if pin is None:
            both('%s(%d)' % (meth, delay), exp, leg, (delay,), meth, (delay,))
        else:
            both('%s(%d,pin=%r)' % (meth, delay, pin), exp, leg, (delay,), meth, (delay,),
                 leg_kw=dict(pin=pin), v3_kw=dict(pin=pin))

got = legacy_sent(ebb_motion.TogglePen)
check(got == ['TP\r'], 'TogglePen: %r' % got)

for val in INTS:
    both('pen down pos', ['SC,5,%d' % val], ebb_motion.setPenDownPos, (val,), 'pen_pos_down', (val,))
    both('pen up pos', ['SC,4,%d' % val], ebb_motion.setPenUpPos, (val,), 'pen_pos_up', (val,))
    both('pen down rate', ['SC,12,%d' % val], ebb_motion.setPenDownRate, (val,), 'pen_rate_down', (val,))
    both('pen up rate', ['SC,11,%d' % val], ebb_motion.setPenUpRate, (val,), 'pen_rate_up', (val,))

# ---------------------------------------------------------------------------
# Digital I/O
# ---------------------------------------------------------------------------
for pin, state in itertools.product([-1, 0, 1, 2, 3, 7, 8], [-1, 0, 1, 2]):
    both('b config out', ['PO,B,%d,%d' % (pin, state), 'PD,B,%d,0' % pin],
         ebb_motion.PBOutConfig, (pin, state), 'dio_b_config', (pin, state, 0))
    both('b set', ['PO,B,%d,%d' % (pin, state)],
         ebb_motion.PBOutValue, (pin, state), 'dio_b_set', (pin, state))
    for direction in (-1, 0, 1, 2):
        got, ret, ebb = v3_sent('dio_b_config', pin, state, direction)
        exp = ['PO,B,%d,%d\r' % (pin, state), 'PD,B,%d,%d\r' % (pin, direction)]
        check(got == exp and ret is None and ebb.err is None, 'dio_b_config: %r expected %r' % (got, exp))

# ---------------------------------------------------------------------------
# Servo timeout: SR,<ms>[,<state>]
# ---------------------------------------------------------------------------
for ms, state in itertools.product(INTS, [None, -1, 0, 1, 2]):
    exp = 'SR,%d' % ms if state is None else 'SR,%d,%d' % (ms, state)
    for use_kw in (False, True):
        if state is None and not use_kw:
            la, lk = (ms,), {}
        elif use_kw:
            la, lk = (ms,), dict(state=state)
        else:
            la, lk = (ms, state), {}
        got_l = legacy_sent(ebb_motion.servo_timeout, *la, **lk)
        got_3, ret3, ebb = v3_sent('servo_timeout', *la, **lk)
        check(got_l == ['V\r', exp + '\r'], 'legacy servo_timeout(%r,%r): %r' % (ms, state, got_l))
        check(got_3 == [exp + '\r'] and ret3 is None and ebb.err is None,
              'EBB3 servo_timeout(%r,%r): %r' % (ms, state, got_3))
        check(got_l[1:] == got_3, 'layers disagree on servo_timeout(%r,%r)' % (ms, state))
for fw in ('2.5.9', '2.0.0', '1.9.9'):
    got = legacy_sent(ebb_motion.servo_timeout, 1000, 1, _fw=fw)
    check(got == ['V\r'], 'legacy servo_timeout on old firmware %s: %r' % (fw, got))
for fw in ('2.6.0', '2.6.1', '3.0.2', '2.10.0'):
    got = legacy_sent(ebb_motion.servo_timeout, 0, 0, _fw=fw)
    check(got == ['V\r', 'SR,0,0\r'], 'legacy servo_timeout on firmware %s: %r' % (fw, got))

# ---------------------------------------------------------------------------
# Layer variable / RAM variables
# ---------------------------------------------------------------------------
for val in [-1, 0, 1, 127, 255, 256]:
    got = legacy_sent(ebb_motion.setEBBLV, val)
    check(got == ['SL,%d\r' % val], 'setEBBLV(%d): %r' % (val, got))
    for index in [-1, 0, 1, 5, 31, 32]:
        got, ret, ebb = v3_sent('var_write', val, index)
        check(got == ['SL,%d,%d\r' % (val, index)] and ret is True and ebb.err is None,
              'var_write(%d,%d): %r ret %r' % (val, index, got, ret))
for index in [-1, 0, 1, 5, 31, 32]:
    for stored in (0, 17, 255):
        got, ret, ebb = v3_sent('var_read', index, _ql=stored)
        check(got == ['QL,%d\r' % index] and ret == stored and type(ret) is int and ebb.err is None,
              'var_read(%d): %r ret %r' % (index, got, ret))
# faults: var_write -> False, var_read -> None; error recorded, sent text unchanged
got, ret, ebb = v3_sent('var_write', 3, 4, _fail_after=0)
check(got == ['SL,3,4\r'] and ret is False and ebb.err is not None, 'var_write fault: %r %r' % (got, ret))
got, ret, ebb = v3_sent('var_read', 4, _fail_after=0)
check(got == ['QL,4\r'] and ret is None and ebb.err is not None, 'var_read fault: %r %r' % (got, ret))
# 32-bit helpers are built on var_write / var_read
ebb = v3()
check(ebb.var_write_int32(-2, 10) is True, 'var_write_int32 ret')
check(ebb.port.sent() == ['SL,255,10\r', 'SL,255,11\r', 'SL,255,12\r', 'SL,254,13\r'],
      'var_write_int32: %r' % ebb.port.sent())
ebb = v3(ql=1)
check(ebb.var_read_int32(4) == 0x01010101, 'var_read_int32 value')
check(ebb.port.sent() == ['QL,4\r', 'QL,5\r', 'QL,6\r', 'QL,7\r'], 'var_read_int32: %r' % ebb.port.sent())

# ---------------------------------------------------------------------------
# The legacy helpers hand exactly (port, text, verbose) to ebb_serial.command,
# and with no port nothing at all is handed over.
# ---------------------------------------------------------------------------
LEGACY_CALLS = [
    (ebb_motion.doABMove, (1, 0, 3), ['XM,3,1,0\r']),
    (ebb_motion.doTimedPause, (1501,), ['SM,750,0,0\r', 'SM,750,0,0\r', 'SM,1,0,0\r']),
    (ebb_motion.doTimedPause, (0,), []),
    (ebb_motion.doLowLevelMove, (1, 2, 3, 4, 5, 6), ['LM,1,2,3,4,5,6\r']),
    (ebb_motion.doLowLevelMove, (1, 2, 3, 4, 5, 6, 0), ['LM,1,2,3,4,5,6,0\r']),
    (ebb_motion.doLowLevelMove, (0, 2, 0, 4, 0, 6, 0), []),
    (ebb_motion.doXYMove, (0, -2, 0), ['SM,0,-2,0\r']),
    (ebb_motion.doAbsMove, (100,), ['HM,100\r']),
    (ebb_motion.doAbsMove, (100, 0, 0), ['HM,100,0,0\r']),
    (ebb_motion.doAbsMove, (100, 0, None), ['HM,100\r']),
    (ebb_motion.doAbsMove, (100, None, 0), ['HM,100\r']),
    (ebb_motion.sendDisableMotors, (), ['EM,0,0\r']),
    (ebb_motion.sendEnableMotors, (9,), ['EM,5,5\r']),
    (ebb_motion.sendEnableMotors, (-9,), ['EM,0,0\r']),
    (ebb_motion.sendPenDown, (0,), ['SP,0,0\r']),
    (ebb_motion.sendPenDown, (0, 0), ['SP,0,0,0\r']),
    (ebb_motion.sendPenUp, (0,), ['SP,1,0\r']),
    (ebb_motion.sendPenUp, (0, 0), ['SP,1,0,0\r']),
    (ebb_motion.PBOutConfig, (0, 0), ['PO,B,0,0\r', 'PD,B,0,0\r']),
    (ebb_motion.PBOutValue, (3, 1), ['PO,B,3,1\r']),
    (ebb_motion.TogglePen, (), ['TP\r']),
    (ebb_motion.setPenDownPos, (0,), ['SC,5,0\r']),
    (ebb_motion.setPenDownRate, (0,), ['SC,12,0\r']),
    (ebb_motion.setPenUpPos, (0,), ['SC,4,0\r']),
    (ebb_motion.setPenUpRate, (0,), ['SC,11,0\r']),
    (ebb_motion.setEBBLV, (0,), ['SL,0\r']),
    (ebb_motion.servo_timeout, (0,), ['SR,0\r']),
    (ebb_motion.servo_timeout, (0, 0), ['SR,0,0\r']),
]

recorded = []
orig_command, orig_query, orig_minv = ebb_serial.command, ebb_serial.query, ebb_serial.min_version
ebb_serial.command = lambda *a, **k: recorded.append(('command', a, k))
ebb_serial.query = lambda *a, **k: recorded.append(('query', a, k))
ebb_serial.min_version = lambda port, ver: (recorded.append(('min_version', (port, ver), {})) or True)
try:
    token = object()
    for func, args, texts in LEGACY_CALLS:
        for verbose_args, verbose_expected in (((), True), ((False,), False), ((True,), True)):
            del recorded[:]
            if verbose_args:
                ret = func(token, *args, verbose=verbose_args[0])
            else:
                ret = func(token, *args)
            sent = [r for r in recorded if r[0] != 'min_version']
            ok = (ret is None and len(sent) == len(texts))
            for rec, text in zip(sent, texts):
                kind, a, k = rec
                flat = list(a) + [k[key] for key in ('verbose',) if key in k]
                ok = ok and kind == 'command' and len(flat) == 3 and flat[0] is token \
                    and flat[1] == text and flat[2] is verbose_expected \
                    and set(k) <= {'verbose'}
            check(ok, 'legacy %s%r verbose=%r handed %r, expected texts %r'
                  % (func.__name__, args, verbose_args, recorded, texts))
            minv = [r for r in recorded if r[0] == 'min_version']
            if func is ebb_motion.servo_timeout:
                check(minv == [('min_version', (token, '2.6.0'), {})] and recorded[0][0] == 'min_version',
                      'servo_timeout version gate: %r' % recorded)
            else:
                check(minv == [], '%s: unexpected version query' % func.__name__)
        # no port: nothing at all
        del recorded[:]
        ret = func(None, *args)
        check(ret is None and recorded == [], 'legacy %s with no port: %r' % (func.__name__, recorded))
        del recorded[:]
        ret = func(None, *args, verbose=False)
        check(ret is None and recorded == [], 'legacy %s with no port: %r' % (func.__name__, recorded))
finally:
    ebb_serial.command, ebb_serial.query, ebb_serial.min_version = orig_command, orig_query, orig_minv

# ---------------------------------------------------------------------------
# EBB3 layer: with no port, or after a recorded error, nothing is sent.
# ---------------------------------------------------------------------------
class Spy(ebb3_motion.EBBMotionWrap):
    def __init__(self):
        ebb3_motion.EBBMotionWrap.__init__(self)
        self.calls = []

    def command(self, cmd):
        self.calls.append(('command', cmd))
        return ebb3_motion.EBBMotionWrap.command(self, cmd)

    def query(self, qry):
        self.calls.append(('query', qry))
        return ebb3_motion.EBBMotionWrap.query(self, qry)


V3_CALLS = [
    ('timed_pause', (1501,), None), ('xy_move', (1, 2, 3), None), ('abs_move', (5,), None),
    ('abs_move', (5, 0, 0), None), ('motors_disable', (), None), ('motors_enable', (1, 1), None),
    ('motors_enable', (0, 2), None), ('motors_enable', (2, 0), None),
    ('clear_steps', (), None), ('clear_accumulators', (), None),
    ('pen_lower', (0,), None), ('pen_lower', (0, 1), None), ('pen_raise', (0,), None),
    ('pen_raise', (0, 1), None), ('dio_b_config', (0, 0, 0), None), ('dio_b_set', (0, 0), None),
    ('pen_pos_down', (0,), None), ('pen_pos_up', (0,), None), ('pen_rate_down', (0,), None),
    ('pen_rate_up', (0,), None), ('servo_timeout', (0,), None), ('servo_timeout', (0, 0), None),
    ('var_write', (0, 0), False), ('var_read', (0,), None),
]
for method, args, expected_ret in V3_CALLS:
    spy = Spy()                       # no port
    ret = getattr(spy, method)(*args)
    check(ret is expected_ret and spy.calls == [] and spy.err is None,
          'EBB3 %s with no port: ret %r calls %r' % (method, ret, spy.calls))
    spy = Spy()                       # port present but an error was recorded earlier
    spy.port = V3Port()
    spy.err = 'earlier failure'
    ret = getattr(spy, method)(*args)
    check(ret is expected_ret and spy.port.writes == [] and spy.calls == [] and spy.err == 'earlier failure',
          'EBB3 %s after error: ret %r writes %r calls %r' % (method, ret, spy.port.writes, spy.calls))

# the texts handed to self.command carry no CR (it is added by command itself)
EXPECT_CMDS = {
    ('timed_pause', (1501,)): ['SM,750,0,0', 'SM,750,0,0', 'SM,1,0,0'],
    ('xy_move', (1, 2, 3)): ['SM,3,2,1'],
    ('abs_move', (5,)): ['HM,5'],
    ('abs_move', (5, 0, 0)): ['HM,5,0,0'],
    ('motors_disable', ()): ['EM,0,0'],
    ('motors_enable', (1, 1)): ['EM,1,1'],
    ('motors_enable', (2, 0)): ['CU,50,0', 'EM,2,0'],
    ('clear_steps', ()): ['CS'],
    ('clear_accumulators', ()): ['T3,1,0,0,0,0,0,0,3'],
    ('pen_lower', (0,)): ['SP,0,0'], ('pen_lower', (0, 1)): ['SP,0,0,1'],
    ('pen_raise', (0,)): ['SP,1,0'], ('pen_raise', (0, 1)): ['SP,1,0,1'],
    ('dio_b_config', (0, 0, 0)): ['PO,B,0,0', 'PD,B,0,0'],
    ('dio_b_set', (0, 0)): ['PO,B,0,0'],
    ('pen_pos_down', (0,)): ['SC,5,0'], ('pen_pos_up', (0,)): ['SC,4,0'],
    ('pen_rate_down', (0,)): ['SC,12,0'], ('pen_rate_up', (0,)): ['SC,11,0'],
    ('servo_timeout', (0,)): ['SR,0'], ('servo_timeout', (0, 0)): ['SR,0,0'],
    ('var_write', (0, 0)): ['SL,0,0'],
}
for (method, args), cmds in EXPECT_CMDS.items():
    spy = Spy()
    spy.port = V3Port()
    getattr(spy, method)(*args)
    check(spy.calls == [('command', c) for c in cmds] and spy.port.sent() == [c + '\r' for c in cmds],
          'EBB3 %s%r: calls %r' % (method, args, spy.calls))
spy = Spy()
spy.port = V3Port(qe=(0, 4))
spy.motors_enable(0, 2)
check(spy.calls == [('command', 'CU,50,0'), ('query', 'QE'), ('command', 'EM,2,2'), ('command', 'EM,0,2')],
      'EBB3 motors_enable(0,2): %r' % spy.calls)
spy = Spy()
spy.port = V3Port()
spy.var_read(3)
check(spy.calls == [('query', 'QL,3')], 'EBB3 var_read: %r' % spy.calls)

# ---------------------------------------------------------------------------
n_fail = len(FAILS)
if n_fail:
    for msg in FAILS:
        if msg is not None:
            print('FAIL:', msg)
    print('%d of %d checks FAILED' % (n_fail, N_CHECKS[0]))
    sys.exit(1)
print('C06 demo: all %d checks passed' % N_CHECKS[0])
sys.exit(0)
