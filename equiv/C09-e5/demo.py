import os, sys; sys.path.insert(0, os.environ.get('PLOTINK_ROOT', '/tmp/wtf_C09'))
"""
Evidence program for property C09 (vertex reduction keeps the path within tolerance).

Checks, against oracles that are written independently of the library code:

  A. supersample() only deletes vertices: the result is an in-order subsequence of the
     very same vertex objects, keeps first and last vertex, returns None, and every
     deleted vertex is strictly closer than `tolerance` to the segment joining the
     surviving neighbours (exact rational arithmetic, clamped-projection formulation).
  B. supersample() gives exactly the documented greedy result (oracle greedy driven by
     the exact rational distance on integer-grid inputs, where float arithmetic is exact;
     and by a float reference predicate on random float inputs).
  C. Lists of <= 2 vertices and tolerances <= 0 are left unchanged.
  D. points_in_tolerance() agrees with `max_dist_from_n_points() < tolerance` and with
     the exact oracle; neither mutates its input; both insist on >= 3 points.
  E. max_dist_from_n_points() equals the exact maximum distance.
  F. Hand-written edge cases: repeated points, collinear runs, zero-length closing
     segments, sharp reversals, distance == tolerance boundaries, nan / inf tolerances.

Deterministic (fixed seeds); no hardware, no network; runs in a few seconds.
"""
import copy
import itertools
import math
import random
from fractions import Fraction

from plotink import plot_utils

CHECKS = 0


def check(cond, msg):
    global CHECKS
    CHECKS += 1
    if not cond:
        print("FAIL:", msg)
        sys.exit(1)


# ----------------------------------------------------------------------------- oracles

def exact_d2(p, a, b):
    """Exact squared distance from p to segment ab (clamped projection), as a Fraction."""
    px, py = Fraction(p[0]), Fraction(p[1])
    ax, ay = Fraction(a[0]), Fraction(a[1])
    bx, by = Fraction(b[0]), Fraction(b[1])
    ux, uy = bx - ax, by - ay
    seg2 = ux * ux + uy * uy
    if seg2 == 0:
        cx, cy = ax, ay
    else:
        t = ((px - ax) * ux + (py - ay) * uy) / seg2
        t = min(Fraction(1), max(Fraction(0), t))
        cx, cy = ax + t * ux, ay + t * uy
    return (px - cx) ** 2 + (py - cy) ** 2


def exact_max_d2(points):
    return max(exact_d2(p, points[0], points[-1]) for p in points[1:-1])


def exact_pred(points, tol):
    """All interior points strictly closer than tol to segment first-last (exact)."""
    return exact_max_d2(points) < Fraction(tol) ** 2


def float_pred(points, tol):
    """Float reference of the documented predicate (same IEEE operations, other shape)."""
    t2 = tol * tol
    ax, ay = points[0]
    bx, by = points[-1]
    ux, uy = bx - ax, by - ay
    for px, py in points[1:-1]:
        wx, wy = px - ax, py - ay
        c1 = wx * ux + wy * uy
        if c1 <= 0:
            d2 = wx * wx + wy * wy
        else:
            c2 = ux * ux + uy * uy
            if c2 <= c1:
                d2 = (px - bx) * (px - bx) + (py - by) * (py - by)
            elif c2 == 0:
                return False
            else:
                cross = wx * uy - ux * wy
                d2 = cross * cross / c2
        if d2 >= t2:
            return False
    return True


def greedy(orig, tol, pred):
    """Documented greedy algorithm, non-mutating, on indices of the original list."""
    orig = list(orig)
    n = len(orig)
    if n <= 2 or tol <= 0:
        return orig
    out = [orig[0]]                    # the first vertex can never be removed
    anchor = 0
    while anchor < n - 2:
        end = anchor + 2
        while end < n and pred(orig[anchor:end + 1], tol):
            end += 1                   # vertices anchor+1 .. end-1 are all within tolerance
        anchor = end - 1               # last vertex that worked as the far end of the chord
        out.append(orig[anchor])
    out.extend(orig[anchor + 1:])      # at most the final vertex is left over
    return out


def same_objects(a, b):
    return len(a) == len(b) and all(x is y for x, y in zip(a, b))


def check_only_deletes(orig, result, tol, slack, label):
    """Property A for one run. slack is a relative allowance on tol**2 (0 = exact)."""
    check(len(result) >= 2 and result[0] is orig[0] and result[-1] is orig[-1],
          "%s: first/last vertex not kept" % label)
    pos = []
    j = 0
    for v in result:
        while j < len(orig) and orig[j] is not v:
            j += 1
        check(j < len(orig), "%s: result is not an in-order subsequence" % label)
        pos.append(j)
        j += 1
    check(pos[0] == 0 and pos[-1] == len(orig) - 1, "%s: ends moved" % label)
    limit = Fraction(tol) ** 2 * (1 + Fraction(slack))
    for a, b in zip(pos, pos[1:]):
        for k in range(a + 1, b):
            check(exact_d2(orig[k], orig[a], orig[b]) < limit,
                  "%s: deleted vertex %d is not within tolerance of segment %d-%d"
                  % (label, k, a, b))


def run_supersample(orig, tol):
    check(len(set(map(id, orig))) == len(orig), "test vertices must be distinct objects")
    work = list(orig)
    snapshot = copy.deepcopy(orig)
    ret = plot_utils.supersample(work, tol)
    check(ret is None, "supersample must return None")
    check(orig == snapshot, "vertex objects must not be mutated")
    return work


# ----------------------------------------------------------------------------- generators

def grid_path(rng, n, span, as_list):
    mk = (lambda v: list(v)) if as_list else (lambda v: tuple(list(v)))   # always a new object
    pts = []
    for _ in range(n):
        style = rng.random()
        if pts and style < 0.15:
            pts.append(mk(pts[-1]))                       # repeated point
        elif len(pts) >= 2 and style < 0.35:              # collinear continuation
            dx, dy = pts[-1][0] - pts[-2][0], pts[-1][1] - pts[-2][1]
            pts.append(mk((pts[-1][0] + dx, pts[-1][1] + dy)))
        elif len(pts) >= 2 and style < 0.45:              # sharp reversal
            pts.append(mk(pts[-2]))
        elif pts and style < 0.55:                        # small wiggle
            pts.append(mk((pts[-1][0] + rng.randint(-1, 1), pts[-1][1] + rng.randint(-1, 1))))
        else:
            pts.append(mk((rng.randint(-span, span), rng.randint(-span, span))))
    if n >= 3 and rng.random() < 0.25:
        pts[-1] = mk(pts[0])                              # zero-length closing segment
    return pts


def float_path(rng, n):
    pts = []
    x, y = rng.uniform(-50, 50), rng.uniform(-50, 50)
    heading = rng.uniform(0, 2 * math.pi)
    for _ in range(n):
        pts.append((x, y))
        r = rng.random()
        if r < 0.1:
            continue                                      # repeated point
        if r < 0.2:
            heading += math.pi                            # sharp reversal
        elif r < 0.6:
            heading += rng.gauss(0, 0.05)                 # nearly straight
        else:
            heading += rng.gauss(0, 1.0)
        step = rng.choice([0.01, 0.3, 1.0, 4.0])
        x += step * math.cos(heading)
        y += step * math.sin(heading)
    if n >= 3 and rng.random() < 0.2:
        pts[-1] = tuple(list(pts[0]))                     # equal value, distinct object
    return pts


GRID_TOLS = [-2, -0.5, 0, 0.25, 0.5, 1, 1.5, 2, 2.5, 3, 5, 7.5, 13, 40, 1000]
FLOAT_TOLS = [-1.0, 0.0, 1e-9, 0.003, 0.02, 0.1, 0.37, 1.0, 2.5, 9.0, 1e6]


# ----------------------------------------------------------------------------- A, B, C

def section_supersample_grid():
    rng = random.Random(90901)
    for trial in range(400):
        n = rng.choice([0, 1, 2, 3, 3, 4, 5, 6, 8, 11, 17, 30])
        span = rng.choice([2, 4, 9, 30])
        orig = grid_path(rng, n, span, as_list=bool(trial % 2))
        for tol in rng.sample(GRID_TOLS, 6):
            label = "grid trial %d n=%d tol=%r" % (trial, n, tol)
            result = run_supersample(orig, tol)
            if n <= 2 or tol <= 0:
                check(same_objects(result, orig), label + ": must be unchanged")
                continue
            check_only_deletes(orig, result, tol, 0, label)
            expected = greedy(orig, tol, exact_pred)
            check(same_objects(result, expected), label + ": not the documented greedy result")


def section_supersample_float():
    rng = random.Random(424242)
    for trial in range(250):
        n = rng.choice([0, 1, 2, 3, 4, 5, 7, 12, 25, 60])
        orig = float_path(rng, n)
        for tol in rng.sample(FLOAT_TOLS, 5):
            label = "float trial %d n=%d tol=%r" % (trial, n, tol)
            result = run_supersample(orig, tol)
            if n <= 2 or tol <= 0:
                check(same_objects(result, orig), label + ": must be unchanged")
                continue
            check_only_deletes(orig, result, tol, Fraction(1, 10 ** 9), label)
            expected = greedy(orig, tol, float_pred)
            check(same_objects(result, expected), label + ": not the documented greedy result")


# ----------------------------------------------------------------------------- D, E

def section_predicate_and_reference():
    rng = random.Random(777)
    for trial in range(2000):
        n = rng.choice([3, 3, 4, 5, 6, 9])
        span = rng.choice([1, 3, 8, 25])
        pts = grid_path(rng, n, span, as_list=bool(trial % 3))
        if trial % 4 == 0:
            pts = tuple(pts)           # subdivideCubicPath hands over a tuple
        snapshot = copy.deepcopy(pts)
        maxd = plot_utils.max_dist_from_n_points(pts)
        check(pts == snapshot, "max_dist_from_n_points mutated its input")
        ex2 = exact_max_d2(pts)
        check(math.isclose(maxd, math.sqrt(ex2), rel_tol=1e-12, abs_tol=0.0),
              "max_dist_from_n_points %r != exact %r for %r" % (maxd, math.sqrt(ex2), pts))
        root = math.isqrt(ex2.numerator)
        if ex2.denominator == 1 and root * root == ex2.numerator:
            check(maxd == root, "max_dist_from_n_points not exact on %r" % (pts,))
        for tol in GRID_TOLS:
            got = plot_utils.points_in_tolerance(pts, tol)
            check(pts == snapshot, "points_in_tolerance mutated its input")
            check(got is True or got is False, "points_in_tolerance must return a bool")
            check(got == (maxd < abs(tol)),
                  "predicate %r disagrees with reference measurement %r (tol %r) on %r"
                  % (got, maxd, tol, pts))
            check(got == (ex2 < Fraction(tol) ** 2),
                  "predicate %r disagrees with exact oracle (tol %r) on %r" % (got, tol, pts))

    rng = random.Random(31337)
    for trial in range(1500):
        pts = float_path(rng, rng.choice([3, 4, 5, 8, 15]))
        maxd = plot_utils.max_dist_from_n_points(pts)
        exd = math.sqrt(exact_max_d2(pts))
        check(math.isclose(maxd, exd, rel_tol=1e-9, abs_tol=1e-12),
              "float max_dist %r != exact %r" % (maxd, exd))
        for tol in FLOAT_TOLS:
            got = plot_utils.points_in_tolerance(pts, tol)
            check(got == float_pred(pts, tol), "predicate differs from float reference")
            if abs(maxd - abs(tol)) > 1e-9 * max(1.0, abs(tol)):
                check(got == (maxd < abs(tol)),
                      "float predicate %r disagrees with measurement %r, tol %r"
                      % (got, maxd, tol))

    if __debug__:
        for short in ([], [(0, 0)], [(0, 0), (1, 1)]):
            for func, args in ((plot_utils.points_in_tolerance, (short, 1.0)),
                               (plot_utils.max_dist_from_n_points, (short,))):
                try:
                    func(*args)
                except AssertionError:
                    check(True, "")
                else:
                    check(False, "%s accepted %d points" % (func.__name__, len(short)))


# ----------------------------------------------------------------------------- F

def section_hand_cases():
    nan = float('nan')
    inf = float('inf')
    cases = [
        # (vertices, tolerance, expected indices kept)
        ([(0, 0), (1, 3), (2, 0)], 3, [0, 1, 2]),             # perpendicular distance == tol: keep
        ([(0, 0), (1, 3), (2, 0)], 3.000001, [0, 2]),
        ([(0, 0), (-3, 4), (10, 0)], 5, [0, 1, 2]),           # before start, distance == tol
        ([(0, 0), (-3, 4), (10, 0)], 5.5, [0, 2]),
        ([(0, 0), (13, 4), (10, 0)], 5, [0, 1, 2]),           # past end, distance == tol
        ([(0, 0), (13, 4), (10, 0)], 5.5, [0, 2]),
        ([(0, 0), (10, 0), (0, 0)], 10, [0, 1, 2]),           # out and back, zero-length chord
        ([(0, 0), (10, 0), (0, 0)], 10.5, [0, 2]),
        ([(0, 0), (10, 0), (1, 0)], 9, [0, 1, 2]),            # sharp reversal
        ([(0, 0), (10, 0), (1, 0)], 9.5, [0, 2]),
        ([(0, 0), (0, 0), (0, 0), (0, 0)], 0.001, [0, 3]),    # all coincident
        ([(0, 0), (0, 0), (0, 0), (0, 0)], 0, [0, 1, 2, 3]),
        ([(0, 0), (1, 0), (2, 0), (3, 0), (4, 0), (5, 0)], 1e-12, [0, 5]),   # collinear run
        ([(0, 0), (1, 0), (2, 0), (2, 5), (2, 6), (2, 7)], 0.1, [0, 2, 5]),  # corner
        ([(0, 0), (4, 0), (4, 4), (0, 4), (0, 0)], 1, [0, 1, 2, 3, 4]),      # closed square
        ([(0, 0), (4, 0), (4, 4), (0, 4), (0, 0)], 100, [0, 4]),
        ([(0, 0), (1, 1), (2, 0), (3, 1), (4, 0)], 1.01, [0, 4]),
        ([(0, 0), (1, 1), (2, 0), (3, 1), (4, 0)], 1, [0, 1, 2, 3, 4]),
        ([(0, 0), (1, 0.4), (2, 0), (3, 9), (4, 0)], 0.5, [0, 2, 3, 4]),
        ([(0, 0), (5, 5), (9, 9)], -1, [0, 1, 2]),
        ([(0, 0), (5, 5), (9, 9)], -inf, [0, 1, 2]),
        ([(0, 0), (5, 500), (9, 9), (7, -300)], inf, [0, 3]),
        ([(0, 0), (5, 500), (9, 9), (7, -300)], nan, [0, 3]),  # nan is not <= 0; nothing is >= nan
        ([(0, 0), (5, 5)], 100, [0, 1]),
        ([(0, 0)], 100, [0]),
        ([], 100, []),
    ]
    for verts, tol, keep in cases:
        for mk in (tuple, list):
            orig = [mk(list(v)) for v in verts]            # distinct objects
            result = run_supersample(orig, tol)
            check(same_objects(result, [orig[i] for i in keep]),
                  "hand case %r tol %r: got %r" % (verts, tol, result))

    # the test-suite example of grouped deletions
    tol = .05
    verts = [(0, 10), (tol - .02, 9), (0, 8), (1, 8), (2, 8 + tol / 2), (3, 8 + tol / 3),
             (4, 8), (4, 7), (5, 7), (5, 6), (0, 0), (1, tol - .01), (2, 0)]
    check(run_supersample(verts, tol) ==
          [(0, 10), (0, 8), (4, 8), (4, 7), (5, 7), (5, 6), (0, 0), (2, 0)], "grouped deletions")

    # predicate boundaries and reference measurement on known values
    pit = plot_utils.points_in_tolerance
    check(plot_utils.max_dist_from_n_points([(0, 0), (5, 5), (10, 0)]) == 5, "maxdist 5")
    check(plot_utils.max_dist_from_n_points([(0, 0), (0, 3), (-4, 0), (4, -7), (10, 0)]) == 7,
          "maxdist 7")
    check(plot_utils.max_dist_from_n_points([(1, 1), (4, 5), (1, 1)]) == 5, "maxdist zero chord")
    check(pit([(0, 0), (5, 5), (10, 0)], 5) is False, "== tol is out of tolerance")
    check(pit([(0, 0), (5, 5), (10, 0)], 5.0001) is True, "just inside")
    check(pit([(0, 0), (5, 5), (10, 0)], -5.0001) is True, "tolerance enters squared")
    check(pit([(1, 1), (4, 5), (1, 1)], 5) is False, "zero chord == tol")
    check(pit([(1, 1), (4, 5), (1, 1)], 5.1) is True, "zero chord inside")
    check(pit([(0, 0), (0, 0), (0, 0)], 0) is False, "0 >= 0")
    check(pit([(0, 0), (1, 1), (2, 9), (3, 1), (4, 0)], 8) is False, "middle one out")
    check(pit([(0, 0), (1, 1), (2, 7), (3, 1), (4, 0)], 8) is True, "all in")
    check(pit(((0, 0), (1, 1), (2, 7), (3, 9), (4, 0)), 8) is False, "later one out, tuple input")
    check(pit([(0, 0), (nan, 1), (4, 0)], 8) is True, "nan coordinate compares False throughout")
    check(pit([(0, 0), (1, 1), (0, 0)], nan) is True, "nan tolerance")
    check(pit([(0, 0), (1, 1), (4, 0)], inf) is True, "inf tolerance")
    check(pit([(0.0, 0.0), (inf, 1.0), (0.0, 0.0)], 1.0) is False, "nan dot, zero chord")
    check(pit([(0.0, 0.0), (inf, 1.0), (0.0, 0.0)], nan) is False,
          "undefined distance is out of tolerance whatever the tolerance")
    check(pit([(0.0, 0.0), (inf, 1.0), (0.0, 0.0)], inf) is False, "same, inf tolerance")


def main():
    section_hand_cases()
    section_supersample_grid()
    section_supersample_float()
    section_predicate_and_reference()
    print("C09 demo OK: %d checks" % CHECKS)
    return 0


if __name__ == "__main__":
    sys.exit(main())
