import os, sys; sys.path.insert(0, os.environ.get('PLOTINK_ROOT', '/tmp/wte_C14'))
"""
Property C14 check: rtree.Index(...).intersection(q) == brute-force closed-box overlap,
and construction terminates.

Independent oracle: two closed boxes share a point iff, on each axis, the larger of the
two lower ends is <= the smaller of the two upper ends.

Besides the query property the demo compares the shape of the built tree (extents,
leaf/inner decision, order and contents of the four quadrant lists) with a reference
model written independently from the documented algorithm, so that a slip in the
quadrant table / helper wiring is caught even where it would not change query results.
"""
import copy
import itertools
import math
import random

from plotink import rtree

INF = math.inf
FAILS = []
COUNT = {"queries": 0, "trees": 0}


def fail(msg):
    FAILS.append(msg)
    if len(FAILS) <= 10:
        print("FAIL:", msg)


# ------------------------------------------------------------------ oracle
def oracle(boxes, query):
    qx1, qy1, qx2, qy2 = query
    hits = set()
    for ident, (bx1, by1, bx2, by2) in boxes:
        if max(bx1, qx1) <= min(bx2, qx2) and max(by1, qy1) <= min(by2, qy2):
            hits.add(ident)
    return hits


# ------------------------------------------------------------------ reference shape
def ref_shape(boxes):
    count = len(boxes)
    c_x = c_y = 0
    for _, (bx1, by1, bx2, by2) in boxes:
        c_x += (bx1 / 2 + bx2 / 2) / count
        c_y += (by1 / 2 + by2 / 2) / count
    extent = (
        min([b[1][0] for b in boxes], default=INF),
        min([b[1][1] for b in boxes], default=INF),
        max([b[1][2] for b in boxes], default=-INF),
        max([b[1][3] for b in boxes], default=-INF),
    )
    quads = [[], [], [], []]     # SW, SE, NW, NE (documented order)
    for item in boxes:
        _, (bx1, by1, bx2, by2) = item
        west, east = bx1 <= c_x, bx2 >= c_x
        south, north = by1 <= c_y, by2 >= c_y
        if west and south:
            quads[0].append(item)
        if east and south:
            quads[1].append(item)
        if west and north:
            quads[2].append(item)
        if east and north:
            quads[3].append(item)
    if count in [len(q) for q in quads]:
        return ("leaf", extent, [(i, tuple(b)) for i, b in boxes])
    return ("node", extent, [ref_shape(q) for q in quads])


def real_shape(index):
    extent = (index.xmin, index.ymin, index.xmax, index.ymax)
    if index.subtrees:
        if len(index.bboxes) != 0:
            fail("inner node also stores boxes")
        if len(index.subtrees) != 4:
            fail("inner node with %d subtrees" % len(index.subtrees))
        return ("node", extent, [real_shape(s) for s in index.subtrees])
    return ("leaf", extent, [(i, tuple(b)) for i, b in index.bboxes])


# ------------------------------------------------------------------ checking
def check(boxes, queries, label, shape=True):
    snapshot = copy.deepcopy(boxes)
    try:
        index = rtree.Index(boxes)
    except RecursionError:
        fail("%s: construction does not terminate (RecursionError) for %r" % (label, boxes[:6]))
        return
    COUNT["trees"] += 1
    if boxes != snapshot:
        fail("%s: input list was modified" % label)
    if shape and real_shape(index) != ref_shape(boxes):
        fail("%s: tree shape differs from reference for %r" % (label, boxes[:6]))
    for query in queries:
        COUNT["queries"] += 1
        got = index.intersection(query)
        want = oracle(boxes, query)
        if type(got) is not set:
            fail("%s: result is %s, not set" % (label, type(got).__name__))
        if got != want:
            fail("%s: query %r on %d boxes: missed %r extra %r"
                 % (label, query, len(boxes), sorted(map(repr, want - got))[:5],
                    sorted(map(repr, got - want))[:5]))
            continue
        if COUNT["queries"] % 6:
            continue
        # result must be a fresh object: mutating it must not disturb later queries
        got.add("poison")
        got.clear()
        again = index.intersection(query)
        if again != want:
            fail("%s: second identical query differs after mutating the first result" % label)


def grid_boxes(values):
    spans = [(a, b) for a in values for b in values if a <= b]
    return [(x1, y1, x2, y2) for (x1, x2) in spans for (y1, y2) in spans]


def random_box(rng, lo, hi, integer, degenerate_p=0.3, maxsize=None):
    def span():
        if integer:
            a = rng.randint(lo, hi)
            b = rng.randint(lo, hi)
        else:
            a = rng.uniform(lo, hi)
            b = rng.uniform(lo, hi)
        a, b = min(a, b), max(a, b)
        if maxsize is not None and b - a > maxsize:
            b = a + maxsize
        if rng.random() < degenerate_p:
            b = a
        return a, b
    (x1, x2), (y1, y2) = span(), span()
    return (x1, y1, x2, y2)


def touching_queries(boxes, rng, limit):
    """Queries that touch a stored box exactly at an edge / corner, or miss by a hair."""
    out = []
    sample = boxes if len(boxes) <= limit else rng.sample(boxes, limit)
    for _, (x1, y1, x2, y2) in sample:
        pad = 1 + (abs(x1) + abs(x2) + abs(y1) + abs(y2)) * 1e-6
        w, h = (x2 - x1) + pad, (y2 - y1) + pad
        out += [
            (x2, y2, x2 + w, y2 + h),        # touches NE corner
            (x1 - w, y1 - h, x1, y1),        # touches SW corner
            (x2, y1, x2 + w, y2),            # shares E edge
            (x1, y1 - h, x2, y1),            # shares S edge
            (x1, y1, x1, y1),                # point query on a corner
            (x1, y1, x2, y2),                # identical box
            (math.nextafter(x2, INF), y1, x2 + w, y2),     # just misses on the right
            (x1, math.nextafter(y2, INF), x2, y2 + h),     # just misses above
            (x1 - w, y1, math.nextafter(x1, -INF), y2),    # just misses on the left
            (x1, y1 - h, x2, math.nextafter(y1, -INF)),    # just misses below
        ]
    # keep only well-formed query boxes (min <= max on both axes)
    return [q for q in out if q[0] <= q[2] and q[1] <= q[3]]


def install_watchdog(seconds=60, max_bytes=3 << 30):
    """A construction that never terminates (or grows without bound) is a property failure."""
    import resource
    import signal

    def expired(_signum, _frame):
        print("C14 demo: FAILED (watchdog: did not finish within %d s)" % seconds)
        os._exit(1)
    signal.signal(signal.SIGALRM, expired)
    signal.alarm(seconds)
    try:
        resource.setrlimit(resource.RLIMIT_AS, (max_bytes, max_bytes))
    except (ValueError, OSError):
        pass


def main():
    install_watchdog()
    rng = random.Random(140001)

    # 0. empty and singleton collections
    check([], [(0, 0, 1, 1), (-INF, -INF, INF, INF), (0, 0, 0, 0)], "empty")
    for box in grid_boxes([0, 1, 2]):
        check([("only", box)], grid_boxes([-1, 0, 1, 2, 3])[::7] + [box], "single")

    # 1. exhaustive: every ordered pair of boxes on a 3x3 lattice x every lattice query
    lattice = grid_boxes([0, 1, 2])
    for b_1, b_2 in itertools.product(lattice, repeat=2):
        check([(0, b_1), (1, b_2)], lattice, "pairs")

    # 2. every multiset of three boxes from a reduced lattice family x every lattice query
    small = [b for k, b in enumerate(lattice) if k % 3 == 0]
    for trio in itertools.combinations_with_replacement(small, 3):
        check(list(enumerate(trio)), lattice[::2], "triples")

    # 3. duplicates only (termination: no quadrant ever shrinks) incl. degenerate boxes
    for box in [(0, 0, 0, 0), (1, 2, 1, 5), (-3, 4, 9, 4), (0.1, 0.2, 0.3, 0.4), (-2, -2, 2, 2)]:
        for copies in (2, 5, 64):
            boxes = [(k, box) for k in range(copies)]
            check(boxes, touching_queries(boxes[:1], rng, 1) + [(-9, -9, 9, 9)], "duplicates")

    # 4. boxes lying exactly on the split lines: symmetric layouts whose mean centre is (0,0)
    for size in (1, 2, 3, 0.5):
        cross = [
            ("h", (-size, 0, size, 0)), ("v", (0, -size, 0, size)),
            ("ne", (0, 0, size, size)), ("sw", (-size, -size, 0, 0)),
            ("nw", (-size, 0, 0, size)), ("se", (0, -size, size, 0)),
            ("dot", (0, 0, 0, 0)), ("big", (-size, -size, size, size)),
        ]
        queries = grid_boxes([-size, -size / 2, 0, size / 2, size])
        check(cross, queries, "split-lines")
        for sub in itertools.combinations(cross, 4):
            check(list(sub), queries[::3], "split-lines-subset")

    # 5. random integer collections on small grids (many ties, shared edges, nesting, duplicates)
    for trial in range(260):
        span = rng.choice([2, 3, 5, 8, 20])
        count = rng.choice([1, 2, 3, 4, 5, 8, 13, 30, 60])
        boxes = [(k, random_box(rng, -span, span, True, maxsize=rng.choice([None, 1, 3])))
                 for k in range(count)]
        if trial % 5 == 0:          # repeated identifiers and non-integer identifiers
            boxes = [(("id", k % 4), b) for k, b in boxes]
        elif trial % 5 == 1:
            boxes = [("s%d" % k, b) for k, b in boxes]
        queries = [random_box(rng, -span - 1, span + 1, True) for _ in range(25)]
        queries += touching_queries(boxes, rng, 4)
        queries += [(-span - 5, -span - 5, span + 5, span + 5), (span + 2, span + 2, span + 3, span + 3)]
        check(boxes, queries, "random-int")

    # 6. random float collections (incl. zero-width / zero-height strokes, tiny and huge scales)
    for trial in range(160):
        scale = rng.choice([1e-9, 1.0, 17.3, 1e6, 1e15])
        count = rng.choice([2, 3, 7, 20, 50, 120])
        boxes = [(k, random_box(rng, -scale, scale, False, maxsize=rng.choice([None, scale / 10])))
                 for k in range(count)]
        if trial % 3 == 0:          # shift everything far from the origin
            off = scale * 1000
            boxes = [(k, (a + off, b - off, c + off, d - off)) for k, (a, b, c, d) in boxes]
        queries = [b for _, b in rng.sample(boxes, min(6, count))]
        queries += touching_queries(boxes, rng, 4)
        lo = min(min(b[0], b[1]) for _, b in boxes)
        hi = max(max(b[2], b[3]) for _, b in boxes)
        queries += [random_box(rng, lo, hi, False) for _ in range(20)]
        check(boxes, queries, "random-float")

    # 7. horizontal / vertical stroke bundles sharing end points (pen-plotter style data)
    for trial in range(40):
        boxes = []
        for k in range(rng.choice([10, 40, 150])):
            x, y = rng.randint(0, 12), rng.randint(0, 12)
            length = rng.randint(0, 6)
            boxes.append((k, (x, y, x + length, y) if rng.random() < 0.5 else (x, y, x, y + length)))
        queries = [random_box(rng, -1, 19, True) for _ in range(30)] + touching_queries(boxes, rng, 5)
        check(boxes, queries, "strokes")

    # 8. a larger collection (deeper tree)
    big = [(k, random_box(rng, 0, 1000, False, maxsize=15)) for k in range(3000)]
    check(big, [random_box(rng, -10, 1010, False, maxsize=120) for _ in range(150)]
          + [(-1, -1, 1001, 1001), (2000, 2000, 2001, 2001)], "large")

    print("trees built: %d, queries checked: %d, failures: %d"
          % (COUNT["trees"], COUNT["queries"], len(FAILS)))
    if FAILS or COUNT["queries"] < 90000:
        print("C14 demo: FAILED")
        return 1
    print("C14 demo: OK")
    return 0


if __name__ == "__main__":
    sys.exit(main())
