import os, sys; sys.path.insert(0, os.environ.get('PLOTINK_ROOT', '/tmp/wte_C01'))
"""
Check of property C01 (timed-move prediction == firmware step-accumulator recurrence).

Oracle: a literal integer simulation of the firmware ISR (tick loop) for small T and an
exact integer closed form (itself validated against the tick loop) for large T.
Emphasis of this demo: exactness of the arithmetic -- odd accelerations (half-integer
effective rate), totals that land exactly on, one below and one above a multiple of 2^31
(positive and negative), the largest magnitudes the firmware domain allows (T ~ 2^32,
|rate| ~ 2^31), every ambient mpmath precision, plus the clear decision and the aliases.
Deterministic; no hardware.
"""
import random
import itertools
import mpmath
from plotink import ebb_calc, ebb_motion

TWO31 = 1 << 31
RMAX = TWO31 - 1
FAILS = []
COUNT = [0]


def trunc_half(accel):
    """accel/2 truncated toward zero, in pure integer arithmetic."""
    return accel // 2 if accel >= 0 else -((-accel) // 2)


def clear_value(rate, accel):
    """Accumulator after 'clear': look for the first tick with non-zero rate."""
    r = rate - trunc_half(accel)
    for _ in range(3):
        r += accel
        if r > 0:
            return 0
        if r < 0:
            return RMAX
    return 0  # never moves (rate_1 == 0 and accel == 0)


def firmware_loop(rate, accel, ticks, accum):
    """Literal tick-by-tick firmware recurrence. accum is int or 'clear'."""
    total = clear_value(rate, accel) if accum == "clear" else accum
    r = rate - trunc_half(accel)
    for _ in range(ticks):
        r += accel
        assert -RMAX <= r <= RMAX, "test generator left the firmware domain"
        total += r
    pos = total // TWO31          # floor
    return pos, total - pos * TWO31


def firmware_closed(rate, accel, ticks, accum):
    """Exact integer closed form of the same recurrence (for large tick counts)."""
    total = clear_value(rate, accel) if accum == "clear" else accum
    r0 = rate - trunc_half(accel)
    total += ticks * r0 + accel * (ticks * (ticks + 1) // 2)
    pos = total // TWO31
    return pos, total - pos * TWO31


def in_domain(rate, accel, ticks):
    r1 = rate - trunc_half(accel) + accel
    rt = rate - trunc_half(accel) + accel * ticks
    return abs(r1) <= RMAX and abs(rt) <= RMAX and ticks >= 1


def disturb_precision(i):
    """Leave some arbitrary ambient mpmath precision behind, like a careless caller."""
    choice = i % 6
    if choice == 0:
        mpmath.mp.dps = 5
    elif choice == 1:
        mpmath.mp.prec = 24
    elif choice == 2:
        mpmath.mp.dps = 15
    elif choice == 3:
        mpmath.mp.dps = 200
    elif choice == 4:
        mpmath.mp.prec = 53
    else:
        mpmath.mp.dps = 8


def check(rate, accel, ticks, accum, oracle, with_aliases=True):
    COUNT[0] += 1
    want = oracle(rate, accel, ticks, accum)
    disturb_precision(COUNT[0])
    if accum == "clear" and COUNT[0] % 2:
        got = ebb_calc.move_dist_lt(rate, accel, ticks)       # default argument
    else:
        got = ebb_calc.move_dist_lt(rate, accel, ticks, accum)
    ok = (tuple(got) == want and type(got[0]) is int and type(got[1]) is int
          and 0 <= got[1] < TWO31)
    if not ok:
        FAILS.append(("move_dist_lt", rate, accel, ticks, accum, got, want))
    if with_aliases:
        disturb_precision(COUNT[0] + 3)
        got_a = ebb_motion.moveDistLMA(rate, accel, ticks, accum)
        if tuple(got_a) != want:
            FAILS.append(("moveDistLMA", rate, accel, ticks, accum, got_a, want))
        disturb_precision(COUNT[0] + 1)
        got_d = ebb_motion.moveDistLM(rate, accel, ticks)
        want_d = oracle(rate, accel, ticks, 0)[0]
        if got_d != want_d or type(got_d) is not int:
            FAILS.append(("moveDistLM", rate, accel, ticks, 0, got_d, want_d))


def motion_sum(rate, accel, ticks):
    """Sum of the per-tick rates (exact integer)."""
    return ticks * (rate - trunc_half(accel)) + accel * (ticks * (ticks + 1) // 2)


def main():
    rnd = random.Random(202)

    # 0. the closed-form oracle agrees with the literal tick loop
    for _ in range(1500):
        ticks = rnd.randint(1, 400)
        accel = rnd.randint(-4000001, 4000001)
        rate = rnd.randint(-400000000, 400000000)
        accum = rnd.choice(["clear", rnd.randrange(TWO31)])
        assert in_domain(rate, accel, ticks)
        assert firmware_loop(rate, accel, ticks, accum) == \
            firmware_closed(rate, accel, ticks, accum)

    # 1. totals exactly at / next to a multiple of 2^31: choose the start accumulator so
    #    that the unwrapped total is k*2^31 + d for d in (-1, 0, 1); moves in both directions
    for _ in range(700):
        if rnd.random() < 0.5:
            ticks = rnd.randint(1, 500)
            oracle = firmware_loop
        else:
            ticks = rnd.randint(1 << 16, 1 << 32)
            oracle = firmware_closed
        rate = rnd.randint(-RMAX, RMAX)
        lim = (RMAX - abs(rate)) // ticks
        accel = rnd.randint(-lim, lim)
        if rnd.random() < 0.6:
            accel |= 1       # odd: effective rate is a half-integer
        if not in_domain(rate, accel, ticks):
            continue
        moved = motion_sum(rate, accel, ticks)
        for delta in (-1, 0, 1):
            accum = (delta - moved) % TWO31
            check(rate, accel, ticks, accum, oracle, with_aliases=False)
            want = oracle(rate, accel, ticks, accum)
            assert want[1] == delta % TWO31    # the generator did what it says

    # 2. odd / even / tiny accelerations of both signs; truncation toward zero matters
    for accel in (-7, -3, -2, -1, 0, 1, 2, 3, 7, -1000001, 1000001, -65537, 65536):
        for rate in (-1000000007, -12345, -1, 0, 1, 12345, 1000000007):
            for ticks in (1, 2, 3, 10, 101, 1000):
                if in_domain(rate, accel, ticks):
                    for accum in ("clear", 0, RMAX, 123456789):
                        check(rate, accel, ticks, accum, firmware_loop,
                              with_aliases=(ticks == 10))

    # 3. extremes of the firmware domain: constant top speed for 2^32 ticks, full-range ramps
    top = (1 << 32)
    for ticks in (top, top - 1, top // 2 + 1, 1 << 31, (1 << 31) - 1):
        for rate in (RMAX, -RMAX, RMAX - 1, 1 - RMAX, 1, -1, 0):
            for accum in ("clear", 0, RMAX, 1):
                check(rate, 0, ticks, accum, firmware_closed)
        # ramps from one end of the rate range toward the other with accel = +-1
        for accel in (1, -1):
            rate = -accel * (RMAX - 1)
            if in_domain(rate, accel, ticks):
                for accum in ("clear", 0, RMAX):
                    check(rate, accel, ticks, accum, firmware_closed)
    # steepest two-tick and three-tick ramps
    for ticks in (2, 3, 4):
        accel = (2 * RMAX) // ticks
        for sign in (1, -1):
            a = sign * accel
            rate = -sign * RMAX + trunc_half(a) - a + sign  # rate_1 = -+(RMAX - 1)
            if in_domain(rate, a, ticks):
                for accum in ("clear", 0, RMAX, 987654321):
                    check(rate, a, ticks, accum, firmware_loop)

    # 4. random moderate moves against the literal loop
    for _ in range(900):
        ticks = rnd.randint(1, 600)
        rate = rnd.randint(-RMAX, RMAX)
        lim = (RMAX - abs(rate)) // ticks
        accel = rnd.randint(-lim, lim) if rnd.random() < 0.8 else rnd.randint(-3, 3)
        if not in_domain(rate, accel, ticks):
            continue
        accum = rnd.choice(["clear", 0, RMAX, rnd.randrange(TWO31)])
        check(rate, accel, ticks, accum, firmware_loop, with_aliases=(rnd.random() < 0.3))

    # 5. random long moves (T up to 2^32) against the closed form
    for _ in range(900):
        ticks = rnd.choice([rnd.randint(1, 1 << 32), rnd.randint(1 << 20, 1 << 26)])
        r_first = rnd.randint(-RMAX, RMAX)
        r_last = rnd.randint(-RMAX, RMAX)
        accel = (r_last - r_first) // ticks if rnd.random() < 0.7 else rnd.randint(-1, 1)
        rate = r_first
        if not in_domain(rate, accel, ticks):
            continue
        accum = rnd.choice(["clear", 0, RMAX, rnd.randrange(TWO31)])
        check(rate, accel, ticks, accum, firmware_closed, with_aliases=(rnd.random() < 0.3))

    # 6. clear decision, small exhaustive grid
    for rate, accel in itertools.product(range(-4, 5), range(-4, 5)):
        for ticks in (1, 2, 5):
            check(rate, accel, ticks, "clear", firmware_loop, with_aliases=False)

    # 7. every ambient precision from 1 to 120 bits gives the same answer
    for prec in range(1, 121):
        mpmath.mp.prec = prec
        got = ebb_calc.move_dist_lt(412361511, -35357, 11362, "clear")
        mpmath.mp.prec = prec
        got_a = ebb_motion.moveDistLMA(-2000000001, 1, 4000000000, 5)
        mpmath.mp.prec = prec
        got_d = ebb_motion.moveDistLM(47141172, 141428, 11333)
        if got != firmware_loop(412361511, -35357, 11362, "clear") or \
                got_a != firmware_closed(-2000000001, 1, 4000000000, 5) or got_d != 4478:
            FAILS.append(("ambient precision", prec, got, got_a, got_d))

    if ebb_calc.move_dist_lt(5, 5, 0) != (0, 0) or ebb_calc.move_dist_lt(5, 5, 0, 77) != (0, 0):
        FAILS.append(("zero ticks",))
    if ebb_motion.moveDistLM(412361511, -35357, 11362) != 1119:
        FAILS.append(("moveDistLM documented example",))

    if FAILS:
        print("C01 demo: %d FAILURES out of %d cases" % (len(FAILS), COUNT[0]))
        for item in FAILS[:15]:
            print("   ", item)
        sys.exit(1)
    print("C01 demo: OK (%d cases)" % COUNT[0])


if __name__ == "__main__":
    main()
