import os, sys; sys.path.insert(0, os.environ.get('PLOTINK_ROOT', '/tmp/wte_C01'))
"""
Check of property C01 (timed-move prediction == firmware step-accumulator recurrence).

Oracle: a literal integer simulation of the firmware ISR (tick loop) for small T and an
exact integer closed form (itself validated against the tick loop) for large T.
Emphasis of this demo: the clear-to-0 / clear-to-(2^31-1) decision (exhaustive small grid
and all sign/parity boundary cases), the truncation of accel/2 toward zero, and the
deprecated aliases.  Deterministic; no hardware.
"""
import random
import itertools
import mpmath
from plotink import ebb_calc, ebb_motion

TWO31 = 1 << 31
RMAX = TWO31 - 1
FAILS = []
COUNT = [0]


def trunc_half(accel):
    """accel/2 truncated toward zero, in pure integer arithmetic."""
    return accel // 2 if accel >= 0 else -((-accel) // 2)


def clear_value(rate, accel):
    """Accumulator after 'clear': look for the first tick with non-zero rate."""
    r = rate - trunc_half(accel)
    for _ in range(3):
        r += accel
        if r > 0:
            return 0
        if r < 0:
            return RMAX
    return 0  # never moves (rate_1 == 0 and accel == 0)


def firmware_loop(rate, accel, ticks, accum):
    """Literal tick-by-tick firmware recurrence. accum is int or 'clear'."""
    total = clear_value(rate, accel) if accum == "clear" else accum
    r = rate - trunc_half(accel)
    for _ in range(ticks):
        r += accel
        assert -RMAX <= r <= RMAX, "test generator left the firmware domain"
        total += r
    pos = total // TWO31          # floor
    return pos, total - pos * TWO31


def firmware_closed(rate, accel, ticks, accum):
    """Exact integer closed form of the same recurrence (for large tick counts)."""
    total = clear_value(rate, accel) if accum == "clear" else accum
    r0 = rate - trunc_half(accel)
    total += ticks * r0 + accel * (ticks * (ticks + 1) // 2)
    pos = total // TWO31
    return pos, total - pos * TWO31


def in_domain(rate, accel, ticks):
    r1 = rate - trunc_half(accel) + accel
    rt = rate - trunc_half(accel) + accel * ticks
    return abs(r1) <= RMAX and abs(rt) <= RMAX and ticks >= 1


def disturb_precision(i):
    """Leave some arbitrary ambient mpmath precision behind, like a careless caller."""
    choice = i % 6
    if choice == 0:
        mpmath.mp.dps = 5
    elif choice == 1:
        mpmath.mp.prec = 24
    elif choice == 2:
        mpmath.mp.dps = 15
    elif choice == 3:
        mpmath.mp.dps = 200
    elif choice == 4:
        mpmath.mp.prec = 53
    else:
        mpmath.mp.dps = 8


def check(rate, accel, ticks, accum, oracle, with_aliases=True):
    COUNT[0] += 1
    want = oracle(rate, accel, ticks, accum)
    disturb_precision(COUNT[0])
    if accum == "clear" and COUNT[0] % 2:
        got = ebb_calc.move_dist_lt(rate, accel, ticks)       # default argument
    else:
        got = ebb_calc.move_dist_lt(rate, accel, ticks, accum)
    ok = (tuple(got) == want and type(got[0]) is int and type(got[1]) is int
          and 0 <= got[1] < TWO31)
    if not ok:
        FAILS.append(("move_dist_lt", rate, accel, ticks, accum, got, want))
    if with_aliases:
        disturb_precision(COUNT[0] + 3)
        got_a = ebb_motion.moveDistLMA(rate, accel, ticks, accum)
        if tuple(got_a) != want:
            FAILS.append(("moveDistLMA", rate, accel, ticks, accum, got_a, want))
        disturb_precision(COUNT[0] + 1)
        got_d = ebb_motion.moveDistLM(rate, accel, ticks)
        want_d = oracle(rate, accel, ticks, 0)[0]
        if got_d != want_d or type(got_d) is not int:
            FAILS.append(("moveDistLM", rate, accel, ticks, 0, got_d, want_d))


def main():
    rnd = random.Random(101)

    # 0. the closed-form oracle agrees with the literal tick loop
    for _ in range(1500):
        ticks = rnd.randint(1, 400)
        accel = rnd.randint(-4000000, 4000000)
        rate = rnd.randint(-400000000, 400000000)
        accum = rnd.choice(["clear", rnd.randrange(TWO31)])
        assert in_domain(rate, accel, ticks)
        assert firmware_loop(rate, accel, ticks, accum) == \
            firmware_closed(rate, accel, ticks, accum)

    # 1. exhaustive small grid around every sign / parity boundary of the clear decision
    small = range(-5, 6)
    for rate, accel in itertools.product(small, small):
        for ticks in (1, 2, 3, 4, 7):
            for accum in ("clear", 0, 1, RMAX, RMAX - 1, 1 << 30):
                check(rate, accel, ticks, accum, firmware_loop, with_aliases=(ticks == 3))

    # 2. first-tick rate exactly zero / +-1 with big numbers: rate = half - accel (+d)
    for _ in range(600):
        accel = rnd.choice([rnd.randint(-2000000, 2000000), rnd.randint(-9, 9)])
        for delta in (-1, 0, 1):
            rate = trunc_half(accel) - accel + delta
            ticks = rnd.randint(1, 300)
            if in_domain(rate, accel, ticks):
                check(rate, accel, ticks, "clear", firmware_loop, with_aliases=False)

    # 3. slow moves whose accumulator stays very near 0 or 2^31 (where the clear value decides
    #    the step count): |rate| tiny, few ticks, backward and forward
    for rate, accel, ticks in itertools.product((-3, -1, 0, 1, 3), (-2, -1, 0, 1, 2), (1, 2, 5, 50)):
        check(rate, accel, ticks, "clear", firmware_loop, with_aliases=False)
    for ticks in (1, 2, 3):
        check(-RMAX, 0, ticks, "clear", firmware_loop)
        check(RMAX, 0, ticks, "clear", firmware_loop)
        check(-1, 0, ticks, "clear", firmware_loop)
        check(0, -1, ticks, "clear", firmware_loop)
        check(0, 1, ticks, "clear", firmware_loop)
        check(1, -1, ticks, "clear", firmware_loop)   # rate_1 == 0 (half = 0): then backward
        check(-1, 1, ticks, "clear", firmware_loop)   # rate_1 == 0: then forward
        check(0, 0, ticks, "clear", firmware_loop)    # never moves: clear to zero

    # 4. random moderate moves against the literal loop
    for _ in range(1200):
        ticks = rnd.randint(1, 600)
        rate = rnd.randint(-RMAX, RMAX)
        lim = (RMAX - abs(rate)) // ticks
        accel = rnd.randint(-lim, lim) if rnd.random() < 0.8 else rnd.randint(-3, 3)
        if not in_domain(rate, accel, ticks):
            continue
        accum = rnd.choice(["clear", 0, RMAX, rnd.randrange(TWO31)])
        check(rate, accel, ticks, accum, firmware_loop, with_aliases=(rnd.random() < 0.3))

    # 5. long moves (T up to 2^32) against the closed form; rates sweep the whole 31-bit range
    for _ in range(1200):
        ticks = rnd.choice([rnd.randint(1, 1 << 32), rnd.randint(1 << 20, 1 << 26),
                            (1 << 32) - rnd.randint(0, 3)])
        r_first = rnd.randint(-RMAX, RMAX)
        r_last = rnd.randint(-RMAX, RMAX)
        accel = (r_last - r_first) // ticks if rnd.random() < 0.7 else rnd.randint(-1, 1)
        rate = r_first
        if not in_domain(rate, accel, ticks):
            continue
        accum = rnd.choice(["clear", 0, RMAX, rnd.randrange(TWO31)])
        check(rate, accel, ticks, accum, firmware_closed, with_aliases=(rnd.random() < 0.3))

    # 6. documented examples from the library's own docstring conventions
    assert ebb_calc.move_dist_lt(5, 5, 0) == (0, 0)
    assert ebb_calc.move_dist_lt(5, 5, 0, 77) == (0, 0)
    # integer-valued non-int inputs are accepted ("Ensure that the inputs are integer")
    mpmath.mp.dps = 7
    assert ebb_calc.move_dist_lt(412361511.0, -35357.0, 11362.0, 0) == \
        firmware_loop(412361511, -35357, 11362, 0)
    assert ebb_motion.moveDistLM(412361511, -35357, 11362) == 1119
    assert ebb_motion.moveDistLM(47141172, 141428, 11333) == 4478

    if FAILS:
        print("C01 demo: %d FAILURES out of %d cases" % (len(FAILS), COUNT[0]))
        for item in FAILS[:15]:
            print("   ", item)
        sys.exit(1)
    print("C01 demo: OK (%d cases)" % COUNT[0])


if __name__ == "__main__":
    main()
