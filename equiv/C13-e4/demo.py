import os, sys; sys.path.insert(0, os.environ.get('PLOTINK_ROOT', '/tmp/wtf_C13'))
"""
Property C13 demo: plotink.spatial_grid.Index.nearest() returns a live path end
that no end in the query's 3x3 cell neighbourhood beats; the global nearest when
that neighbourhood is empty; None exactly when no path remains.

Two independent checks are made on every query of every scenario:

  1. PROPERTY ORACLE (geometric, written from the property statement): the demo
     keeps its own set of live paths, computes its own grid geometry, and checks
     liveness / admissibility / neighbourhood-optimality / global fallback /
     "true nearest within one cell width".

  2. FROZEN BASELINE: a plain-function transcription of the published algorithm
     (kept inside this file) is run side by side; the returned identifier must
     be identical (this pins tie-breaking and the scan order too), and the
     index's public state (grid, lookup, adjacents, xmin, ymin, bin sizes) must
     match it exactly after construction and after every removal.

Deterministic (seeded), no hardware, a few seconds.
"""
import math
import random

from plotink import spatial_grid

FAILURES = []
COUNTS = {"scenarios": 0, "queries": 0, "fallbacks": 0, "none": 0, "zero_hits": 0,
          "within_cell": 0, "ties": 0}


def fail(msg):
    FAILURES.append(msg)
    if len(FAILURES) > 20:
        report_and_exit()


def report_and_exit():
    for line in FAILURES[:20]:
        print("FAIL:", line)
    print("counts:", COUNTS)
    if FAILURES:
        print("C13 demo: FAILED (%d failures)" % len(FAILURES))
        sys.exit(1)
    print("C13 demo: OK")
    sys.exit(0)


def sqd(p_a, p_b):
    d_x = p_a[0] - p_b[0]
    d_y = p_a[1] - p_b[1]
    return d_x * d_x + d_y * d_y


# ---------------------------------------------------------------------------
# Frozen baseline: transcription of the published algorithm as plain functions
# ---------------------------------------------------------------------------

class Baseline:
    def __init__(self, vertices, bins, reverse):
        self.vertices, self.bins, self.reverse = vertices, bins, reverse
        self.n = len(vertices)
        max_bin = bins - 1
        self.adjacents = [[a] for a in range(bins * bins)]
        for y_row in range(bins):
            for x_col in range(bins):
                i = x_col + y_row * bins
                if x_col > 0:
                    self.adjacents[i].append(i - 1)
                    if y_row > 0:
                        self.adjacents[i].append(i - bins - 1)
                    if y_row < max_bin:
                        self.adjacents[i].append(i + bins - 1)
                if x_col < max_bin:
                    self.adjacents[i].append(i + 1)
                    if y_row > 0:
                        self.adjacents[i].append(i - bins + 1)
                    if y_row < max_bin:
                        self.adjacents[i].append(i + bins + 1)
                if y_row > 0:
                    self.adjacents[i].append(i - bins)
                if y_row < max_bin:
                    self.adjacents[i].append(i + bins)
        self.xmin, self.ymin = math.inf, math.inf
        xmax, ymax = -math.inf, -math.inf
        for [x_1, y_1], [x_2, y_2] in vertices:
            self.xmin = min(self.xmin, x_1)
            xmax = max(xmax, x_1)
            self.ymin = min(self.ymin, y_1)
            ymax = max(ymax, y_1)
            if reverse:
                self.xmin = min(self.xmin, x_2)
                xmax = max(xmax, x_2)
                self.ymin = min(self.ymin, y_2)
                ymax = max(ymax, y_2)
        shim = (xmax - self.xmin + ymax - self.ymin) / 200
        self.xmin -= shim
        self.ymin -= shim
        xmax += shim
        ymax += shim
        self.xmax, self.ymax = xmax, ymax
        self.bin_size_x = (xmax - self.xmin) / bins
        self.bin_size_y = (ymax - self.ymin) / bins
        self.lookup = [0] * (2 * self.n if reverse else self.n)
        self.grid = [[] for _ in range(bins * bins)]
        for (i, [[x_1, y_1], [x_2, y_2]]) in enumerate(vertices):
            x_bin = min(math.floor((x_1 - self.xmin) / self.bin_size_x), max_bin)
            y_bin = min(math.floor((y_1 - self.ymin) / self.bin_size_y), max_bin)
            g_i = x_bin + bins * y_bin
            self.grid[g_i].append(i)
            self.lookup[i] = g_i
            if reverse:
                x_bin = min(math.floor((x_2 - self.xmin) / self.bin_size_x), max_bin)
                y_bin = min(math.floor((y_2 - self.ymin) / self.bin_size_y), max_bin)
                g_i = x_bin + bins * y_bin
                self.grid[g_i].append(self.n + i)
                self.lookup[self.n + i] = g_i

    def vertex_of(self, end_id):
        if end_id >= self.n:
            return self.vertices[end_id - self.n][1]
        return self.vertices[end_id][0]

    def query_cell(self, q):
        max_bin = self.bins - 1
        x_bin = max(min(math.floor((q[0] - self.xmin) / self.bin_size_x), max_bin), 0)
        y_bin = max(min(math.floor((q[1] - self.ymin) / self.bin_size_y), max_bin), 0)
        return x_bin, y_bin

    def nearest(self, q):
        x_bin, y_bin = self.query_cell(q)
        hood = list(self.adjacents[x_bin + self.bins * y_bin])
        best_dist, best = math.inf, None
        for cell in hood:
            for end_id in self.grid[cell]:
                dist = sqd(q, self.vertex_of(end_id))
                if dist < best_dist:
                    best_dist, best = dist, end_id
        if best:
            return best
        for cell in range(len(self.adjacents)):
            if cell in hood:
                continue
            for end_id in self.grid[cell]:
                dist = sqd(q, self.vertex_of(end_id))
                if dist < best_dist:
                    best_dist, best = dist, end_id
        return best

    def remove_path(self, path_index):
        self.grid[self.lookup[path_index]].remove(path_index)
        if self.reverse:
            other = path_index + self.n
            self.grid[self.lookup[other]].remove(other)


# ---------------------------------------------------------------------------
# Property oracle (from the statement; keeps its own liveness bookkeeping)
# ---------------------------------------------------------------------------

class Oracle:
    def __init__(self, vertices, bins, reverse):
        self.vertices, self.bins, self.reverse = vertices, bins, reverse
        self.n = len(vertices)
        self.live = set(range(self.n))
        # admissible ends: id -> (path, point)
        self.ends = {}
        for i, (start, end) in enumerate(vertices):
            self.ends[i] = (i, start)
            if reverse:
                self.ends[self.n + i] = (i, end)
        x_s = [p[0] for _, p in self.ends.values()]
        y_s = [p[1] for _, p in self.ends.values()]
        x_lo, x_hi, y_lo, y_hi = min(x_s), max(x_s), min(y_s), max(y_s)
        shim = (x_hi - x_lo + y_hi - y_lo) / 200
        assert shim > 0, "scenario generator must give non-zero extent"
        self.x_lo, self.x_hi = x_lo - shim, x_hi + shim
        self.y_lo, self.y_hi = y_lo - shim, y_hi + shim
        self.w_x = (self.x_hi - self.x_lo) / bins
        self.w_y = (self.y_hi - self.y_lo) / bins
        self.cell = {e: self.cell_of(p) for e, (_, p) in self.ends.items()}

    def cell_of(self, point):
        c_x = math.floor((point[0] - self.x_lo) / self.w_x)
        c_y = math.floor((point[1] - self.y_lo) / self.w_y)
        top = self.bins - 1
        return (min(max(c_x, 0), top), min(max(c_y, 0), top))

    def live_ends(self):
        return [e for e, (path, _) in self.ends.items() if path in self.live]

    def check(self, q, result, tag):
        live_ends = self.live_ends()
        if not live_ends:
            COUNTS["none"] += 1
            if result is not None:
                fail("%s: expected None with no paths left, got %r" % (tag, result))
            return
        if result is None:
            fail("%s: got None although %d paths remain" % (tag, len(self.live)))
            return
        if isinstance(result, bool) or not isinstance(result, int):
            fail("%s: result %r is not an int identifier" % (tag, result))
            return
        if result not in self.ends:
            fail("%s: result %r is not an admissible end id (n=%d reverse=%r)"
                 % (tag, result, self.n, self.reverse))
            return
        path, point = self.ends[result]
        if path not in self.live:
            fail("%s: result %r belongs to removed path %d" % (tag, result, path))
            return
        d_res = sqd(q, point)
        q_cx, q_cy = self.cell_of(q)
        hood = [e for e in live_ends
                if abs(self.cell[e][0] - q_cx) <= 1 and abs(self.cell[e][1] - q_cy) <= 1]
        d_all = min(sqd(q, self.ends[e][1]) for e in live_ends)
        if hood:
            d_hood = min(sqd(q, self.ends[e][1]) for e in hood)
            if d_res > d_hood:
                fail("%s: result %r (d2=%r) beaten by neighbourhood end (d2=%r)"
                     % (tag, result, d_res, d_hood))
        else:
            COUNTS["fallbacks"] += 1
            if d_res != d_all:
                fail("%s: empty neighbourhood, result %r (d2=%r) is not global nearest (d2=%r)"
                     % (tag, result, d_res, d_all))
        inside = self.x_lo <= q[0] <= self.x_hi and self.y_lo <= q[1] <= self.y_hi
        width = min(self.w_x, self.w_y)
        if inside and math.sqrt(d_all) <= 0.999 * width:
            COUNTS["within_cell"] += 1
            if d_res != d_all:
                fail("%s: in-grid query with an end within one cell width, result %r "
                     "(d2=%r) is not the true nearest (d2=%r)" % (tag, result, d_res, d_all))
        if result == 0:
            COUNTS["zero_hits"] += 1
        if sum(1 for e in live_ends if sqd(q, self.ends[e][1]) == d_res) > 1:
            COUNTS["ties"] += 1


# ---------------------------------------------------------------------------
# Scenario generation
# ---------------------------------------------------------------------------

def gen_vertices(rng, kind, count):
    def pt():
        if kind == "float":
            return [rng.uniform(-50.0, 150.0), rng.uniform(-20.0, 90.0)]
        if kind == "lattice":       # many exact ties and duplicates, int coordinates
            return [rng.randint(0, 6), rng.randint(0, 6)]
        if kind == "lattice_f":
            return [float(rng.randint(-3, 3)), rng.randint(-3, 3) * 0.5]
        if kind == "vertical":      # zero x extent, non-zero y extent
            return [7.25, rng.uniform(0.0, 40.0)]
        if kind == "horizontal":
            return [rng.uniform(-5.0, 5.0), -3]
        if kind == "clusters":      # far apart clusters -> empty neighbourhoods
            c_x, c_y = rng.choice([(0.0, 0.0), (1000.0, 0.0), (0.0, 1000.0), (1000.0, 1000.0)])
            return [c_x + rng.uniform(-4, 4), c_y + rng.uniform(-4, 4)]
        if kind == "tuple":
            return (rng.uniform(0, 1), rng.uniform(0, 1))
        if kind == "tiny":
            return [1e-9 * rng.random(), 1e-9 * rng.random()]
        raise AssertionError(kind)
    return [[pt(), pt()] for _ in range(count)]


def extent_ok(vertices, reverse):
    pts = [v[0] for v in vertices] + ([v[1] for v in vertices] if reverse else [])
    x_s = [p[0] for p in pts]
    y_s = [p[1] for p in pts]
    return (max(x_s) - min(x_s) + max(y_s) - min(y_s)) / 200 > 0


def gen_queries(rng, orc, count):
    """Query points inside, on the border of and far outside the grid; also exact ends."""
    span_x, span_y = orc.x_hi - orc.x_lo, orc.y_hi - orc.y_lo
    out = []
    for _ in range(count):
        mode = rng.randrange(8)
        if mode <= 2:
            out.append([rng.uniform(orc.x_lo, orc.x_hi), rng.uniform(orc.y_lo, orc.y_hi)])
        elif mode == 3:   # exactly on an end (either end, even if not admissible)
            path = rng.randrange(orc.n)
            out.append(list(orc.vertices[path][rng.randrange(2)]))
        elif mode == 4:   # outside, modestly
            out.append([orc.x_lo + span_x * rng.uniform(-2.0, 3.0),
                        orc.y_lo + span_y * rng.uniform(-2.0, 3.0)])
        elif mode == 5:   # far outside
            out.append([rng.choice([-1, 1]) * 1e6 * rng.random(),
                        rng.choice([-1, 1]) * 1e6 * rng.random()])
        elif mode == 6:   # on grid border / cell boundaries
            k_x, k_y = rng.randint(0, orc.bins), rng.randint(0, orc.bins)
            out.append([orc.x_lo + k_x * orc.w_x, orc.y_lo + k_y * orc.w_y])
        else:             # corners
            out.append([rng.choice([orc.x_lo, orc.x_hi]), rng.choice([orc.y_lo, orc.y_hi])])
    return out


def neighbours_expected(bins):
    exp = []
    for idx in range(bins * bins):
        c_y, c_x = divmod(idx, bins)
        exp.append(sorted(n_x + bins * n_y
                          for n_x in range(max(c_x - 1, 0), min(c_x + 2, bins))
                          for n_y in range(max(c_y - 1, 0), min(c_y + 2, bins))))
    return exp


def compare_state(idx, base, tag):
    if idx.grid != base.grid:
        fail("%s: grid differs from baseline\n   got %r\n   exp %r" % (tag, idx.grid, base.grid))
    if idx.lookup != base.lookup:
        fail("%s: lookup differs from baseline" % tag)
    if idx.adjacents != base.adjacents:
        fail("%s: adjacents differ from baseline" % tag)
    for name in ("xmin", "ymin", "bin_size_x", "bin_size_y"):
        got, exp = getattr(idx, name), getattr(base, name)
        if got != exp or type(got) is not type(exp):
            fail("%s: %s = %r, baseline %r" % (tag, name, got, exp))
    if idx.path_count != base.n or idx.bins_per_side != base.bins:
        fail("%s: path_count/bins_per_side wrong" % tag)
    if idx.vertices is not base.vertices:
        fail("%s: vertices attribute is not the caller's list" % tag)
    if idx.reverse is not base.reverse:
        fail("%s: reverse attribute changed" % tag)


def run_scenario(rng, kind, count, bins, reverse, tag):
    vertices = gen_vertices(rng, kind, count)
    if not extent_ok(vertices, reverse):
        return
    COUNTS["scenarios"] += 1
    snapshot = [[tuple(a), tuple(b)] for a, b in vertices]
    idx = spatial_grid.Index(vertices, bins, reverse)
    base = Baseline(vertices, bins, reverse)
    orc = Oracle(vertices, bins, reverse)

    compare_state(idx, base, tag + " init")
    if [sorted(a) for a in idx.adjacents] != neighbours_expected(bins):
        fail("%s: adjacency list is not the 3x3 neighbourhood" % tag)
    if any(len(set(a)) != len(a) or a[0] != i for i, a in enumerate(idx.adjacents)):
        fail("%s: adjacency list has duplicates / does not start with own cell" % tag)
    # every admissible end sits in exactly the cell the oracle computes, once
    flat = sorted(e for cell in idx.grid for e in cell)
    if flat != sorted(orc.ends):
        fail("%s: grid does not hold each admissible end exactly once" % tag)
    for e_id, (c_x, c_y) in orc.cell.items():
        if idx.lookup[e_id] != c_x + bins * c_y or e_id not in idx.grid[c_x + bins * c_y]:
            fail("%s: end %d not in oracle cell (%d,%d)" % (tag, e_id, c_x, c_y))

    def do_queries(how_many, when):
        for q in gen_queries(rng, orc, how_many):
            q_copy = list(q)
            got = idx.nearest(q)
            COUNTS["queries"] += 1
            if q != q_copy:
                fail("%s %s: nearest() modified the query point" % (tag, when))
            orc.check(q, got, "%s %s q=%r" % (tag, when, q))
            exp = base.nearest(q)
            if got != exp or type(got) is not type(exp):
                fail("%s %s q=%r: nearest()=%r, baseline %r" % (tag, when, q, got, exp))
            # tuple query points are accepted as well
            if idx.nearest(tuple(q)) != exp:
                fail("%s %s q=%r: tuple query gives a different answer" % (tag, when, q))

    do_queries(12, "full")
    order = list(range(count))
    rng.shuffle(order)
    # sometimes remove path 0 late so that identifier 0 is a frequent answer
    if rng.random() < 0.5:
        order.remove(0)
        order.append(0)
    for step, path in enumerate(order):
        ret = idx.remove_path(path)
        if ret is not None:
            fail("%s: remove_path returned %r" % (tag, ret))
        base.remove_path(path)
        orc.live.discard(path)
        compare_state(idx, base, "%s after removal #%d (path %d)" % (tag, step, path))
        for cell in idx.grid:
            for e_id in cell:
                if e_id % count not in orc.live:
                    fail("%s: removed path %d still has end %d in grid" % (tag, path, e_id))
        do_queries(5 if count > 12 else 8, "after %d removals" % (step + 1))
        if step == len(order) // 2:
            # removing the same path again must be refused and change nothing
            try:
                idx.remove_path(path)
            except ValueError:
                pass
            else:
                fail("%s: second removal of path %d did not raise ValueError" % (tag, path))
            compare_state(idx, base, "%s after refused double removal" % tag)
            do_queries(3, "after refused double removal")
    # nothing left
    if any(idx.grid):
        fail("%s: grid not empty after removing every path" % tag)
    do_queries(4, "empty")
    if [[tuple(a), tuple(b)] for a, b in vertices] != snapshot:
        fail("%s: input vertices were modified" % tag)


def fixed_cases():
    """Hand-made cases with documented expectations."""
    # the library's own unit-test data
    pts = [[[61.32, 26.04], [7.62, 6.74]], [[6.66, 12.31], [59.84, 13.43]],
           [[54.43, 2.27], [72.02, 50.23]], [[23.91, 6.7], [29.29, 25.73]],
           [[13.3, 0.11], [76.49, 21.11]], [[18.99, 3.85], [17.38, 0.7]]]
    idx = spatial_grid.Index(pts, 4, True)
    if idx.nearest([0, 0]) != 6:            # end of path 0 at (7.62, 6.74)
        fail("fixed: expected end id 6 nearest to origin, got %r" % idx.nearest([0, 0]))
    idx.remove_path(0)
    if idx.nearest([0, 0]) != 4:            # start of path 4 at (13.3, 0.11)
        fail("fixed: expected 4 after removing path 0, got %r" % idx.nearest([0, 0]))
    # reverse disabled: an end is never returned even when the query sits on it
    idx = spatial_grid.Index(pts, 3, False)
    got = idx.nearest([7.62, 6.74])
    if got != 1:
        fail("fixed: reverse=False must return start of path 1, got %r" % got)
    if len(idx.lookup) != len(pts):
        fail("fixed: lookup length with reverse=False")
    # identifier 0 is a legitimate answer (it is falsy!)
    idx = spatial_grid.Index([[[0.0, 0.0], [9.0, 9.0]], [[5.0, 5.0], [1.0, 8.0]]], 1, False)
    if idx.nearest([0.1, 0.1]) != 0 or idx.nearest([0.1, 0.1]) is None:
        fail("fixed: identifier 0 not returned")
    idx.remove_path(1)
    if idx.nearest([100, 100]) != 0:
        fail("fixed: identifier 0 not returned when it is the only path")
    idx.remove_path(0)
    if idx.nearest([0.1, 0.1]) is not None:
        fail("fixed: None expected for empty index")
    # global fallback: only far-away cells populated
    far = [[[0.0, 0.0], [0.5, 0.5]], [[100.0, 100.0], [99.0, 99.5]], [[100.0, 0.0], [99.0, 1.0]]]
    idx = spatial_grid.Index(far, 10, True)
    idx.remove_path(0)
    if idx.nearest([1.0, 1.0]) != 5:        # end of path 2 (99,1): d2=9604 < others
        fail("fixed: fallback expected 5, got %r" % idx.nearest([1.0, 1.0]))
    # two independent indexes do not share state
    one = spatial_grid.Index(far, 2, True)
    two = spatial_grid.Index(pts, 5, False)
    one.remove_path(1)
    if len(two.grid) != 25 or len(one.grid) != 4 or sum(map(len, two.grid)) != len(pts):
        fail("fixed: instances share state")
    if sum(map(len, one.grid)) != 4:
        fail("fixed: removal removed wrong number of ends")


def main():
    fixed_cases()
    rng = random.Random(20240513)
    kinds = ["float", "lattice", "lattice_f", "vertical", "horizontal", "clusters", "tuple", "tiny"]
    n_case = 0
    for kind in kinds:
        for bins in (1, 2, 3, 4, 5, 7, 12):
            for reverse in (False, True):
                for count in (1, 2, 3, 9, 24):
                    n_case += 1
                    if bins == 12 and count == 24 and kind not in ("float", "clusters"):
                        continue
                    run_scenario(rng, kind, count, bins, reverse,
                                 "[%s n=%d bins=%d rev=%r #%d]" % (kind, count, bins, reverse, n_case))
    # coverage sanity: the interesting branches were really exercised
    for key, least in (("scenarios", 300), ("queries", 20000), ("fallbacks", 300), ("none", 1000),
                       ("zero_hits", 500), ("within_cell", 1000), ("ties", 500)):
        if COUNTS[key] < least:
            fail("coverage: only %d %s (wanted >= %d)" % (COUNTS[key], key, least))
    report_and_exit()


if __name__ == "__main__":
    main()
