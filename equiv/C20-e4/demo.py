import os, sys; sys.path.insert(0, os.environ.get('PLOTINK_ROOT', '/tmp/wtf_C20'))
# Demo / evidence for property C20 (text_utils.xml_escape and text_utils.format_hms).
# Checks the property against independent oracles:
#   * xml_escape : per-character reference mapping, "no bare specials" scan, own un-escaper,
#                  and a real XML parser (expat via ElementTree) for element content and
#                  single-/double-quoted attributes.
#   * format_hms : exact rational arithmetic (fractions / decimal) for the rounding, own
#                  field split, plus a parser of the produced text that re-derives the value.
# Deterministic (fixed seeds); no hardware, no network.
import itertools
import math
import random
import re
import xml.etree.ElementTree as ET
from decimal import Decimal, ROUND_HALF_EVEN
from fractions import Fraction

from plotink import text_utils

FAILURES = []
CHECKS = [0]


def check(cond, msg):
    CHECKS[0] += 1
    if not cond:
        FAILURES.append(msg)
        if len(FAILURES) > 25:
            finish()


def finish():
    if FAILURES:
        print("C20 demo: %d FAILURES (of %d checks)" % (len(FAILURES), CHECKS[0]))
        for f in FAILURES[:25]:
            print("  FAIL:", f)
        sys.exit(1)
    print("C20 demo: OK (%d checks)" % CHECKS[0])
    sys.exit(0)


# ----------------------------------------------------------------------------------------
# Part 1: xml_escape
# ----------------------------------------------------------------------------------------
REF_ENTITY = {'&': '&amp;', '<': '&lt;', '>': '&gt;', '"': '&quot;', "'": '&apos;'}
ENTITY_RE = re.compile(r'&(amp|lt|gt|quot|apos);')
NAME_TO_CHAR = {'amp': '&', 'lt': '<', 'gt': '>', 'quot': '"', 'apos': "'"}


def ref_escape(text):
    """Independent oracle: one pass, character by character."""
    out = []
    for ch in text:
        out.append(REF_ENTITY[ch] if ch in REF_ENTITY else ch)
    return ''.join(out)


def ref_unescape(text):
    """Inverse for the five predefined entities only (single pass, so &amp;lt; -> &lt;)."""
    return ENTITY_RE.sub(lambda m: NAME_TO_CHAR[m.group(1)], text)


def norm_content(text):
    """XML 1.0 end-of-line handling, as any conforming parser applies to literal text."""
    return text.replace('\r\n', '\n').replace('\r', '\n')


def norm_attr(text):
    """XML 1.0 attribute-value normalisation of literal white space (CDATA attributes)."""
    return re.sub(r'[\t\n\r]', ' ', norm_content(text))


def check_escape(text):
    esc = text_utils.xml_escape(text)
    check(isinstance(esc, str), "xml_escape(%r) is not a str" % (text,))
    check(esc == ref_escape(text), "xml_escape(%r) = %r, expected %r" % (text, esc, ref_escape(text)))
    # none of the five special characters outside entities
    stripped = ENTITY_RE.sub('', esc)
    check(not any(c in stripped for c in '&<>"\''),
          "xml_escape(%r) = %r leaves a bare special character" % (text, esc))
    check(ref_unescape(esc) == text, "unescape(xml_escape(%r)) = %r" % (text, ref_unescape(esc)))
    # the number of entities equals the number of special characters in the input
    check(len(ENTITY_RE.findall(esc)) == sum(text.count(c) for c in REF_ENTITY),
          "entity count wrong for %r -> %r" % (text, esc))
    # real parser: element content, double-quoted attribute, single-quoted attribute
    try:
        doc = '<r a="%s" b=\'%s\'>%s</r>' % (esc, esc, esc)
        root = ET.fromstring(doc.encode('utf-8'))
    except ET.ParseError as err:
        check(False, "parser rejected escaped form of %r: %s" % (text, err))
        return
    check(len(root) == 0, "escaped %r created child elements" % (text,))
    check(sorted(root.attrib) == ['a', 'b'], "escaped %r changed attribute set: %r" % (text, root.attrib))
    check((root.text or '') == norm_content(text),
          "content read back %r for %r" % (root.text, text))
    check(root.attrib.get('a') == norm_attr(text),
          "dq attribute read back %r for %r" % (root.attrib.get('a'), text))
    check(root.attrib.get('b') == norm_attr(text),
          "sq attribute read back %r for %r" % (root.attrib.get('b'), text))
    if not any(c in text for c in '\t\n\r'):
        check((root.text or '') == text and root.attrib['a'] == text and root.attrib['b'] == text,
              "exact round trip failed for %r" % (text,))


def xml_part():
    # documented examples
    for src, want in [("Hello&Goodbye", 'Hello&amp;Goodbye'), ("<test>", '&lt;test&gt;'),
                      ("The sun's out today", 'The sun&apos;s out today'),
                      ('"Lemon Pie"', '&quot;Lemon Pie&quot;'), ("", ""), ("plain", "plain")]:
        check(text_utils.xml_escape(src) == want, "xml_escape(%r) != %r" % (src, want))

    # exhaustive over a small alphabet containing every special plus entity fragments
    alphabet = ['&', '<', '>', '"', "'", ';', '#', 'amp', 'lt']
    for n in range(0, 5):
        for tup in itertools.product(alphabet, repeat=n):
            check_escape(''.join(tup))

    # pre-escaped and tricky texts
    tricky = ['&amp;', '&amp;amp;', '&lt;tag attr="v" other=\'w\'&gt;', '&#60;', '&#x26;', '&&&&',
              '<![CDATA[x]]>', ']]>', '<!-- c -->', '<?pi?>', '&quot;&apos;', '"\'"\'', "'\"'\"",
              'a&b<c>d"e\'f', '&lt', 'lt;', '&;', '& amp;', '&amp', '\u00e9&\u4e2d<\U0001f600>',
              'tab\there', 'line\nfeed', 'cr\rhere', 'crlf\r\nhere', '  lead and trail  ',
              '\ud7ff\ue000\ufffd', '\U00010000\U0010ffff', '&' * 50 + '<' * 50 + "'" * 50]
    for text in tricky:
        check_escape(text)
        # escaping twice must un-escape twice (ampersand is handled, not skipped)
        twice = text_utils.xml_escape(text_utils.xml_escape(text))
        check(ref_unescape(ref_unescape(twice)) == text, "double escape broke %r" % (text,))

    # every single legal BMP-boundary / ASCII character on its own and embedded
    singles = [chr(c) for c in [0x9, 0xA, 0xD] + list(range(0x20, 0x180))]
    singles += ['\ud7ff', '\ue000', '\ufffd', '\U00010000', '\U0010ffff', '\u2028', '\u0085']
    for ch in singles:
        check_escape(ch)
        check_escape('x' + ch + '&' + ch)

    # random strings over the XML-legal character set, biased towards specials
    rng = random.Random(20_0020)

    def legal_char():
        r = rng.random()
        if r < 0.35:
            return rng.choice('&<>"\'')
        if r < 0.45:
            return rng.choice(['amp;', 'lt;', 'gt;', 'quot;', 'apos;', '#38;', ';'])
        if r < 0.50:
            return rng.choice('\t\n\r ')
        if r < 0.80:
            return chr(rng.randint(0x20, 0x7e))
        if r < 0.90:
            return chr(rng.randint(0xa0, 0xd7ff))
        if r < 0.95:
            return chr(rng.randint(0xe000, 0xfffd))
        return chr(rng.randint(0x10000, 0x10ffff))

    for _ in range(3000):
        check_escape(''.join(legal_char() for _ in range(rng.randint(0, 40))))


# ----------------------------------------------------------------------------------------
# Part 2: format_hms
# ----------------------------------------------------------------------------------------
def nearest_second(value):
    """Exact nearest integer of a float/int, ties to even (what 'round' documents)."""
    frac = Fraction(value)
    floor = frac.numerator // frac.denominator
    rest = frac - floor
    if rest > Fraction(1, 2):
        return floor + 1
    if rest < Fraction(1, 2):
        return floor
    return floor if floor % 2 == 0 else floor + 1


def ref_hms(seconds):
    """Independent oracle for a duration already expressed in seconds."""
    if seconds < 10:
        milli = Decimal(seconds).quantize(Decimal('0.001'), rounding=ROUND_HALF_EVEN)
        return '%s Seconds' % milli
    total = nearest_second(seconds)
    hours = total // 3600
    minutes = (total - 3600 * hours) // 60
    secs = total - 3600 * hours - 60 * minutes
    if total < 60:
        return '%02d Seconds' % total
    if total < 3600:
        return '%d:%02d (Minutes, seconds)' % (minutes, secs)
    return '%d:%02d:%02d (Hours, minutes, seconds)' % (hours, minutes, secs)


RE_MS = re.compile(r'^(\d+)\.(\d{3}) Seconds$')
RE_S = re.compile(r'^(\d{2}) Seconds$')
RE_M = re.compile(r'^(\d+):(\d{2}) \(Minutes, seconds\)$')
RE_H = re.compile(r'^(\d+):(\d{2}):(\d{2}) \(Hours, minutes, seconds\)$')


def check_text_semantics(seconds, text):
    """Re-derive the duration from the produced text and compare (does not use ref_hms)."""
    if seconds < 10:
        m = RE_MS.match(text)
        check(m is not None, "sub-10s form wrong for %r: %r" % (seconds, text))
        if m:
            shown = Fraction(int(m.group(1)) * 1000 + int(m.group(2)), 1000)
            check(abs(shown - Fraction(seconds)) <= Fraction(1, 2000),
                  "millisecond text %r is not within 0.5 ms of %r" % (text, seconds))
        return
    total = nearest_second(seconds)
    check(abs(Fraction(total) - Fraction(seconds)) <= Fraction(1, 2), "oracle self-check")
    if total < 60:
        m = RE_S.match(text)
        check(m is not None and int(m.group(1)) == total, "ss form wrong for %r: %r" % (seconds, text))
    elif total < 3600:
        m = RE_M.match(text)
        check(m is not None, "m:ss form wrong for %r: %r" % (seconds, text))
        if m:
            mm, ss = int(m.group(1)), int(m.group(2))
            check(1 <= mm <= 59 and 0 <= ss <= 59, "fields out of range for %r: %r" % (seconds, text))
            check(mm * 60 + ss == total, "m:ss value wrong for %r: %r" % (seconds, text))
    else:
        m = RE_H.match(text)
        check(m is not None, "h:mm:ss form wrong for %r: %r" % (seconds, text))
        if m:
            hh, mm, ss = int(m.group(1)), int(m.group(2)), int(m.group(3))
            check(hh >= 1 and 0 <= mm <= 59 and 0 <= ss <= 59,
                  "fields out of range for %r: %r" % (seconds, text))
            check(hh * 3600 + mm * 60 + ss == total, "h:mm:ss value wrong for %r: %r" % (seconds, text))
            check(m.group(1) == str(hh), "hours have leading zeros for %r: %r" % (seconds, text))


def check_seconds(seconds):
    got = text_utils.format_hms(seconds)
    check(isinstance(got, str), "format_hms(%r) not a str" % (seconds,))
    check(got == ref_hms(seconds), "format_hms(%r) = %r, expected %r" % (seconds, got, ref_hms(seconds)))
    check_text_semantics(seconds, got)
    check(text_utils.format_hms(seconds, False) == got, "positional False differs for %r" % (seconds,))
    check(text_utils.format_hms(seconds, milliseconds=False) == got, "keyword False differs for %r" % (seconds,))


def check_millis(millis):
    seconds = millis / 1000.0
    got = text_utils.format_hms(millis, True)
    check(got == text_utils.format_hms(seconds),
          "format_hms(%r, True) = %r but format_hms(%r) = %r" % (millis, got, seconds, text_utils.format_hms(seconds)))
    check(got == ref_hms(seconds), "format_hms(%r, True) = %r, expected %r" % (millis, got, ref_hms(seconds)))
    check(text_utils.format_hms(millis, milliseconds=True) == got, "keyword True differs for %r" % (millis,))
    check_text_semantics(seconds, got)


def hms_part():
    # documented expectations
    documented = [
        ((3600,), '1:00:00 (Hours, minutes, seconds)'), ((3600.00, True), '3.600 Seconds'),
        ((12345.67890, True), '12 Seconds'), ((12345.67890,), '3:25:46 (Hours, minutes, seconds)'),
        ((1.23456,), '1.235 Seconds'), ((65,), '1:05 (Minutes, seconds)'),
        ((3500,), '58:20 (Minutes, seconds)'), ((1.0456e7,), '2904:26:40 (Hours, minutes, seconds)'),
        ((9.999,), '9.999 Seconds'), ((9999, True), '9.999 Seconds'), ((10.0001,), '10 Seconds'),
        ((10.49,), '10 Seconds'), ((10.51,), '11 Seconds'), ((179.999,), '3:00 (Minutes, seconds)'),
        ((179.49,), '2:59 (Minutes, seconds)'), ((3599.6,), '1:00:00 (Hours, minutes, seconds)'),
        ((0,), '0.000 Seconds'), ((0.0,), '0.000 Seconds'), ((10,), '10 Seconds'),
        ((59.4,), '59 Seconds'), ((59.5,), '1:00 (Minutes, seconds)'), ((60,), '1:00 (Minutes, seconds)'),
        ((3599,), '59:59 (Minutes, seconds)'), ((3599.4999,), '59:59 (Minutes, seconds)'),
        ((3599.5,), '1:00:00 (Hours, minutes, seconds)'), ((86399.7,), '24:00:00 (Hours, minutes, seconds)'),
        ((10 ** 7,), '2777:46:40 (Hours, minutes, seconds)'), ((10 ** 10, True), '2777:46:40 (Hours, minutes, seconds)'),
        ((9.9996,), '10.000 Seconds'), ((9999.9, True), '10.000 Seconds'), ((10000, True), '10 Seconds'),
        ((10.5,), '10 Seconds'), ((11.5,), '12 Seconds'), ((12.5,), '12 Seconds'),
        ((60500, True), '1:00 (Minutes, seconds)'), ((61500, True), '1:02 (Minutes, seconds)'),
    ]
    for args, want in documented:
        got = text_utils.format_hms(*args)
        check(got == want, "format_hms%r = %r, expected %r" % (args, got, want))

    # every whole second in a dense low range and around every interesting boundary (int and float)
    whole = set(range(0, 3700))
    for centre in [9, 10, 59, 60, 61, 599, 600, 3540, 3599, 3600, 3601, 3659, 3660, 7199, 7200, 35999, 36000,
                   86399, 86400, 359999, 360000, 360001, 999999, 1000000, 3599999, 3600000, 9999999, 10 ** 7]:
        for delta in range(-3, 4):
            if 0 <= centre + delta <= 10 ** 7:
                whole.add(centre + delta)
    whole.update(range(0, 10 ** 7, 9973))
    for sec in sorted(whole):
        check_seconds(sec)
        check_seconds(float(sec))
        check_millis(sec * 1000)

    # ties and their float neighbours, thresholds 10 / 59.5 / 3599.5 and their neighbours
    special = []
    for k in list(range(0, 130)) + [3598, 3599, 3600, 3601, 7199, 86399, 359999, 9999998, 9999999]:
        tie = k + 0.5
        if tie <= 10 ** 7:
            special += [tie, math.nextafter(tie, 0.0), math.nextafter(tie, math.inf)]
    for base in [10.0, 9.9995, 9.999, 60.0, 59.5, 3600.0, 3599.5, 0.0005, 0.0015, 0.0025, 1.0005, 2.5, 1e-9, 5e-324]:
        special += [base, math.nextafter(base, 0.0), math.nextafter(base, math.inf)]
    special.append(float(10 ** 7))
    special.append(math.nextafter(float(10 ** 7), 0.0))
    for value in special:
        check_seconds(value)

    # millisecond inputs: all integers up to 75 s, ties, and floats
    for ms in itertools.chain(range(0, 12001), range(12001, 75001, 7), range(59000, 61000)):
        check_millis(ms)
    for ms in [9999.4, 9999.5, 9999.9999, 10000.0, 10499.999, 10500.0, 10500.001, 59499.0, 59500.0, 59501.0,
               3599499, 3599500, 3599501, 3600000, 86399500, 10 ** 10, 10 ** 10 - 1, 10 ** 10 - 500, 0.4, 0.5, 1.5]:
        check_millis(ms)

    # random durations (seeded): uniform, log-uniform and "near a tie"
    rng = random.Random(2020)
    for _ in range(2500):
        check_seconds(rng.uniform(0.0, 1.0e7))
        check_seconds(rng.uniform(0.0, 4000.0))
        check_seconds(10.0 ** rng.uniform(-4.0, 7.0))
        check_seconds(rng.randint(0, 10 ** 7))
        check_millis(rng.randint(0, 10 ** 10))
        check_millis(rng.uniform(0.0, 1.0e10))
        check_millis(rng.uniform(0.0, 4.0e6))
        check_seconds(rng.randint(9, 10 ** 5) + 0.5 + rng.choice([-1, 0, 1]) * 10.0 ** rng.uniform(-9, -1))


if __name__ == '__main__':
    xml_part()
    hms_part()
    finish()
