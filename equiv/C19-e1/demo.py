import os, sys; sys.path.insert(0, os.environ.get('PLOTINK_ROOT', '/tmp/wte_C19'))
# Demo / check for property C19 (port discovery and lookup by name).
#
# The serial-port enumerator `comports` of both layers (plotink.ebb_serial, the
# legacy layer, and plotink.ebb3_serial, the EBB3 layer) is replaced by a stub
# that hands out fake port lists.  Every result is compared with an oracle that
# is written here, independently, from the text of the property, and the
# clauses of the property are also checked one by one.
#
# Deterministic, no hardware, no network.

import itertools
import random

from serial.tools.list_ports_common import ListPortInfo

from plotink import ebb_serial, ebb3_serial

PRODUCT = "EiBotBoard"
VIDPID = "USB VID:PID=04D8:FD92"

# --------------------------------------------------------------------------
# pool of descriptors: (device, description, hwid)
POOL = [
    # macOS / Linux style EBBs (description carries the product name)
    ("/dev/cu.usbmodem1401", "EiBotBoard,Axi7", "USB VID:PID=04D8:FD92 SER=Axi7 LOCATION=20-1"),
    ("/dev/cu.usbmodem1", "EiBotBoard", "USB VID:PID=04D8:FD92 LOCATION=20-2"),
    ("/dev/ttyACM0", "EiBotBoard,East Wing", "USB VID:PID=04D8:FD92 SER=East Wing LOCATION=1-1.2:1.0"),
    ("/dev/ttyACM1", "EiBotBoard ", "USB VID:PID=04D8:FD92 SER=Hidden LOCATION=1-1.3"),
    ("/dev/ttyACM2", "EiBotBoard - NextDraw", "n/a"),
    # Windows style EBBs (generic description, found by VID/PID only)
    ("COM4", "USB Serial Device (COM4)", "USB VID:PID=04D8:FD92 SER=WINBOT LOCATION=1-3"),
    ("COM7", "USB Serial Device (COM7)", "USB VID:PID=04D8:FD92 LOCATION=1-4"),
    ("COM9", "USB Serial Device (COM9)", "USB VID:PID=04D8:FD92 SNR=OLDBOT"),
    ("COM10", "USB Serial Device (COM10)", "USB VID:PID=04D8:FD92 SER=AB LOCATION=1-5"),
    ("COM11", "USB Serial Device (COM11)", "USB VID:PID=04D8:FD92 SER=My_Bot LOCATION=1-6"),
    ("COM14", "USB Serial Device (COM14)", "USB VID:PID=04D8:FD92 LOCATION=1-7 SER=Tail"),
    ("COM15", "USB Serial Device (COM15)", "USB VID:PID=04D8:FD92 SNR=ZZ"),
    ("COM16", "USB Serial Device (COM16)", "USB VID:PID=04D8:FD92 SER=Axi7 LOCATION=1-8"),
    # foreign devices
    ("COM1", "Communications Port (COM1)", "ACPI\\PNP0501\\1"),
    ("/dev/ttyUSB0", "FT232R USB UART", "USB VID:PID=0403:6001 SER=A50285BI LOCATION=1-1"),
    ("/dev/cu.Bluetooth-Incoming-Port", "n/a", "n/a"),
    ("COM12", "Fake EiBotBoard", "USB VID:PID=1234:5678 SER=Axi7 LOCATION=9"),
    ("COM13", "Thing", "XUSB VID:PID=04D8:FD92 SER=WINBOT LOCATION=2"),
    ("COM17", "eibotboard,lower", "USB VID:PID=04d8:fd92 SER=lower LOCATION=3"),
    ("/dev/ttyS0", "", ""),
]


def as_info(triple):
    info = ListPortInfo(triple[0])
    info.description = triple[1]
    info.hwid = triple[2]
    return info


# --------------------------------------------------------------------------
# the stub enumerator
class Enumerator:
    def __init__(self):
        self.ports = []
        self.calls = 0
        self.fail = False

    def __call__(self, *args, **kwargs):
        self.calls += 1
        if self.fail:
            raise TypeError("simulated enumeration failure")
        return (p for p in self.ports)      # a one-shot iterator, like some back ends


ENUM = Enumerator()
ebb_serial.comports = ENUM
ebb3_serial.comports = ENUM


# --------------------------------------------------------------------------
# oracle, written from the property text
def is_by_name(port):
    return port[1][:len(PRODUCT)] == PRODUCT


def is_by_id(port):
    return port[2][:len(VIDPID)] == VIDPID


def oracle_first(ports):
    by_name = [p for p in ports if is_by_name(p)]
    if by_name:
        return by_name[0][0]
    by_id = [p for p in ports if is_by_id(p)]
    if by_id:
        return by_id[0][0]
    return None


def oracle_listing(ports):
    keep = [p for p in ports if is_by_name(p) or is_by_id(p)]
    return keep if keep else None


def cut_tag(hwid, opener, closer):
    '''text after `opener` up to `closer` (searched after the opener; if it is
    not there the last character is dropped, as str.find gives -1)'''
    start = hwid.index(opener) + len(opener)
    if closer is None:
        return hwid[start:]
    stop = hwid.find(closer, start)
    return hwid[start:stop]


def oracle_names(ports, legacy):
    boards = oracle_listing(ports)
    if boards is None:
        return None
    names = []
    for dev, desc, hwid in [(b[0], b[1], b[2]) for b in boards]:
        name = None
        if is_by_name((dev, desc, hwid)) and len(desc) > 11:
            name = desc[11:]
        if name is None and "SER=" in hwid and " LOCAT" in hwid:
            tag = cut_tag(hwid, "SER=", " LOCAT")
            if len(tag) >= 3:
                name = tag
        if name is None and legacy and "SNR=" in hwid:
            tag = cut_tag(hwid, "SNR=", None)
            if len(tag) >= 3:
                name = tag
        names.append(dev if name is None else name)
    return names


def lookup_hit(port, name, legacy):
    dev, desc, hwid = port[0].lower(), port[1].lower(), port[2].lower()
    key = name.lower()
    tests = [
        ("ser=" + key) in hwid,
        legacy and ("snr=" + key) in hwid,
        ("(" + key + ")") in desc,
        desc[11:][:len(key)] == key,
        dev[:len(key)] == key,
    ]
    return True in tests


def oracle_lookup(ports, name, legacy):
    if name is None:
        return None
    for port in ports:
        if lookup_hit(port, name, legacy):
            return port[0]
    return None


# --------------------------------------------------------------------------
CHECKS = 0


def expect(cond, *context):
    global CHECKS
    CHECKS += 1
    if not cond:
        print("FAIL:", *context)
        sys.exit(1)


def same_port_list(got, want):
    if want is None or got is None:
        return got is None and want is None
    return isinstance(got, list) and len(got) == len(want) and \
        all(g is w for g, w in zip(got, want))


def swap_case(text):
    return text.swapcase()


FIXED_NAMES = ["", "x", "COM", "com4", "COM1", "(COM4)", "axi", "AXI7", "EiBotBoard",
               "east", "East Wing", "east_wing", "My Bot", "my_bot", "OLDBOT", "oldbot",
               "WinBot", "zz", "ab", "tai", "Tail", "hidden", "nextdraw", "- NextDraw",
               "/dev/ttyACM", "/DEV/CU.USBMODEM1", "n/a", "lower", "A50285BI", "nothing-here"]


def check_port_list(ports, lookups=True):
    ENUM.ports = ports
    ENUM.fail = False
    devices = [p[0] for p in ports]

    # ---- first-board discovery
    want_first = oracle_first(ports)
    got_legacy = ebb_serial.findPort()
    board = ebb3_serial.EBB3()
    board.port_name = "stale"
    ret = board.find_first()
    expect(got_legacy == want_first, "findPort", ports, got_legacy, want_first)
    expect(ret is None, "find_first return value", ports, ret)
    expect(board.port_name == want_first, "find_first", ports, board.port_name, want_first)
    expect(want_first is None or want_first in devices, "first in list")
    # clause by clause
    name_hits = [p[0] for p in ports if p[1].startswith(PRODUCT)]
    id_hits = [p[0] for p in ports if p[2].startswith(VIDPID)]
    if name_hits:
        expect(got_legacy == name_hits[0], "first by product name", ports)
    elif id_hits:
        expect(got_legacy == id_hits[0], "first by vid/pid", ports)
    else:
        expect(got_legacy is None, "no board -> None", ports)

    # ---- listing
    want_list = oracle_listing(ports)
    got_l = ebb_serial.listEBBports()
    got_3 = ebb3_serial.list_ebb_ports()
    expect(same_port_list(got_l, want_list), "listEBBports", ports, got_l)
    expect(same_port_list(got_3, want_list), "list_ebb_ports", ports, got_3)

    # ---- names
    names_l = ebb_serial.list_named_ebbs()
    names_3 = ebb3_serial.list_named_ebbs()
    expect(names_l == oracle_names(ports, True), "legacy list_named_ebbs", ports, names_l,
           oracle_names(ports, True))
    expect(names_3 == oracle_names(ports, False), "ebb3 list_named_ebbs", ports, names_3,
           oracle_names(ports, False))
    if want_list is None:
        expect(names_l is None and names_3 is None, "names None when no boards")
    else:
        expect(len(names_l) == len(want_list) == len(names_3), "one name per board")
        expect(all(isinstance(n, str) and n for n in names_l + names_3) or
               any(p[0] == "" for p in ports), "names are non-empty strings", names_l, names_3)

    if not lookups:
        return

    # ---- lookups
    names = list(FIXED_NAMES)
    boards = want_list or []
    for idx, brd in enumerate(boards):
        names.extend([names_l[idx], names_3[idx], brd[0]])
    for p in ports:
        names.append(p[0])
        for opener, closer in (("SER=", " LOCAT"), ("SNR=", None)):
            if opener in p[2]:
                names.append(cut_tag(p[2], opener, closer))
    seen = []
    for n in names:
        for variant in (n, n.lower(), n.upper(), swap_case(n)):
            if variant not in seen:
                seen.append(variant)

    for name in seen:
        got_l = ebb_serial.find_named_ebb(name)
        got_3 = ebb3_serial.find_named(name)
        want_l = oracle_lookup(ports, name, True)
        want_3 = oracle_lookup(ports, name, False)
        expect(got_l == want_l, "find_named_ebb", ports, repr(name), got_l, want_l)
        expect(got_3 == want_3, "find_named", ports, repr(name), got_3, want_3)
        expect(got_l is None or got_l in devices, "legacy result is a listed port")
        expect(got_3 is None or got_3 in devices, "ebb3 result is a listed port")
        if not any(("snr=" + name.lower()) in p[2].lower() for p in ports):
            expect(got_l == got_3, "layers agree", ports, repr(name), got_l, got_3)

    # a board is found by the name the library reports for it, by its tag and
    # by its port name, in any letter case, when no earlier port also matches
    for legacy, reported, finder in ((True, names_l, ebb_serial.find_named_ebb),
                                     (False, names_3, ebb3_serial.find_named)):
        for idx, brd in enumerate(boards):
            position = [i for i, p in enumerate(ports) if p is brd][0]
            keys = [reported[idx], brd[0]]
            if "SER=" in brd[2] and " LOCAT" in brd[2][brd[2].index("SER="):]:
                keys.append(cut_tag(brd[2], "SER=", " LOCAT"))
            if legacy and "SNR=" in brd[2]:
                keys.append(cut_tag(brd[2], "SNR=", None))
            for key in keys:
                for variant in (key, key.lower(), key.upper(), swap_case(key)):
                    earlier = any(lookup_hit(p, variant, legacy) for p in ports[:position])
                    if not earlier:
                        got = finder(variant)
                        expect(got == brd[0], "self lookup", legacy, ports, repr(variant),
                               got, brd[0])


def check_special_cases():
    # no name given: nothing is looked up (and nothing enumerated)
    ENUM.ports = [POOL[0]]
    ENUM.fail = False
    before = ENUM.calls
    expect(ebb_serial.find_named_ebb(None) is None, "legacy lookup of None")
    expect(ebb3_serial.find_named(None) is None, "ebb3 lookup of None")
    expect(ebb3_serial.find_named() is None, "ebb3 lookup default argument")
    expect(ENUM.calls == before, "no enumeration when no name is given")

    # each call enumerates exactly once
    for call in (ebb_serial.findPort, ebb_serial.listEBBports, ebb_serial.list_named_ebbs,
                 ebb3_serial.list_ebb_ports, ebb3_serial.list_named_ebbs,
                 ebb3_serial.EBB3().find_first,
                 lambda: ebb_serial.find_named_ebb("zzz"),
                 lambda: ebb3_serial.find_named("zzz")):
        before = ENUM.calls
        call()
        expect(ENUM.calls == before + 1, "one enumeration per call", call)

    # enumeration failure (TypeError from the back end)
    ENUM.fail = True
    expect(ebb_serial.findPort() is None, "findPort on failure")
    expect(ebb_serial.listEBBports() is None, "listEBBports on failure")
    expect(ebb_serial.list_named_ebbs() is None, "legacy names on failure")
    expect(ebb_serial.find_named_ebb("Axi7") is None, "legacy lookup on failure")
    expect(ebb3_serial.list_ebb_ports() is None, "list_ebb_ports on failure")
    expect(ebb3_serial.list_named_ebbs() is None, "ebb3 names on failure")
    expect(ebb3_serial.find_named("Axi7") is None, "ebb3 lookup on failure")
    board = ebb3_serial.EBB3()
    board.port_name = "kept"
    expect(board.find_first() is None, "find_first on failure returns None")
    expect(board.port_name == "kept", "find_first on failure leaves port_name alone")
    ENUM.fail = False

    # other exceptions are not swallowed
    class Boom(Exception):
        pass

    def boom():
        raise Boom()
    for mod in (ebb_serial, ebb3_serial):
        mod.comports = boom
    for call in (ebb_serial.findPort, ebb_serial.listEBBports, ebb_serial.list_named_ebbs,
                 lambda: ebb_serial.find_named_ebb("a"), ebb3_serial.list_ebb_ports,
                 ebb3_serial.list_named_ebbs, lambda: ebb3_serial.find_named("a"),
                 ebb3_serial.EBB3().find_first):
        try:
            call()
        except Boom:
            expect(True)
        else:
            expect(False, "exception swallowed", call)
    for mod in (ebb_serial, ebb3_serial):
        mod.comports = ENUM

    # documented examples
    ENUM.ports = [POOL[13], POOL[5], POOL[0], POOL[7]]   # COM1, COM4 WINBOT, mac Axi7, COM9 OLDBOT
    expect(ebb_serial.findPort() == "/dev/cu.usbmodem1401", "name match beats earlier vid/pid match")
    expect([p[0] for p in ebb_serial.listEBBports()] == ["COM4", "/dev/cu.usbmodem1401", "COM9"],
           "listing order")
    expect(ebb_serial.list_named_ebbs() == ["WINBOT", "Axi7", "OLDBOT"], "legacy names")
    expect(ebb3_serial.list_named_ebbs() == ["WINBOT", "Axi7", "COM9"], "ebb3 names")
    expect(ebb_serial.find_named_ebb("oldbot") == "COM9", "SNR= tag, legacy")
    expect(ebb3_serial.find_named("oldbot") is None, "SNR= tag, ebb3")
    expect(ebb_serial.find_named_ebb("com4") == "COM4" == ebb3_serial.find_named("com4"), "by port")
    expect(ebb_serial.find_named_ebb("AXI7") == "/dev/cu.usbmodem1401" ==
           ebb3_serial.find_named("AXI7"), "by name tag")
    expect(ebb_serial.find_named_ebb("winbot") == "COM4" == ebb3_serial.find_named("winbot"),
           "by SER= tag")
    expect(ebb_serial.find_named_ebb("com") == "COM1" == ebb3_serial.find_named("com"),
           "prefix of a port name: first port in the list")


def main():
    rng = random.Random(1919)

    check_special_cases()

    # exhaustive: every list of 0, 1 and 2 pool entries (tuples)
    for size in (0, 1, 2):
        for combo in itertools.product(POOL, repeat=size):
            check_port_list(list(combo))

    # every list of 3 pool entries: discovery, listing and names only
    for combo in itertools.product(POOL, repeat=3):
        check_port_list(list(combo), lookups=False)

    # random longer lists, as tuples and as pyserial ListPortInfo objects
    for trial in range(260):
        size = rng.randint(3, 9)
        combo = [rng.choice(POOL) for _ in range(size)]
        if trial % 2:
            combo = [as_info(c) for c in combo]
        check_port_list(combo)

    # lists without any board, and boards only at the very end
    foreign = [p for p in POOL if oracle_listing([p]) is None]
    boards = [p for p in POOL if oracle_listing([p]) is not None]
    check_port_list(list(foreign))
    for brd in boards:
        check_port_list(list(foreign) + [brd])
        check_port_list([as_info(brd)] + [as_info(f) for f in foreign])
    check_port_list(list(boards))
    check_port_list(list(reversed(boards)))

    print("C19 demo: all %d checks passed" % CHECKS)
    return 0


if __name__ == "__main__":
    sys.exit(main())
