import os, sys; sys.path.insert(0, os.environ.get('PLOTINK_ROOT', '/tmp/wtf_C03'))
"""
Demo / evidence for property C03 (step-limited LM move duration).

Checks plotink.ebb_calc.calculate_lm and plotink.ebb_motion.moveTimeLM against

  1. a tick-by-tick simulation of the C01 accumulator recurrence (independent oracle),
  2. an exact-integer closed-form oracle (cross-validated against 1.) for long moves,
  3. the consequences named in the property (accumulator range, replay through the
     timed-move predictor move_dist_lt, legacy negative-step mirroring, (0,0,0) cases),
  4. a frozen reference transcription of the published algorithm, on a much wider
     input set (including inputs on which the published algorithm is known to deviate
     from the recurrence, and inputs outside the property's domain), so that any
     behavioural slip in a refactoring is caught even there.

Deterministic, no hardware, no network.

Note on two input classes that are NOT compared with the oracle (only with the frozen
reference): the published algorithm itself deviates from the recurrence there, in the
unmodified library as well:
  class A: the rate changes sign between tick 1 and tick 2 (floor(1/2 - rate/accel) == 1);
  class B: a reversing move whose accumulator sits exactly on the step boundary one tick
           before the true end (exact integer root of the quadratic).
"""
import math
import random
from fractions import Fraction

import mpmath

from plotink import ebb_calc, ebb_motion

SEED = 50505
T31 = 1 << 31
RMAX = T31 - 1
FAILURES = []


def fail(msg):
    FAILURES.append(msg)
    if len(FAILURES) <= 25:
        print("FAIL:", msg)


# ----------------------------------------------------------------------------------
# Frozen reference: transcription of calculate_lm as published (plotink ebb_calc 1.0.1)
# ----------------------------------------------------------------------------------
def reference_calculate_lm(steps, rate, accel, accum="clear"):
    steps = int(steps)
    rate = int(rate)
    accel = int(accel)
    if steps == 0:
        return 0, 0, 0
    if accel == 0 and rate == 0:
        return 0, 0, 0
    if steps < 0:
        if rate < 0:
            return 0, 0, 0
        steps = -steps
        rate = -rate
        accel = -accel
    mpmath.mp.dps = 30
    rate_effective = rate + mpmath.mpf(accel) / 2 - int(accel/2)
    initial_rate_negative = False
    temp_rate = rate - int(accel / 2) + accel
    if temp_rate < 0:
        initial_rate_negative = True
    elif temp_rate == 0:
        if accel < 0:
            initial_rate_negative = True
    if accum == "clear":
        if initial_rate_negative:
            accum = 2147483647
        else:
            accum = 0
    else:
        accum = int(accum)
    if initial_rate_negative:
        accum_adj = accum - 2147483647
    else:
        accum_adj = accum
    t_rev_star = -1.0
    t_rev = -1
    if (accel != 0) and (rate != 0) and ((accel > 0) != (rate > 0)):
        t_rev_star = 0.5 - rate / accel
        t_rev = math.floor(t_rev_star)
    s_rev = 0
    if t_rev > 0:
        s_rev_star = rate_effective * t_rev + \
            mpmath.mpf('0.5') * accel * t_rev * t_rev + accum_adj
        s_rev_star = mpmath.fabs(s_rev_star / 2147483648)
        s_rev = int(mpmath.floor(s_rev_star))
    if (t_rev <= 1) or (s_rev >= steps):
        t_rev = -1
        if initial_rate_negative:
            pos_final = -steps
        else:
            pos_final = steps
        pos_f_adj = pos_final
    elif s_rev == 0:
        if accel > 0:
            pos_final = steps
            pos_f_adj = pos_final - 1
        else:
            pos_final = -1 * steps
            pos_f_adj = pos_final + 1
    else:
        reversed_steps = steps - s_rev
        net_steps = s_rev - reversed_steps
        if accel > 0:
            pos_final = -net_steps
            pos_f_adj = pos_final - 1
        else:
            pos_final = net_steps
            pos_f_adj = pos_final + 1
    if accel == 0:
        time_final_star = (2147483648 * pos_final - mpmath.mpf(accum_adj))/mpmath.mpf(rate)
    else:
        time_final_star = 0
        two_a = mpmath.mpf(accel)
        c_factor = accum_adj - mpmath.mpf(pos_f_adj) * 2147483648
        discriminant = rate_effective * rate_effective - 2 * two_a * c_factor
        neg_root = -1
        pos_root = -1
        if (discriminant >= 0) and (two_a != 0):
            sq_factor = mpmath.sqrt(discriminant)
            neg_root = (-rate_effective - sq_factor ) / two_a
            pos_root = (-rate_effective + sq_factor ) / two_a
            pos_root = mpmath.ceil(pos_root)
            neg_root = mpmath.ceil(neg_root)
            if (t_rev > 0) and (neg_root <= t_rev):
                neg_root = -1
            if (t_rev > 0) and (pos_root <= t_rev):
                pos_root = -1
        if neg_root > 0:
            time_final_star = neg_root
        if pos_root > 0:
            if neg_root > 0:
                if pos_root < neg_root:
                    time_final_star = pos_root
            else:
                time_final_star = pos_root
    time_final = int(mpmath.ceil(time_final_star))
    c_final = mpmath.mpf(accum) + rate_effective * time_final +\
                mpmath.mpf(accel) * time_final * time_final / 2
    c_final -= 2147483648 * mpmath.mpf(pos_final)
    return time_final, pos_final, int(c_final)


# ----------------------------------------------------------------------------------
# Independent oracles for the C01 recurrence
# ----------------------------------------------------------------------------------
def trunc_half(a):
    """accel/2 rounded towards zero, in exact integer arithmetic."""
    return a // 2 if a >= 0 else -((-a) // 2)


def normalise(steps, rate, accel, accum):
    """Common front end: trivial cases, legacy mirroring, 'clear' handling.
    Returns None for the (0,0,0) cases, else (steps, r0, accel, acc0)."""
    if steps == 0 or (rate == 0 and accel == 0):
        return None
    if steps < 0:
        if rate < 0:
            return None
        steps, rate, accel = -steps, -rate, -accel
    r0 = rate - trunc_half(accel)        # rate register before the first tick
    if accum == "clear":
        r1 = r0 + accel
        acc0 = RMAX if (r1 < 0 or (r1 == 0 and accel < 0)) else 0
    else:
        acc0 = accum
    return steps, r0, accel, acc0, rate


def sim_oracle(steps, rate, accel, accum, max_ticks):
    """Tick-by-tick: rate += accel; acc += rate; a step whenever acc leaves [0, 2^31).
    Returns (ticks, net position, accumulator), 'skip' if outside the domain."""
    norm = normalise(steps, rate, accel, accum)
    if norm is None:
        return (0, 0, 0)
    steps, r, accel, acc, _ = norm
    pos = count = tick = 0
    while tick < max_ticks:
        tick += 1
        r += accel
        if abs(r) > RMAX:
            return 'skip'
        acc += r
        if acc >= T31:
            acc -= T31
            pos += 1
            count += 1
        elif acc < 0:
            acc += T31
            pos -= 1
            count += 1
        if count == steps:
            return (tick, pos, acc)
    return 'skip'


def fast_oracle(steps, rate, accel, accum):
    """Exact integer closed form of the same recurrence + binary search for the first
    tick at which |steps one way| + |steps the other way| reaches the budget.
    Returns ((ticks, pos, acc), flags) or 'skip'."""
    norm = normalise(steps, rate, accel, accum)
    if norm is None:
        return (0, 0, 0), set()
    steps, r0, accel, acc0, rate = norm

    def total(tick):     # un-wrapped accumulator after `tick` ticks
        return acc0 + tick * r0 + accel * tick * (tick + 1) // 2

    def cell(tick):
        return total(tick) // T31

    k_turn = 0           # last tick of the initial-direction phase (0: none)
    if accel > 0 and r0 + accel < 0:
        k_turn = max((-r0) // accel - 2, 0)
        while r0 + (k_turn + 1) * accel < 0:
            k_turn += 1
    elif accel < 0 and r0 + accel > 0:
        k_turn = max(r0 // (-accel) - 2, 0)
        while r0 + (k_turn + 1) * accel > 0:
            k_turn += 1

    def count(tick):
        if tick <= k_turn:
            return abs(cell(tick) - cell(0))
        return abs(cell(k_turn) - cell(0)) + abs(cell(tick) - cell(k_turn))

    upper = 1
    while count(upper) < steps:
        upper *= 2
        if upper > 1 << 44:
            return 'skip'
    lower = 0
    while upper - lower > 1:
        mid = (lower + upper) // 2
        if count(mid) >= steps:
            upper = mid
        else:
            lower = mid
    ticks = upper
    if abs(r0 + accel) > RMAX or abs(r0 + ticks * accel) > RMAX:
        return 'skip'
    flags = set()
    if accel != 0 and rate * accel < 0 and ticks > 1:
        if math.floor(Fraction(1, 2) - Fraction(rate, accel)) == 1:
            flags.add('A')
    if 0 < k_turn < ticks:
        edge = total(ticks - 1) % T31
        if (accel < 0 and edge == 0) or (accel > 0 and edge == RMAX):
            flags.add('B')
    return (ticks, cell(ticks) - cell(0), total(ticks) % T31), flags


# ----------------------------------------------------------------------------------
# Input generation
# ----------------------------------------------------------------------------------
def gen_case(rng):
    kind = rng.randrange(8)
    steps = rng.choice([1, 1, 2, 3, 5, 10, 50, rng.randrange(1, 400)])
    if kind == 0:                       # constant rate
        rate = rng.randrange(-RMAX, RMAX + 1)
        accel = 0
    elif kind == 1:                     # fast, mild acceleration
        rate = rng.randrange(-RMAX, RMAX + 1)
        accel = rng.randrange(-5000000, 5000000)
    elif kind == 2:                     # strong acceleration, frequent reversals
        rate = rng.randrange(-3 * 10**8, 3 * 10**8)
        accel = rng.randrange(-3 * 10**7, 3 * 10**7)
    elif kind == 3:                     # rate an (almost) integer multiple of accel
        accel = rng.randrange(-10**7, 10**7) or 1
        rate = -accel * rng.randrange(0, 60) + rng.randrange(-3, 4)
    elif kind == 4:                     # starting from (almost) rest
        rate = rng.randrange(-50, 51)
        accel = rng.randrange(-10**8, 10**8)
    elif kind == 5:                     # decelerating through zero from high speed
        rate = rng.choice([-1, 1]) * rng.randrange(10**8, RMAX)
        accel = -rate // rng.randrange(2, 40) + rng.randrange(-5, 6)
    elif kind == 6:                     # long moves
        steps = rng.randrange(1, 300000)
        rate = rng.randrange(-10**7, 10**7)
        accel = rng.randrange(-3000, 3000)
    else:                               # tiny numbers
        steps = rng.randrange(1, 4)
        rate = rng.randrange(-4, 5) * 10**8
        accel = rng.randrange(-4, 5) * 10**8 + rng.randrange(-1, 2)
    if rng.random() < 0.2:
        steps = -steps
    accum = "clear" if rng.random() < 0.5 else rng.choice(
        [0, 1, RMAX, RMAX - 1, 1 << 30, rng.randrange(0, T31)])
    return kind, steps, rate, accel, accum


# ----------------------------------------------------------------------------------
# Checks
# ----------------------------------------------------------------------------------
def check_trivial():
    zero = (0, 0, 0)
    for args in [(0, 5, 5), (0, 0, 0), (0, -7, 3, 12345), (10, 0, 0), (-10, 0, 0),
                 (10, 0, 0, 77), (-1, -1, 5), (-5, -100, -3), (-5, -100, 300000, "clear"),
                 (-3, -1, 0, 99), (0.4, 10, 10), (5, 0.9, 0.9), (-2, -1.5, 7)]:
        got = ebb_calc.calculate_lm(*args)
        if tuple(got) != zero or type(got) is not tuple:
            fail("non-moving request %r gave %r" % (args, got))
    if ebb_motion.moveTimeLM(0, 0, 0) != 0 or ebb_motion.moveTimeLM(5, 0, 5) != 0:
        fail("moveTimeLM non-moving request")
    if ebb_motion.moveTimeLM(-5, -3, 5) != 0:
        fail("moveTimeLM legacy negative/negative request")


def check_documented_vectors():
    # Hand-checkable: constant rate 2^30 from a cleared accumulator steps every 2nd tick.
    if tuple(ebb_calc.calculate_lm(1, 1 << 30, 0)) != (2, 1, 0):
        fail("default accumulator argument is not 'clear'")
    if tuple(ebb_calc.calculate_lm(3, 1 << 30, 0, "clear")) != (6, 3, 0):
        fail("constant-rate vector")
    if tuple(ebb_calc.calculate_lm(1, RMAX, 0, "clear")) != (2, 1, RMAX - 1):
        fail("max-rate vector")
    # negative constant rate: accumulator is cleared to 2^31-1 and the first tick at
    # which it drops below zero is tick 2 for rate -2^30 ... checked by the simulation:
    for args in [(1, -(1 << 30), 0, "clear"), (2, 1 << 29, 0, 1 << 30),
                 (-2, 1 << 30, 0, "clear"), (4, 1 << 30, -(1 << 27), "clear"),
                 (3, -(1 << 30), 1 << 28, 12345), (2, 0, 1 << 29, "clear"),
                 (2, 0, -(1 << 29), "clear"), (1, 1, 1, "clear"), (1, -1, -1, 5)]:
        want = sim_oracle(*args, max_ticks=100000)
        got = tuple(ebb_calc.calculate_lm(*args))
        if got != want:
            fail("vector %r: got %r, recurrence gives %r" % (args, got, want))


def check_one(kind, steps, rate, accel, accum, stats):
    got = ebb_calc.calculate_lm(steps, rate, accel, accum)
    ref = reference_calculate_lm(steps, rate, accel, accum)
    if type(got) is not tuple or len(got) != 3 or got != ref or \
            [type(x) for x in got] != [type(x) for x in ref]:
        fail("differs from published algorithm: %r -> %r, reference %r"
             % ((steps, rate, accel, accum), got, ref))
    if accum == "clear":
        wrapped = ebb_motion.moveTimeLM(rate, steps, accel)
        if wrapped != got[0] or type(wrapped) is not type(got[0]):
            fail("moveTimeLM%r = %r but calculate_lm time = %r"
                 % ((rate, steps, accel), wrapped, got[0]))
    fast = fast_oracle(steps, rate, accel, accum)
    if kind != 6:
        slow = sim_oracle(steps, rate, accel, accum, 4000)
        if slow != 'skip':
            stats['sim'] += 1
            if fast == 'skip' or fast[0] != slow:
                fail("oracles disagree on %r: %r vs %r" % ((steps, rate, accel, accum), fast, slow))
                return
    if fast == 'skip':
        stats['outside'] += 1
        return
    want, flags = fast
    if flags:
        stats['known-deviation'] += 1
        return
    stats['oracle'] += 1
    if got != want:
        fail("PROPERTY: %r -> %r, recurrence gives %r" % ((steps, rate, accel, accum), got, want))
        return
    ticks, pos, acc = got
    if normalise(steps, rate, accel, accum) is None:
        return          # non-moving request, (0,0,0) already confirmed
    if not 0 <= acc < T31:
        fail("accumulator out of range: %r -> %r" % ((steps, rate, accel, accum), got))
    if abs(pos) > abs(steps) or (abs(steps) - abs(pos)) % 2:
        fail("net position inconsistent with budget: %r -> %r" % ((steps, rate, accel, accum), got))
    # replay through the timed-move predictor (mirrored move for the legacy form)
    if steps < 0:
        rate, accel = -rate, -accel
    replay = ebb_calc.move_dist_lt(rate, accel, ticks, accum)
    if tuple(replay) != (pos, acc):
        fail("move_dist_lt replay: %r -> %r but predictor gives %r"
             % ((steps, rate, accel, accum), got, replay))


def check_legacy_mirror(rng):
    for _ in range(400):
        _, steps, rate, accel, accum = gen_case(rng)
        steps = abs(steps)
        if rate < 0:
            rate = -rate
        if accum != "clear":
            continue
        a = ebb_calc.calculate_lm(-steps, rate, accel, "clear")
        b = ebb_calc.calculate_lm(steps, -rate, -accel, "clear")
        if a != b:
            fail("legacy form does not mirror: %r vs %r for %r" % (a, b, (steps, rate, accel)))


def check_wide_differential(rng):
    """Inputs far outside the nice range: only equality with the published algorithm."""
    for _ in range(1500):
        scale = rng.choice([10, 10**3, 10**6, 10**9, 10**10, 10**12])
        steps = rng.choice([-1, 1]) * rng.randrange(0, rng.choice([3, 100, 10**5, 10**9]))
        rate = rng.randrange(-scale, scale + 1)
        accel = rng.choice([0, rng.randrange(-scale, scale + 1), rng.randrange(-100, 101)])
        accum = rng.choice(["clear", 0, RMAX, rng.randrange(-T31, 2 * T31),
                            float(rng.randrange(0, T31)), str(rng.randrange(0, T31))])
        if rng.random() < 0.1:
            steps, rate, accel = float(steps), float(rate), float(accel) + 0.5
        try:
            ref = ('ok', reference_calculate_lm(steps, rate, accel, accum))
        except Exception as exc:            # pylint: disable=broad-except
            ref = ('exc', type(exc))
        try:
            got = ('ok', ebb_calc.calculate_lm(steps, rate, accel, accum))
        except Exception as exc:            # pylint: disable=broad-except
            got = ('exc', type(exc))
        if got != ref:
            fail("wide differential %r: %r vs reference %r" % ((steps, rate, accel, accum), got, ref))


def check_wrapper_plumbing():
    """moveTimeLM(rate, steps, accel) must hand (steps, rate, accel, 'clear') to
    calculate_lm and report exactly its first result (checked with a recording stub)."""
    calls = []
    marker = object()

    def stub(steps, rate, accel, accum="clear"):
        calls.append((steps, rate, accel, accum))
        return marker, "dist", "accum"
    original = ebb_calc.calculate_lm
    ebb_calc.calculate_lm = stub
    try:
        out = ebb_motion.moveTimeLM(11, 22, 33)
    finally:
        ebb_calc.calculate_lm = original
    if out is not marker or calls != [(22, 11, 33, "clear")]:
        fail("moveTimeLM plumbing: out=%r calls=%r" % (out, calls))
    if ebb_calc.calculate_lm is not original:
        fail("stub not removed")


def check_precision_side_effect():
    mpmath.mp.dps = 15
    ebb_calc.calculate_lm(0, 1, 1)
    if mpmath.mp.dps != 15:
        fail("non-moving request changed mpmath precision")
    ebb_calc.calculate_lm(3, 1 << 30, 5)
    if mpmath.mp.dps != 30:
        fail("working precision is not 30 digits after a real move")


def main():
    rng = random.Random(SEED)
    stats = {'sim': 0, 'oracle': 0, 'outside': 0, 'known-deviation': 0}
    check_trivial()
    check_documented_vectors()
    check_precision_side_effect()
    check_wrapper_plumbing()
    for _ in range(3500):
        check_one(*gen_case(rng), stats)
    # exhaustive small grid in units of 2^28 (short moves, many reversals / boundary hits)
    unit = 1 << 28
    for steps in (1, 2, -2):
        for rate_u in range(-7, 8):
            for accel_u in range(-4, 5):
                for accum in ("clear", RMAX, unit):
                    for wobble in (-1, 0, 1):
                        check_one(7, steps, rate_u * unit + wobble, accel_u * unit - wobble,
                                  accum, stats)
    check_legacy_mirror(rng)
    check_wide_differential(rng)
    print("cases:", stats)
    if stats['oracle'] < 4000 or stats['sim'] < 4000:
        fail("too few cases exercised the oracle: %r" % (stats,))
    if FAILURES:
        print("%d FAILURE(S)" % len(FAILURES))
        return 1
    print("C03 demo: all checks passed")
    return 0


if __name__ == "__main__":
    sys.exit(main())
