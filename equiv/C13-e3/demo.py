import os, sys; sys.path.insert(0, os.environ.get('PLOTINK_ROOT', '/tmp/wte_C13'))
# Demo / evidence for property C13 (spatial_grid.Index: nearest() returns a live path end
# that no neighbouring end beats).
#
# Two independent checks are applied to every query, over exhaustive small cases and
# seeded random interleavings of queries and removals:
#   1. PROPERTY ORACLE: a brute-force check of the property statement itself
#      (None iff nothing left; result is a live end; not beaten by any live end in the 3x3
#      neighbourhood of the query cell; globally closest when the neighbourhood is empty;
#      true nearest when one lies within a cell width of an in-grid query).
#   2. REFERENCE MODEL: a separately written dictionary-based model of the documented
#      method (neighbourhood scan in adjacency order, then global fallback), which must
#      agree with the library *exactly* (same identifier, so same tie-breaking), and whose
#      geometry (xmin, ymin, bin sizes, cell contents, adjacency lists, reverse lookup)
#      must agree with the library's public attributes.
# Deterministic, no hardware, no network.

import math
import random
import itertools

from plotink import spatial_grid

CHECKS = {"queries": 0, "indexes": 0, "removals": 0, "fallback_zero": 0,
          "nbhd_empty": 0, "within_cell": 0, "none": 0}


def sq(p, q):
    dx = p[0] - q[0]
    dy = p[1] - q[1]
    return dx * dx + dy * dy


class Model:
    """Separately written model of the grid index (dict of cells -> ordered id lists)."""

    def __init__(self, vertices, bins, reverse):
        self.v = vertices
        self.n = len(vertices)
        self.bins = bins
        self.rev = bool(reverse)
        pts = []
        for a, b in vertices:
            pts.append(a)
            if reverse:
                pts.append(b)
        xmin = math.inf
        ymin = math.inf
        xmax = -math.inf
        ymax = -math.inf
        for (x, y) in pts:
            if x < xmin:
                xmin = x
            if x > xmax:
                xmax = x
            if y < ymin:
                ymin = y
            if y > ymax:
                ymax = y
        shim = (xmax - xmin + ymax - ymin) / 200
        self.xmin = xmin - shim
        self.ymin = ymin - shim
        xmax = xmax + shim
        ymax = ymax + shim
        self.bsx = (xmax - self.xmin) / bins
        self.bsy = (ymax - self.ymin) / bins
        self.cells = {c: [] for c in range(bins * bins)}
        self.where = {}
        for i, (a, b) in enumerate(vertices):
            ends = [(i, a)]
            if reverse:
                ends.append((self.n + i, b))
            for ident, p in ends:
                c = self.cell_of(p)
                self.cells[c].append(ident)
                self.where[ident] = c
        # neighbour order as documented by the library's adjacency list construction
        self.adj = {}
        for r in range(bins):
            for c in range(bins):
                me = c + r * bins
                out = [me]
                for dc, drs in ((-1, (0, -1, 1)), (1, (0, -1, 1)), (0, (-1, 1))):
                    for dr in drs:
                        cc, rr = c + dc, r + dr
                        if 0 <= cc < bins and 0 <= rr < bins:
                            out.append(cc + rr * bins)
                self.adj[me] = out

    def rc_of(self, p):
        col = math.floor((p[0] - self.xmin) / self.bsx)
        row = math.floor((p[1] - self.ymin) / self.bsy)
        col = 0 if col < 0 else (self.bins - 1 if col > self.bins - 1 else col)
        row = 0 if row < 0 else (self.bins - 1 if row > self.bins - 1 else row)
        return row, col

    def cell_of(self, p):
        row, col = self.rc_of(p)
        return col + self.bins * row

    def point(self, ident):
        return self.v[ident][0] if ident < self.n else self.v[ident - self.n][1]

    def nearest(self, q):
        nb = self.adj[self.cell_of(q)]
        best, bd = None, math.inf
        for c in nb:
            for ident in self.cells[c]:
                d = sq(q, self.point(ident))
                if d < bd:
                    best, bd = ident, d
        if best:            # identifier 0 is "falsy": the scan then continues globally
            return best
        if best == 0:
            CHECKS["fallback_zero"] += 1
        for c in range(self.bins * self.bins):
            if c in nb:
                continue
            for ident in self.cells[c]:
                d = sq(q, self.point(ident))
                if d < bd:
                    best, bd = ident, d
        return best

    def remove(self, i):
        self.cells[self.where[i]].remove(i)
        if self.rev:
            self.cells[self.where[i + self.n]].remove(i + self.n)


def compare_geometry(idx, mdl, ctx):
    assert idx.xmin == mdl.xmin and idx.ymin == mdl.ymin, ("xmin/ymin", ctx)
    assert idx.bin_size_x == mdl.bsx and idx.bin_size_y == mdl.bsy, ("bin size", ctx)
    assert idx.path_count == mdl.n and idx.bins_per_side == mdl.bins, ("counts", ctx)
    assert idx.vertices is mdl.v, ("vertices", ctx)
    assert bool(idx.reverse) == mdl.rev, ("reverse", ctx)
    assert len(idx.adjacents) == mdl.bins ** 2, ("adjacents len", ctx)
    assert [list(a) for a in idx.adjacents] == [mdl.adj[c] for c in range(mdl.bins ** 2)], \
        ("adjacents", ctx, idx.adjacents)
    assert len(idx.lookup) == (2 * mdl.n if mdl.rev else mdl.n), ("lookup len", ctx)
    assert list(idx.lookup) == [mdl.where[i] for i in range(len(idx.lookup))], ("lookup", ctx)
    compare_cells(idx, mdl, ctx)


def compare_cells(idx, mdl, ctx):
    assert len(idx.grid) == mdl.bins ** 2, ("grid len", ctx)
    assert [list(g) for g in idx.grid] == [mdl.cells[c] for c in range(mdl.bins ** 2)], \
        ("grid contents", ctx, idx.grid)


def check_property(vertices, bins, reverse, removed, q, result, geo, ctx):
    """Brute-force check of the property statement. geo supplies xmin/ymin/bin sizes
    (already cross-checked against an independent computation)."""
    n = len(vertices)
    live = {}
    for i, (a, b) in enumerate(vertices):
        if i in removed:
            continue
        live[i] = a
        if reverse:
            live[n + i] = b
    if not live:
        assert result is None, ("expected None with no path left", ctx, result)
        CHECKS["none"] += 1
        return
    assert result is not None, ("None although paths remain", ctx)
    assert isinstance(result, int) and not isinstance(result, bool), ("result type", ctx, result)
    assert result in live, ("result is not a live end", ctx, result)
    if not reverse:
        assert 0 <= result < n, ("end returned with reversal disabled", ctx, result)
    qr, qc = geo.rc_of(q)
    dres = sq(q, live[result])
    nbhd = []
    for ident, p in live.items():
        r, c = geo.rc_of(p)
        if abs(r - qr) <= 1 and abs(c - qc) <= 1:
            nbhd.append(ident)
    for ident in nbhd:
        assert dres <= sq(q, live[ident]), ("beaten by neighbouring end", ctx, result, ident)
    dmin = min(sq(q, p) for p in live.values())
    if not nbhd:
        CHECKS["nbhd_empty"] += 1
        assert dres == dmin, ("not globally closest with empty neighbourhood", ctx, result)
    in_grid = (geo.xmin <= q[0] <= geo.xmin + bins * geo.bsx * (1 - 1e-12) and
               geo.ymin <= q[1] <= geo.ymin + bins * geo.bsy * (1 - 1e-12))
    width = min(geo.bsx, geo.bsy) * (1 - 1e-9)
    if in_grid and dmin < width * width:
        CHECKS["within_cell"] += 1
        assert dres == dmin, ("true nearest within a cell width missed", ctx, result)


def run_history(vertices, bins, reverse, ops, ctx):
    """ops: list of ('q', point) / ('r', path_number)."""
    idx = spatial_grid.Index(vertices, bins, reverse)
    mdl = Model(vertices, bins, reverse)
    CHECKS["indexes"] += 1
    compare_geometry(idx, mdl, ctx)
    removed = set()
    for step, (kind, arg) in enumerate(ops):
        sctx = (ctx, step, kind, arg)
        if kind == 'q':
            got = idx.nearest(arg)
            want = mdl.nearest(arg)
            CHECKS["queries"] += 1
            check_property(vertices, bins, reverse, removed, arg, got, mdl, sctx)
            assert got == want and type(got) is type(want), ("differs from model", sctx, got, want)
        else:
            ret = idx.remove_path(arg)
            assert ret is None, ("remove_path return", sctx)
            mdl.remove(arg)
            removed.add(arg)
            CHECKS["removals"] += 1
            compare_cells(idx, mdl, sctx)
    return idx, mdl


def extent_ok(vertices, reverse):
    xs, ys = [], []
    for a, b in vertices:
        xs.append(a[0]); ys.append(a[1])
        if reverse:
            xs.append(b[0]); ys.append(b[1])
    return bool(xs) and (max(xs) - min(xs) + max(ys) - min(ys)) > 0


def exhaustive_small():
    """All removal orders, all lattice queries, tiny integer configurations."""
    lattice = [(0, 0), (3, 0), (0, 2), (3, 3), (1, 1)]
    queries = [(x, y) for x in (-5, 0, 1, 1.5, 3, 9) for y in (-4, 0, 1.5, 2, 3, 8)]
    count = 0
    for n in (1, 2, 3):
        for starts in itertools.product(lattice[:4], repeat=n):
            ends = [lattice[(lattice.index(s) + 2 + k) % 5] for k, s in enumerate(starts)]
            vertices = [[list(s), list(e)] for s, e in zip(starts, ends)]
            for reverse in (False, True):
                if not extent_ok(vertices, reverse):
                    continue
                for bins in (1, 2, 3, 4):
                    for order in itertools.permutations(range(n)):
                        ops = [('q', q) for q in queries]
                        for path in order:
                            ops.append(('r', path))
                            ops.extend(('q', q) for q in queries[count % 5::5])
                            count += 1
                        run_history(vertices, bins, reverse, ops,
                                    ("exh", vertices, bins, reverse, order))


def random_histories():
    rng = random.Random(20240513)
    for trial in range(260):
        n = rng.choice((1, 2, 3, 5, 8, 13, 21, 30))
        bins = rng.choice((1, 2, 3, 4, 5, 7, 10))
        reverse = rng.choice((False, True))
        style = trial % 4
        if style == 0:      # floats spread over a rectangle
            gen = lambda: [rng.uniform(-50, 150), rng.uniform(10, 60)]
        elif style == 1:    # small integer lattice: many exact ties and duplicates
            gen = lambda: [rng.randint(0, 4), rng.randint(0, 4)]
        elif style == 2:    # two far-apart clusters: empty neighbourhoods, global fallback
            gen = lambda: ([rng.uniform(0, 3), rng.uniform(0, 3)] if rng.random() < 0.5
                           else [rng.uniform(97, 100), rng.uniform(97, 100)])
        else:               # tuples, mixed int/float, a line (zero extent in y)
            gen = lambda: (rng.choice((rng.randint(-9, 9), rng.uniform(-9, 9))), 2)
        vertices = [[gen(), gen()] for _ in range(n)]
        if not extent_ok(vertices, reverse):
            continue
        xs = [p[0] for v in vertices for p in v]
        ys = [p[1] for v in vertices for p in v]
        lo_x, hi_x, lo_y, hi_y = min(xs), max(xs), min(ys), max(ys)
        span = (hi_x - lo_x) + (hi_y - lo_y)

        def rq():
            k = rng.random()
            if k < 0.55:    # inside (or near) the bounding box
                return [rng.uniform(lo_x, hi_x), rng.uniform(lo_y, hi_y)]
            if k < 0.75:    # exactly on a path end
                return list(rng.choice(rng.choice(vertices)))
            if k < 0.9:     # outside the grid
                return [rng.uniform(lo_x - 2 * span, hi_x + 2 * span),
                        rng.uniform(lo_y - 2 * span, hi_y + 2 * span)]
            return (rng.choice((lo_x, hi_x, lo_x - span / 200, hi_x + span / 200)),
                    rng.choice((lo_y, hi_y, lo_y - span / 200, hi_y + span / 200)))

        order = list(range(n))
        rng.shuffle(order)
        ops = []
        for path in order:
            for _ in range(rng.randint(0, 4)):
                ops.append(('q', rq()))
            ops.append(('r', path))
        for _ in range(3):
            ops.append(('q', rq()))          # everything removed: must be None
        run_history(vertices, bins, reverse, ops, ("rnd", trial, n, bins, reverse))


def nearest_chain():
    """The typical use: greedy path ordering - query, remove the hit, continue from it."""
    rng = random.Random(7)
    for reverse in (False, True):
        for bins in (1, 3, 6, 12):
            n = 60
            vertices = [[[rng.uniform(0, 100), rng.uniform(0, 100)],
                         [rng.uniform(0, 100), rng.uniform(0, 100)]] for _ in range(n)]
            idx = spatial_grid.Index(vertices, bins, reverse)
            mdl = Model(vertices, bins, reverse)
            compare_geometry(idx, mdl, ("chain", bins, reverse))
            removed = set()
            here = [0, 0]
            for step in range(n + 1):
                got = idx.nearest(here)
                CHECKS["queries"] += 1
                check_property(vertices, bins, reverse, removed, here, got, mdl,
                               ("chain", bins, reverse, step))
                assert got == mdl.nearest(here), ("chain differs from model", bins, reverse, step)
                if got is None:
                    assert step == n, ("chain ended early", step)
                    break
                path = got if got < n else got - n
                here = vertices[path][1] if got < n else vertices[path][0]
                idx.remove_path(path)
                mdl.remove(path)
                removed.add(path)
                compare_cells(idx, mdl, ("chain", bins, reverse, step))
            assert len(removed) == n


def documented_cases():
    """Hand-computed expectations."""
    # 4x4 grid over [-1,101]^2 (extent 0..100 plus shim 1; cells 25.5 wide).
    # Query (49,30) lies in column 1, row 1.  Path 0 starts in the same cell; path 2 starts
    # in column 3 (outside the 3x3 neighbourhood); paths 1 and 3 sit in far corners.
    vertices = [[[30, 30], [0, 0]], [[100, 0], [50, 50]], [[76, 30], [50, 50]],
                [[0, 100], [50, 50]]]
    idx, mdl = run_history(vertices, 4, False, [('q', [49, 30])], "doc-a")
    assert (idx.xmin, idx.ymin, idx.bin_size_x, idx.bin_size_y) == (-1.0, -1.0, 25.5, 25.5)
    assert mdl.rc_of([49, 30]) == (1, 1) and mdl.rc_of([76, 30]) == (1, 3)
    assert idx.nearest([49, 30]) == 0          # 19 away, inside the neighbourhood
    idx.remove_path(0)
    assert idx.nearest([49, 30]) == 2          # neighbourhood now empty: global fallback
    idx.remove_path(2)
    assert idx.nearest([49, 30]) == 1
    idx.remove_path(1)
    assert idx.nearest([49, 30]) == 3
    idx.remove_path(3)
    assert idx.nearest([49, 30]) is None

    # Identifier 0 is the best of the neighbourhood (39.5 away, column 0) but a closer end
    # (26.5 away) lies in column 3: because identifier 0 is falsy the search continues
    # over the rest of the grid and the closer end is returned.
    vertices = [[[10, 30], [0, 0]], [[100, 0], [50, 50]], [[76, 30], [50, 50]],
                [[0, 100], [50, 50]]]
    idx, mdl = run_history(vertices, 4, False, [('q', [49.5, 30])], "doc-b")
    assert mdl.rc_of([49.5, 30]) == (1, 1) and mdl.rc_of([10, 30]) == (1, 0)
    assert idx.nearest([49.5, 30]) == 2
    # Same geometry, but the neighbourhood's best is path 1 (non-zero id): returned at once.
    vertices = [[[100, 0], [50, 50]], [[10, 30], [0, 0]], [[76, 30], [50, 50]],
                [[0, 100], [50, 50]]]
    idx, mdl = run_history(vertices, 4, False, [('q', [49.5, 30])], "doc-c")
    assert idx.nearest([49.5, 30]) == 1

    # reversal: ends are offered only when enabled, ids are path_count + path number
    vertices = [[[0, 0], [10, 10]], [[10, 0], [0, 10]]]
    fwd = spatial_grid.Index(vertices, 3, False)
    rev = spatial_grid.Index(vertices, 3, True)
    assert fwd.nearest([10, 1]) == 1 and fwd.nearest([9, 9]) in (0, 1)
    assert rev.nearest([10, 10]) == 2 and rev.nearest([0, 10]) == 3
    assert rev.nearest([0, 0]) == 0 and rev.nearest([10, 0]) == 1
    rev.remove_path(0)
    assert rev.nearest([10, 10]) in (1, 3) and rev.nearest([1, 9]) == 3
    rev.remove_path(1)
    assert rev.nearest([10, 10]) is None and rev.nearest([-99, 1e9]) is None

    # upstream unit-test expectations
    endpoints = [[[61.32, 26.04], [7.62, 6.74]], [[6.66, 12.31], [59.84, 13.43]],
                 [[54.43, 2.27], [72.02, 50.23]], [[23.91, 6.7], [29.29, 25.73]],
                 [[71.93, 84.14], [68.63, 11.17]], [[45.16, 42.48], [90.03, 49.43]]]
    idx = spatial_grid.Index(endpoints, 4, True)
    assert sorted(idx.adjacents[8]) == [4, 5, 8, 9, 12, 13]
    assert idx.nearest([0, 0]) == 6 and idx.lookup[6] == 0
    idx.remove_path(0)
    assert idx.nearest([0, 0]) == 1

    # double removal is an error in both the library and the model (list.remove)
    idx = spatial_grid.Index(endpoints, 4, True)
    idx.remove_path(3)
    before = [list(g) for g in idx.grid]
    try:
        idx.remove_path(3)
    except ValueError:
        pass
    else:
        raise AssertionError("double removal did not raise ValueError")
    assert [list(g) for g in idx.grid] == before

    # independent instances do not share state
    a = spatial_grid.Index(endpoints, 3, True)
    b = spatial_grid.Index(endpoints, 3, True)
    a.remove_path(0)
    assert b.nearest([7.62, 6.74]) == 6 and a.nearest([7.62, 6.74]) != 6
    assert a.grid is not b.grid and a.adjacents is not b.adjacents and a.lookup is not b.lookup


def adjacency_cases():
    """Adjacency lists: cell itself first, then exactly the cells within one row and one
    column, no duplicates; the order matches the model (checked for every size)."""
    pts = [[[0, 0], [1, 1]], [[5, 7], [2, 3]]]
    for bins in range(1, 17):
        idx = spatial_grid.Index(pts, bins, True)
        mdl = Model(pts, bins, True)
        compare_geometry(idx, mdl, ("adj", bins))
        assert len(idx.adjacents) == bins * bins
        for cell, lst in enumerate(idx.adjacents):
            r, c = divmod(cell, bins)
            want = {cc + rr * bins for rr in range(bins) for cc in range(bins)
                    if abs(rr - r) <= 1 and abs(cc - c) <= 1}
            assert lst[0] == cell and len(lst) == len(set(lst)) and set(lst) == want, \
                ("adjacency", bins, cell, lst)
        # a query must not alter the index
        snap = ([list(a) for a in idx.adjacents], [list(g) for g in idx.grid], list(idx.lookup))
        idx.nearest([3, 3]); idx.nearest([-100, 100])
        assert snap == ([list(a) for a in idx.adjacents], [list(g) for g in idx.grid],
                        list(idx.lookup)), ("query mutated the index", bins)


def main():
    documented_cases()
    adjacency_cases()
    exhaustive_small()
    random_histories()
    nearest_chain()
    # make sure the interesting regimes were really exercised
    assert CHECKS["queries"] > 20000, CHECKS
    assert CHECKS["nbhd_empty"] > 200, CHECKS
    assert CHECKS["within_cell"] > 2000, CHECKS
    assert CHECKS["fallback_zero"] > 200, CHECKS
    assert CHECKS["none"] > 500, CHECKS
    print("C13 demo OK", CHECKS)


if __name__ == "__main__":
    main()
