import os, sys; sys.path.insert(0, os.environ.get('PLOTINK_ROOT', '/tmp/wte_C12'))
# Demo / check for property C12: length parsing and unit conversion are mutually
# consistent and follow SVG units (96 px per inch).
#
# Oracle: exact rational arithmetic (fractions.Fraction) on the SVG unit table,
# written here independently of the library, plus bit-exact comparison against the
# documented formulas (value * 96 / units-per-inch, evaluated left to right).
import math
import random
from fractions import Fraction

from plotink import plot_utils as pu

FAILURES = []
CHECKS = [0]


def check(cond, msg):
    CHECKS[0] += 1
    if not cond:
        FAILURES.append(msg)
        if len(FAILURES) <= 25:
            print("FAIL:", msg)


def same_float(a, b):
    """Bit-exact float equality (distinguishes -0.0 from 0.0)."""
    return (isinstance(a, float) and isinstance(b, float) and a == b
            and math.copysign(1.0, a) == math.copysign(1.0, b))


def close(actual, exact, rel=1e-13):
    """actual (float) agrees with exact (Fraction) up to a few ulps."""
    if actual is None or not isinstance(actual, float):
        return False
    if exact == 0:
        return actual == 0.0
    return abs(Fraction(actual) - exact) <= abs(exact) * Fraction(rel)


# ---- independent SVG unit table: how many of the unit make one inch ------------
PER_INCH = {
    'px': Fraction(96), 'in': Fraction(1), 'mm': Fraction(254, 10), 'cm': Fraction(254, 100),
    'pt': Fraction(72), 'pc': Fraction(6), 'Q': Fraction(1016, 10),
}
# float divisors of the documented formulas (value * 96 / divisor)
FLOAT_DIV = {'mm': 25.4, 'cm': 2.54, 'pt': 72.0, 'pc': 6.0, 'Q': 101.6}

# suffix as written -> unit as reported by the parser
SUFFIXES = {'': 'px', 'px': 'px', 'in': 'in', 'mm': 'mm', 'cm': 'cm', 'pt': 'pt',
            'pc': 'pc', 'Q': 'Q', 'q': 'Q', '%': '%'}

NUMERALS = ['0', '-0', '+0', '0.0', '1', '-1', '+3', '3.', '.5', '-.25', '+.125', '1e3', '1E-3',
            '2.5e+2', '-7.25E2', '123456.789', '0.000001', '1e-30', '-4.2e25', '25.4', '2.54',
            '101.6', '96', '72', '6', '100', '8.5', '11', '297', '210', '1e0', '0.1', '0.3',
            '33.333333333333336', '1234567890123', '7e-7', '00012.50', '-0.0']
rng = random.Random(12012)
for _ in range(120):
    mant = rng.uniform(-1000, 1000)
    style = rng.randrange(4)
    if style == 0:
        NUMERALS.append(repr(mant))
    elif style == 1:
        NUMERALS.append('%.4f' % mant)
    elif style == 2:
        NUMERALS.append('%.6e' % (mant * 10.0 ** rng.randint(-12, 12)))
    else:
        NUMERALS.append('%+.3E' % (mant * 10.0 ** rng.randint(-6, 6)))

LEAD_WS = ['', ' ', '\t', '\n ', '   ']
TRAIL_WS = ['', ' ', '\t\n', '  ']


class FakeRoot:
    def __init__(self, attrs):
        self.attrs = attrs

    def get(self, name, default=None):
        return self.attrs.get(name, default)


class FakeDocument:
    def __init__(self, attrs):
        self.root = FakeRoot(attrs)

    def getroot(self):
        return self.root


class FakeSelf:
    def __init__(self, **attrs):
        self.document = FakeDocument(attrs)


def to_px_exact(value_frac, unit):
    return value_frac * Fraction(96) / PER_INCH[unit]


def to_px_formula(value, unit):
    """Documented float formula, evaluated left to right."""
    if unit == 'px':
        return float(value)
    if unit == 'in':
        return float(value) * 96.0
    return float(value) * 96.0 / FLOAT_DIV[unit]


# ---- 0. the constant -----------------------------------------------------------
check(pu.PX_PER_INCH == 96.0 and isinstance(pu.PX_PER_INCH, float), "PX_PER_INCH is not 96.0")

# ---- 1. parsing, conversion, round trip, attribute readers ---------------------
ws_cycle = 0
for numeral in NUMERALS:
    value = float(numeral)
    value_frac = Fraction(value)
    for suffix, unit in SUFFIXES.items():
        # every numeral x suffix gets the plain spelling and two whitespace variants
        ws_cycle += 1
        variants = [('', ''),
                    (LEAD_WS[ws_cycle % len(LEAD_WS)], TRAIL_WS[ws_cycle % len(TRAIL_WS)]),
                    (LEAD_WS[(ws_cycle // 5) % len(LEAD_WS)], TRAIL_WS[(ws_cycle // 3) % len(TRAIL_WS)])]
        for lead, trail in variants:
            text = lead + numeral + suffix + trail
            tag = repr(text)

            # (a) parse yields that value and unit
            parsed = pu.parseLengthWithUnits(text)
            check(isinstance(parsed, tuple) and len(parsed) == 2, "parse %s: not a pair" % tag)
            p_val, p_unit = parsed
            check(same_float(p_val, value), "parse %s: value %r != %r" % (tag, p_val, value))
            check(p_unit == unit, "parse %s: unit %r != %r" % (tag, p_unit, unit))

            if unit != '%':
                # (b) conversion to user units: SVG factor at 96 px per inch
                u_u = pu.unitsToUserUnits(text)
                check(close(u_u, to_px_exact(value_frac, unit)),
                      "unitsToUserUnits %s = %r, exact %s" % (tag, u_u, float(to_px_exact(value_frac, unit))))
                check(same_float(u_u, to_px_formula(value, unit)),
                      "unitsToUserUnits %s = %r, formula %r" % (tag, u_u, to_px_formula(value, unit)))
                # percent_ref must be irrelevant for absolute units
                check(same_float(pu.unitsToUserUnits(text, 555.5), u_u) and
                      same_float(pu.unitsToUserUnits(text, percent_ref=0), u_u),
                      "unitsToUserUnits %s depends on percent_ref" % tag)

                # (c) converting back returns the original value
                for back_unit in ([suffix] if suffix else ['', 'px']):
                    back = pu.userUnitToUnits(u_u, back_unit)
                    check(close(back, value_frac), "round trip %s -> %r -> %r" % (tag, u_u, back))
                    # independent direction: px -> unit divides by the px-per-unit factor
                    check(close(back, Fraction(u_u) * PER_INCH[unit] / 96),
                          "userUnitToUnits(%r, %r) = %r" % (u_u, back_unit, back))

                # (d) attribute readers agree
                svg = FakeSelf(width=text)
                g_l = pu.getLength(svg, 'width', 1234.5)
                g_i = pu.getLengthInches(svg, 'width')
                check(same_float(g_l, u_u), "getLength %s = %r, unitsToUserUnits = %r" % (tag, g_l, u_u))
                check(close(g_i, value_frac / PER_INCH[unit]),
                      "getLengthInches %s = %r" % (tag, g_i))
                if unit == 'in':
                    check(same_float(g_i, value), "getLengthInches %s = %r (inches are identity)" % (tag, g_i))
                elif unit == 'px':
                    check(same_float(g_i, value / 96.0), "getLengthInches %s = %r" % (tag, g_i))
                else:
                    check(same_float(g_i, value / FLOAT_DIV[unit]), "getLengthInches %s = %r" % (tag, g_i))
                # pixels = inches x 96
                check(g_i is not None and g_l is not None and close(g_l, Fraction(g_i) * 96),
                      "pixels != inches x 96 for %s: %r vs %r" % (tag, g_l, g_i))
            else:
                # percentages
                for ref in (None, 0, 0.0, 1, 100, 816.0, 1056, -40.0, 0.25, '300'):
                    u_u = pu.unitsToUserUnits(text, ref)
                    if ref in (None, 0, 0.0):
                        want = value_frac / 100
                        check(same_float(u_u, value / 100.0), "%% %s ref=%r -> %r" % (tag, ref, u_u))
                    else:
                        want = value_frac * Fraction(float(ref)) / 100
                        check(same_float(u_u, value * float(ref) / 100.0), "%% %s ref=%r -> %r" % (tag, ref, u_u))
                    check(close(u_u, want), "%% %s ref=%r -> %r, exact %s" % (tag, ref, u_u, float(want)))
                # round trip without a reference: fraction <-> percent
                frac = pu.unitsToUserUnits(text)
                back = pu.userUnitToUnits(frac, '%')
                check(close(back, value_frac), "%% round trip %s -> %r -> %r" % (tag, frac, back))
                check(same_float(back, frac * 100.0), "%% userUnitToUnits(%r) = %r" % (frac, back))
                # attribute readers: percentage of the supplied reference / no inches
                svg = FakeSelf(height=text)
                for default in (100, 816.0, 1056, 0.25, -40.0, 0, '300'):
                    g_l = pu.getLength(svg, 'height', default)
                    check(close(g_l, Fraction(float(default)) * value_frac / 100),
                          "getLength %s of %r = %r" % (tag, default, g_l))
                    check(same_float(g_l, float(default) * value / 100.0),
                          "getLength %s of %r = %r (formula)" % (tag, default, g_l))
                    if float(default) != 0.0:
                        check(close(g_l, Fraction(pu.unitsToUserUnits(text, default))),
                              "getLength vs unitsToUserUnits for %s of %r" % (tag, default))
                check(pu.getLengthInches(svg, 'height') is None, "getLengthInches %s is not None" % tag)

# ---- 2. cross-unit consistency on well-known equalities -------------------------
for a, b in [('1in', '96px'), ('1in', '96'), ('1in', '25.4mm'), ('1in', '2.54cm'), ('1in', '72pt'),
             ('1in', '6pc'), ('1in', '101.6Q'), ('1cm', '10mm'), ('1mm', '4q'), ('1pc', '12pt'),
             ('1pc', '16px'), ('3pt', '4px'), ('8.5in', '816px'), ('11in', '1056'), ('50%', '0.5')]:
    u_a, u_b = pu.unitsToUserUnits(a), pu.unitsToUserUnits(b)
    check(u_a is not None and u_b is not None and math.isclose(u_a, u_b, rel_tol=1e-14),
          "%s (%r) != %s (%r)" % (a, u_a, b, u_b))
for unit, per_inch in PER_INCH.items():
    got = pu.userUnitToUnits(96.0, unit)
    check(close(got, per_inch), "userUnitToUnits(96, %r) = %r" % (unit, got))
    got = pu.userUnitToUnits(-48, unit)
    check(close(got, -per_inch / 2), "userUnitToUnits(-48, %r) = %r" % (unit, got))
    got = pu.userUnitToUnits(0, unit)
    check(same_float(got, 0.0), "userUnitToUnits(0, %r) = %r" % (unit, got))
check(close(pu.userUnitToUnits(96.0, ''), Fraction(96)), "userUnitToUnits(96, '')")
check(close(pu.userUnitToUnits(96.0, 'q'), Fraction(1016, 10)), "userUnitToUnits(96, 'q')")
check(same_float(pu.userUnitToUnits(0.5, '%'), 50.0), "userUnitToUnits(0.5, '%')")
check(same_float(pu.userUnitToUnits('24', 'pt'), 18.0), "userUnitToUnits('24', 'pt')")
check(same_float(pu.userUnitToUnits(7, 'px'), 7.0), "userUnitToUnits(7, 'px') is not float 7.0")

# ---- 3. unsupported units / no numeric part -> None, never an exception or number
MALFORMED = ['', ' ', '\t\n', 'em', '1em', '2ex', '1.5 em', '3ch', '1rem', '5vw', '5vh', '5vmin', '5vmax',
             'abc', 'px', 'in', 'mm', 'cm', 'pt', 'pc', 'Q', 'q', '%', ' px ', ' % ', '1.2.3mm', '--1',
             '1e', 'e5', '1e+', '1,5mm', '12 34', '5m', '5c', '5p', '5i', '5n', '5x', '5t', '5pxq', '5%%',
             '5mmpx', '5inin', '5px%', '5%px', 'mm5', 'px12', '1/2in', '0x10', '1e5e5', '+-3pt', '.', '-',
             '+', '.mm', '-.pc', '1deg', '1s', '1Hz', '12pz', '12xp', '12ni', '12MM', '12PX', '12In', '12Pt',
             '12CM', '12PC', 'ten', 'auto', 'none', '100 %%', '1e3em', '1 ex']
for text in MALFORMED:
    tag = repr(text)
    try:
        check(pu.parseLengthWithUnits(text) == (None, None),
              "parse %s = %r, wanted (None, None)" % (tag, pu.parseLengthWithUnits(text)))
        check(pu.unitsToUserUnits(text) is None, "unitsToUserUnits %s = %r" % (tag, pu.unitsToUserUnits(text)))
        check(pu.unitsToUserUnits(text, 100.0) is None, "unitsToUserUnits %s with ref is not None" % tag)
        svg = FakeSelf(width=text)
        if text:
            check(pu.getLength(svg, 'width', 100) is None, "getLength %s is not None" % tag)
        else:  # empty attribute counts as absent
            check(same_float(pu.getLength(svg, 'width', 100), 100.0), "getLength '' is not the default")
        check(pu.getLengthInches(svg, 'width') is None, "getLengthInches %s is not None" % tag)
    except Exception as err:  # pylint: disable=broad-except
        check(False, "exception for %s: %r" % (tag, err))

try:
    check(pu.parseLengthWithUnits(None) == (None, None), "parse None")
    check(pu.unitsToUserUnits(None) is None, "unitsToUserUnits(None)")
    check(pu.unitsToUserUnits(None, 12.0) is None, "unitsToUserUnits(None, 12)")
    for unit in list(SUFFIXES) + ['em', 'ex', 'zz', None]:
        check(pu.userUnitToUnits(None, unit) is None, "userUnitToUnits(None, %r)" % (unit,))
    for unit in ['em', 'ex', 'ch', 'rem', 'vw', 'MM', 'IN', 'Px', ' mm', 'mm ', 'inch', 'p', None]:
        check(pu.userUnitToUnits(12.5, unit) is None, "userUnitToUnits(12.5, %r) is not None" % (unit,))
    # absent attribute: default in px, nothing in inches
    svg = FakeSelf(width='10mm')
    check(same_float(pu.getLength(svg, 'height', 42), 42.0), "getLength absent -> default")
    check(same_float(pu.getLength(svg, 'height', '17.5'), 17.5), "getLength absent -> float(default)")
    check(pu.getLengthInches(svg, 'height') is None, "getLengthInches absent -> None")
    # a default is not consulted for absolute units (None default must not matter)
    check(close(pu.getLength(svg, 'width', None), Fraction(960, 254) * 10), "getLength 10mm, default None")
except Exception as err:  # pylint: disable=broad-except
    check(False, "exception in None/absent handling: %r" % (err,))

print("C12 demo: %d checks, %d failures" % (CHECKS[0], len(FAILURES)))
sys.exit(1 if FAILURES else 0)
