import os, sys; sys.path.insert(0, os.environ.get('PLOTINK_ROOT', '/tmp/wtf_C15'))
# Demo / check for property C15: firmware version gating uses numeric version order
# and blocks unsupported boards.  Deterministic, no hardware: fake serial ports only.
# Oracle: versions are compared as tuples of ints, independent of packaging.version.

import itertools
import logging

logging.disable(logging.CRITICAL)       # the legacy layer logs errors for silent boards

import serial                            # pyserial; only its Serial class is stubbed
from plotink import ebb3_serial, ebb_serial, ebb_motion

CHECKS = 0


def check(cond, *info):
    global CHECKS
    CHECKS += 1
    if not cond:
        print("FAIL:", *info)
        sys.exit(1)


def vstr(triple):
    return "{}.{}.{}".format(*triple)


def banner(triple):
    '''Version reply as a real board formats it.'''
    return ("EBBv13_and_above EB Firmware Version " + vstr(triple) + "\r\n").encode('ascii')


# --------------------------------------------------------------------------------------
# Part 1: numeric ordering, identical in both layers, for all triples against all thresholds
# --------------------------------------------------------------------------------------

class LegacyBoard:
    '''Fake legacy (firmware 2.x syntax) board, seen through a pyserial-like port.'''

    def __init__(self, version_reply, nickname=b'Axi7\r\n', voltage=b'0394,0300\r\n'):
        self.version_reply = version_reply      # bytes, or None for a silent device
        self.nickname = nickname
        self.voltage = voltage
        self.rx = []
        self.writes = []

    def write(self, data):
        check(isinstance(data, bytes), "legacy write must be bytes", data)
        self.writes.append(data)
        name = data.decode('ascii').strip().split(',')[0].upper()
        if name == 'V':
            if self.version_reply is not None:
                self.rx.append(self.version_reply)
        elif name == 'QT':
            self.rx += [self.nickname, b'OK\r\n']
        elif name == 'QC':
            self.rx += [self.voltage, b'OK\r\n']
        else:
            self.rx.append(b'OK\r\n')

    def readline(self):
        return self.rx.pop(0) if self.rx else b''

    def non_probe_writes(self):
        return [w for w in self.writes if w != b'V\r']


COMPONENTS = (0, 2, 9, 10, 25)
TRIPLES = list(itertools.product(COMPONENTS, repeat=3))

check(ebb_serial.min_version(None, "2.5.5") is None, "legacy min_version, no port")
check(ebb_serial.min_version(LegacyBoard(None), "2.5.5") is None, "legacy silent board")
check(ebb_serial.min_version(LegacyBoard(b'Hello there\r\n'), "2.5.5") is None, "legacy non-EBB")
check(ebb_serial.min_version(LegacyBoard(b'EBB with no number\r\n'), "0.0.0") is None,
      "legacy EBB without version")

for have in TRIPLES:
    ebb3 = ebb3_serial.EBB3()
    ebb3.parse_version(banner(have).decode('ascii').strip())
    check(ebb3.version == vstr(have), "parse_version text", have, ebb3.version)
    check(ebb3.version_parsed is not None, "parse_version parsed", have)
    board = LegacyBoard(banner(have))
    for need in TRIPLES:
        expect = have >= need                       # tuple-of-ints oracle
        got3 = ebb3.min_version(vstr(need))
        got2 = ebb_serial.min_version(board, vstr(need))
        check(got3 is expect, "ebb3 min_version", have, need, got3)
        check(got2 is expect, "legacy min_version", have, need, got2)
    check(board.non_probe_writes() == [], "min_version only sends version query")
    check(len(board.writes) == len(TRIPLES), "one version query per comparison")

# The example from the statement, and a few multi-digit ones, spelled out.
for have, need, expect in (((2, 10, 0), (2, 9, 9), True), ((2, 9, 9), (2, 10, 0), False),
                           ((3, 0, 10), (3, 0, 9), True), ((10, 0, 0), (9, 99, 99), True),
                           ((2, 5, 5), (2, 5, 5), True), ((2, 5, 4), (2, 5, 5), False),
                           ((3, 0, 2), (3, 0, 2), True), ((3, 0, 1), (3, 0, 2), False),
                           ((100, 200, 300), (100, 200, 299), True),
                           ((100, 199, 300), (100, 200, 0), False)):
    ebb3 = ebb3_serial.EBB3()
    ebb3.parse_version(banner(have).decode('ascii'))
    check(ebb3.min_version(vstr(need)) is expect, "spelled-out ebb3", have, need)
    check(ebb_serial.min_version(LegacyBoard(banner(have)), vstr(need)) is expect,
          "spelled-out legacy", have, need)

# Unknown / unparsable cases in the EBB3 layer
ebb3 = ebb3_serial.EBB3()
check(ebb3.min_version("3.0.2") is False, "unknown firmware is not new enough")
check(ebb3.min_version("not a version") is None, "bad threshold -> None (version unknown)")
ebb3.parse_version("EBBv13 Firmware Version 3.0.2")
check(ebb3.min_version("not a version") is None, "bad threshold -> None (version known)")
check(ebb3.min_version("3.0.2") is True and ebb3.min_version("3.0.3") is False, "boundary")
ebb3.parse_version("EBB without any number")
check(ebb3.version is None and ebb3.version_parsed is None, "stale version forgotten")
check(ebb3.min_version("0.0.0") is False, "forgotten version is not new enough")
try:
    ebb3.parse_version("x Firmware Version 1.2.3 Firmware Version 9.9.9")
    check(False, "text after the first marker is not a version number")
except ValueError:          # packaging's InvalidVersion is a ValueError
    check(ebb3.version == "1.2.3 Firmware Version 9.9.9", "split at first marker only",
          ebb3.version)
    check(ebb3.version_parsed is None, "nothing parsed from a bad number")
ebb3.parse_version("  EBB Firmware Version   3.10.7 \r\n")
check(ebb3.version == "3.10.7" and ebb3.min_version("3.9.99") is True, "padding stripped")


# --------------------------------------------------------------------------------------
# Part 2: EBB3.connect handshake
# --------------------------------------------------------------------------------------

PORT = "/dev/fake_ebb"
RAISE_ON_WRITE = "raise-on-write"
RAISE_ON_READ = "raise-on-read"
RAISE_ON_OPEN = "raise-on-open"


class Board3:
    '''
    Fake port for the EBB3 layer. `probes` lists what happens at each successive version
    probe: reply bytes, or RAISE_ON_WRITE / RAISE_ON_READ.  Probes beyond the list are
    answered by silence.
    '''
    instances = []
    open_fails = False

    def __init__(self, name, timeout=None):
        Board3.last_args = (name, timeout)
        if Board3.open_fails:
            raise serial.SerialException("could not open port")
        self.probes = list(Board3.next_probes)
        self.rx = []
        self.writes = []
        self.log = []
        self.closed = False
        self.pending_read_error = False
        Board3.instances.append(self)

    def reset_input_buffer(self):
        self.log.append('reset')
        self.rx = []

    def write(self, data):
        check(isinstance(data, bytes), "ebb3 write must be bytes", data)
        check(not self.closed, "write on closed port")
        self.log.append(data)
        if data == b'v\r':
            action = self.probes.pop(0) if self.probes else b''
            if action == RAISE_ON_WRITE:
                raise serial.SerialException("write failed")
            self.writes.append(data)
            if action == RAISE_ON_READ:
                self.pending_read_error = True
            elif action:
                self.rx.append(action)
            return
        self.writes.append(data)
        if data == b'CU,10,1\r':
            self.rx.append(b'OK\r\n')
        elif data == b'QT\r':
            self.rx.append(b'QT,North Desk\r\n')
        else:
            self.rx.append(data[:2] + b'\r\n')

    def readline(self):
        self.log.append('read')
        if self.pending_read_error:
            self.pending_read_error = False
            raise serial.SerialException("read failed")
        return self.rx.pop(0) if self.rx else b''

    def close(self):
        self.closed = True


def fake_comports():
    return [("/dev/other", "Some modem", "USB VID:PID=1234:5678"),
            (PORT, "EiBotBoard,North Desk", "USB VID:PID=04D8:FD92 SER=North Desk LOCATION=1")]


def run_connect(probes, open_fails=False, given_name=None, caller=None, pre_err=None):
    Board3.instances = []
    Board3.next_probes = probes
    Board3.open_fails = open_fails
    real_serial, real_comports = serial.Serial, ebb3_serial.comports
    serial.Serial = Board3
    ebb3_serial.comports = fake_comports
    try:
        ebb = ebb3_serial.EBB3()
        ebb.err = pre_err
        result = ebb.connect(given_name, caller) if given_name or caller else ebb.connect()
    finally:
        serial.Serial = real_serial
        ebb3_serial.comports = real_comports
    board = Board3.instances[0] if Board3.instances else None
    check(len(Board3.instances) <= 1, "at most one port opened")
    return ebb, result, board


def is_ebb(reply):
    return b'EBB' in reply.strip() if isinstance(reply, bytes) else False


FAIL_MSG = "Failed to connect via USB (port name: " + PORT + ")"
IO_MSG = "Error testing USB connection (port name: " + PORT + ")"


def unsupported_msg(version_text):
    return ("Firmware version ({}) not supported.\n"
            "Firmware 3.0.2 or newer is required.\n"
            "Visit https://bantam.tools/ndfw to update your firmware.").format(version_text)


check(ebb3_serial.EBB3.MIN_VERSION_STRING == "3.0.2", "documented minimum")
MINIMUM = (3, 0, 2)

# 2a. every handshake shape, for a spread of firmware versions
HANDSHAKE_VERSIONS = [(3, 0, 2), (3, 0, 1), (3, 0, 10), (3, 1, 0), (2, 10, 0), (2, 9, 9),
                      (2, 8, 1), (10, 0, 0), (3, 0, 0), (4, 0, 0), (0, 0, 0), (3, 10, 1),
                      (2, 99, 99), (30, 0, 0), (3, 0, 20)]
SILENT = b''
NON_EBB = b'Hello, I am a modem\r\n'
BLANK = b'  \r\n'
for have in HANDSHAKE_VERSIONS:
    good = banner(have)
    shapes = {
        'prompt': [good],
        'prompt-then-anything': [good, NON_EBB],
        'late': [SILENT, good],
        'late-after-garbage': [NON_EBB, good],
        'late-after-blank': [BLANK, good],
        'absent': [SILENT, SILENT],
        'absent-short': [],
        'non-ebb': [NON_EBB, NON_EBB],
        'non-ebb-then-silent': [NON_EBB, SILENT],
        'too-late': [SILENT, SILENT, good],
        'raise-first-write': [RAISE_ON_WRITE, good],
        'raise-first-read': [RAISE_ON_READ, good],
        'raise-second-write': [SILENT, RAISE_ON_WRITE],
        'raise-second-read': [NON_EBB, RAISE_ON_READ],
    }
    for label, probes in shapes.items():
        ebb, result, board = run_connect(probes, caller="demo")
        info = (label, have)
        check(Board3.last_args == (PORT, 1.0), "port opened with name and 1 s timeout", info)

        # ---- oracle ----
        first = probes[0] if len(probes) > 0 else SILENT
        second = probes[1] if len(probes) > 1 else SILENT
        raised = False
        if first in (RAISE_ON_WRITE, RAISE_ON_READ):
            raised, verified, n_probe_writes = True, False, (0 if first == RAISE_ON_WRITE else 1)
        elif is_ebb(first):
            verified, n_probe_writes = True, 1
        elif second in (RAISE_ON_WRITE, RAISE_ON_READ):
            raised, verified, n_probe_writes = True, False, (1 if second == RAISE_ON_WRITE else 2)
        else:
            verified, n_probe_writes = is_ebb(second), 2
        supported = verified and have >= MINIMUM
        # ----------------

        check(result is supported, "connect result", info, result)
        if supported:
            check(ebb.err is None, "no error on success", info, ebb.err)
            check(board.writes == [b'v\r'] * n_probe_writes + [b'CU,10,1\r', b'QT\r'],
                  "traffic on success", info, board.writes)
            check(board.log[0] == 'reset' and board.log[1] == b'v\r', "flush before probe", info)
            tail = board.log[board.log.index(b'CU,10,1\r'):]
            check(tail[:4] == [b'CU,10,1\r', 'read', 'reset', b'QT\r'], "mode switch order", info)
            check(ebb.port is board and not board.closed, "port kept open", info)
            check(ebb.version == vstr(have), "version recorded", info, ebb.version)
            check(ebb.min_version(vstr(have)) is True, "parsed version recorded", info)
            check(ebb.name == "North Desk", "nickname read", info, ebb.name)
            check(ebb.caller == "demo", "caller recorded", info)
            check(ebb.port_name == PORT, "port name", info)
        else:
            check(isinstance(ebb.err, str) and ebb.err, "error recorded on failure", info)
            check(board.writes == [b'v\r'] * n_probe_writes,
                  "nothing beyond the version probe", info, board.writes)
            check(all(item in ('reset', 'read', b'v\r') for item in board.log),
                  "only probe traffic", info, board.log)
            check(ebb.caller is None and ebb.name is None, "no caller/name on failure", info)
            if raised:
                check(ebb.err == IO_MSG, "I/O error message", info, ebb.err)
                check(ebb.port is None and board.closed, "port closed after I/O error", info)
            elif not verified:
                check(ebb.err == FAIL_MSG, "failure message", info, ebb.err)
                check(ebb.port is None and board.closed, "port closed when unverified", info)
            else:
                check(ebb.err == unsupported_msg(vstr(have)), "unsupported message", info, ebb.err)
                check(ebb.version == vstr(have), "old version still recorded", info)
                check(ebb.port is board and not board.closed,
                      "old-firmware port left for the caller to close", info)

# 2b. every triple from the grid, prompt reply: connect decision equals the numeric oracle
for have in TRIPLES + [(3, 0, 1), (3, 0, 2), (3, 0, 3), (2, 99, 99), (3, 0, 10), (2, 10, 0)]:
    ebb, result, board = run_connect([banner(have)])
    check(result is (have >= MINIMUM), "connect vs oracle", have, result)
    check((ebb.err is None) is (have >= MINIMUM), "error iff unsupported", have, ebb.err)
    if have >= MINIMUM:
        check(board.writes == [b'v\r', b'CU,10,1\r', b'QT\r'], "supported traffic", have)
        check(ebb.caller is None, "no caller given", have)
    else:
        check(board.writes == [b'v\r'], "unsupported traffic", have, board.writes)

# 2c. a board that says EBB but carries no firmware version is rejected
for probes in ([b'EBB here\r\n'], [SILENT, b'EBBv13_and_above\r\n']):
    ebb, result, board = run_connect(probes)
    check(result is False, "EBB without version rejected")
    check(ebb.err == unsupported_msg("None"), "EBB without version message", ebb.err)
    check(board.writes == [b'v\r'] * len(probes), "EBB without version traffic", board.writes)
    check(ebb.version is None and ebb.version_parsed is None, "no version recorded")

# 2d. port that cannot be opened
ebb, result, board = run_connect([banner((3, 0, 2))], open_fails=True)
check(result is False and board is None, "unopenable port")
check(ebb.err == IO_MSG, "unopenable port message", ebb.err)
check(ebb.port is None, "no port object after failed open")

# 2e. named port lookup, unknown name, and an earlier error is never overwritten
ebb, result, board = run_connect([banner((3, 1, 0))], given_name="North Desk")
check(result is True and ebb.err is None and ebb.port_name == PORT, "connect by name")
check(ebb.caller is None, "caller untouched when not given")
ebb, result, board = run_connect([banner((3, 1, 0))], given_name="No Such Board")
check(result is False and board is None, "unknown name opens nothing")
check(ebb.err == "Unable to locate No Such Board on USB", "unknown name message", ebb.err)
ebb, result, board = run_connect([banner((2, 0, 0))], pre_err="earlier trouble")
check(result is False and ebb.err == "earlier trouble", "first error is kept", ebb.err)
check(board.writes == [b'v\r'], "old board, earlier error: probe only")
ebb, result, board = run_connect([SILENT, SILENT], pre_err="earlier trouble")
check(result is False and ebb.err == "earlier trouble" and board.closed, "first error kept 2")

# 2f. already connected: nothing is sent
ebb, result, board = run_connect([banner((3, 0, 2))])
sent = list(board.writes)
check(ebb.connect() is True and board.writes == sent, "already connected is a no-op")


# --------------------------------------------------------------------------------------
# Part 3: legacy feature gates transmit only when the board reports at least the minimum
# --------------------------------------------------------------------------------------

GATE_COMPONENTS = (0, 2, 3, 5, 6, 10)
GATE_TRIPLES = list(itertools.product(GATE_COMPONENTS, repeat=3)) + [
    (2, 5, 4), (2, 5, 9), (2, 5, 10), (2, 6, 1), (2, 9, 9), (2, 10, 0), (1, 99, 99),
    (2, 2, 2), (2, 2, 3), (2, 2, 4), (2, 2, 10), (2, 1, 30), (2, 4, 55), (2, 5, 50)]

NAMING_HELP = "AxiDraw naming requires firmware version 2.5.5 or higher."
NO_NAME = "This AxiDraw does not have a nickname assigned."

for have in GATE_TRIPLES:
    reply = banner(have)

    # servo timeout: needs 2.6.0
    ok = have >= (2, 6, 0)
    board = LegacyBoard(reply)
    check(ebb_motion.servo_timeout(board, 60000) is None, "servo_timeout returns None")
    check(board.non_probe_writes() == ([b'SR,60000\r'] if ok else []), "SR gate", have,
          board.writes)
    check(board.writes[0] == b'V\r', "version asked first", have)
    board = LegacyBoard(reply)
    ebb_motion.servo_timeout(board, 0, 1, False)
    check(board.non_probe_writes() == ([b'SR,0,1\r'] if ok else []), "SR gate with state", have)
    board = LegacyBoard(reply)
    ebb_motion.servo_timeout(board, 5000, state=0)
    check(board.non_probe_writes() == ([b'SR,5000,0\r'] if ok else []), "SR gate, state 0", have)

    # voltage query: needs 2.2.3
    ok = have >= (2, 2, 3)
    for volts, healthy in ((b'0394,0300\r\n', True), (b'0394,0250\r\n', True),
                           (b'0394,0249\r\n', False), (b'0394,0000\r\n', False),
                           (b'0394\r\n', True)):
        board = LegacyBoard(reply, voltage=volts)
        got = ebb_motion.queryVoltage(board)
        check(board.non_probe_writes() == ([b'QC\r'] if ok else []), "QC gate", have, volts)
        check(got is (healthy if ok else True), "voltage verdict", have, volts, got)

    # nickname query / write / reboot: need 2.5.5
    ok = have >= (2, 5, 5)
    for verbose in (True, False):
        board = LegacyBoard(reply)
        got = ebb_serial.query_nickname(board, verbose)
        check(board.non_probe_writes() == ([b'QT\r'] if ok else []), "QT gate", have, verbose)
        if ok:
            check(got == ("AxiDraw nickname: Axi7\r\n" if verbose else "Axi7"), "nickname", got)
        else:
            check(got == (NAMING_HELP if verbose else None), "naming help", have, verbose, got)
        board = LegacyBoard(reply, nickname=b'\r\n')
        got = ebb_serial.query_nickname(board, verbose)
        if ok:
            check(got == (NO_NAME if verbose else None), "blank nickname", have, verbose, got)
        else:
            check(got == (NAMING_HELP if verbose else None), "naming help 2", have, verbose, got)
    board = LegacyBoard(reply)
    check(ebb_serial.query_nickname(board) == ("AxiDraw nickname: Axi7\r\n" if ok else NAMING_HELP),
          "verbose is the default", have)

    board = LegacyBoard(reply)
    got = ebb_serial.write_nickname(board, "Plotter 2")
    check(board.non_probe_writes() == ([b'ST,Plotter 2\r'] if ok else []), "ST gate", have)
    check(got is (True if ok else None), "write_nickname result", have, got)
    board = LegacyBoard(reply)
    got = ebb_serial.write_nickname(board, None)         # cannot build the command
    check(board.non_probe_writes() == [], "ST with bad nickname sends nothing", have)
    check(got is (False if ok else None), "write_nickname bad nickname result", have, got)

    board = LegacyBoard(reply)
    check(ebb_serial.reboot(board) is None, "reboot returns None")
    check(board.non_probe_writes() == ([b'RB\r'] if ok else []), "RB gate", have)

# Devices that never report a version, and absent ports: nothing but the version query
for reply in (None, b'Hello, I am a modem\r\n', b'EBB with no number\r\n', b'\r\n'):
    board = LegacyBoard(reply)
    check(ebb_motion.servo_timeout(board, 1000, 1) is None, "SR silent")
    check(ebb_motion.queryVoltage(board) is True, "QC silent -> no warning")
    check(ebb_serial.query_nickname(board) is None, "QT silent verbose")
    check(ebb_serial.query_nickname(board, False) is None, "QT silent terse")
    check(ebb_serial.write_nickname(board, "x") is None, "ST silent")
    check(ebb_serial.reboot(board) is None, "RB silent")
    check(board.non_probe_writes() == [] and len(board.writes) == 6, "silent: probes only",
          board.writes)

check(ebb_motion.servo_timeout(None, 1000) is None, "SR no port")
check(ebb_motion.queryVoltage(None) is True, "QC no port")
check(ebb_serial.query_nickname(None) is None, "QT no port")
check(ebb_serial.query_nickname(None, False) is None, "QT no port terse")
check(ebb_serial.write_nickname(None, "x") is None, "ST no port")
check(ebb_serial.reboot(None) is None, "RB no port")

print("C15 demo OK: {} checks".format(CHECKS))
