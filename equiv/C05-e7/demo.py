import os, sys; sys.path.insert(0, os.environ.get('PLOTINK_ROOT', '/tmp/e3_C05'))
# Property C05: EBB3 command/query framing and fault handling.
# Checks EBB3.command / query / query_statusbyte and the callers that consume query
# results against an independent model of the documented behaviour, using a scripted
# fake serial port (no hardware).

import itertools

import serial
from plotink import ebb3_serial, ebb3_motion

FAILS = []
N_CHECKS = [0]


def check(cond, *info):
    N_CHECKS[0] += 1
    if not cond:
        FAILS.append(info)
        if len(FAILS) <= 25:
            print("FAIL:", *[repr(i) for i in info])


class WriteFault:
    ''' Stream item: the write itself raises '''
    def __init__(self, exc):
        self.exc = exc


class FakePort:
    ''' Scripted serial port. Items: bytes (returned), exceptions (raised). '''
    def __init__(self, stream=(), write_fault=None):
        self.stream = list(stream)
        self.write_fault = write_fault
        self.written = []
        self.reads = 0
        self.closed = False

    def write(self, data):
        self.written.append(data)
        if self.write_fault is not None:
            raise self.write_fault
        return len(data)

    def readline(self):
        self.reads += 1
        if not self.stream:
            return b''
        item = self.stream.pop(0)
        if isinstance(item, BaseException):
            raise item
        return item

    def reset_input_buffer(self):
        pass

    def close(self):
        self.closed = True


def make(cls=ebb3_serial.EBB3, stream=(), write_fault=None):
    obj = cls()
    obj.port = FakePort(stream, write_fault)
    return obj


# ---------------------------------------------------------------- the model

EXEMPT = ("rb", "r", "bl")


def model_name(text):
    ''' One-letter name if the request is one letter or "X,args"; else two letters '''
    if len(text) == 1 or text[1] == ',':
        return text[0]
    return text[:2]


def model_exchange(stream, write_fault, max_reads):
    ''' Return (outcome, reply_text, reads) with outcome in "reply", "fault". '''
    if write_fault is not None:
        return "fault", '', 0
    reads = 0
    for idx in range(max_reads):
        item = stream[idx] if idx < len(stream) else b''
        reads += 1
        if isinstance(item, BaseException):
            return "fault", '', reads
        try:
            text = item.decode('ascii').strip()
        except UnicodeDecodeError:
            return "fault", '', reads
        if text:
            return "reply", text, reads
    return "reply", '', reads


def model_command(req, stream, write_fault):
    text = req.strip()
    name = model_name(text)
    outcome, reply, reads = model_exchange(stream, write_fault, 26)
    err = None
    if outcome == "fault":
        if name.lower() not in EXEMPT:
            err = f'USB communication error after command: {text}'
    elif not reply:
        err = f'EBB Serial Timeout after command: {text}'
    elif not reply.startswith(name):
        err = '\nUnexpected response from EBB.' + f'    Command: {text}\n    Response: {reply}'
    elif 'Err:' in reply:
        err = 'Error reported by EBB.\n' + f'    Command: {text}\n    Response: {reply}'
    return (err is None), err, reads, [(text + '\r').encode('ascii')]


def model_query(req, stream, write_fault):
    text = req.strip()
    name = model_name(text)
    outcome, reply, reads = model_exchange(stream, write_fault, 26)
    err = None
    value = None
    if outcome == "fault" and name.lower() not in EXEMPT:
        err = f'USB communication error after query: {text}'
    elif not reply:
        err = f'EBB Serial Timeout after query: {text}'
    elif 'Err:' in reply or not reply.startswith(name):
        err = '\nUnexpected response from EBB.' + f'    Query: {text}\n    Response: {reply}'
    else:
        value = reply[len(name):]
        if value.startswith(','):
            value = value[1:]
    return value, err, reads, [(text + '\r').encode('ascii')]


def model_statusbyte(stream, write_fault):
    outcome, reply, reads = model_exchange(stream, write_fault, 1)
    err = None
    value = None
    if outcome == "fault":
        err = 'USB communication error after status byte query'
    elif not reply:
        err = 'EBB Serial Timeout while reading status byte.'
    elif not reply.startswith('QG'):
        err = '\nUnexpected response from EBB.' + f'    Response to QG query: {reply}'
    elif 'Err:' in reply:
        err = 'Error reported by EBB.\n' + f'    Query: QG\n    Response: {reply}'
    else:
        try:
            value = int(reply[3:], 16)
        except ValueError:
            value = None
    return value, err, reads, [b'QG\r']


# ---------------------------------------------------------------- inputs

REQUESTS = [
    'V', 'R', 'r', 'A', 'v',                                    # one letter
    'S,1', 'T,12,0', 'R,1', 'r,0',                              # one letter with arguments
    'QG', 'QT', 'QC', 'QE', 'QS', 'EM,1,1', 'SM,100,10,-10', 'SL,5,3', 'QL,3',
    'ST,My Plotter', 'PI,B,2', 'CU,10,1', 'RB', 'BL', 'rb', 'Bl', 'bL,1', 'Rb',
    'XYZ', 'QGG', 'Q1',
    ' V', 'V ', '\tV\n', '  S,1  ', ' QG', 'QG ', '\r\nQC\r\n', ' \t SM,100,10,-10 \r',
    ' RB ', '\nbl\n', ' r ', 'ST, spaced name  ',
]


def fault_list():
    return [
        serial.SerialException('boom'),
        serial.serialutil.PortNotOpenError(),
        serial.serialutil.SerialTimeoutException('write timeout'),
        OSError(5, 'Input/output error'),
        IOError('io'),
        RuntimeError('rt'),
        TimeoutError('t'),
        BrokenPipeError('bp'),
        ConnectionResetError('cr'),
        PermissionError('perm'),
    ]


def reply_forms(name):
    ''' Reply lines (bytes) for a request name: correct, error, wrong-name, junk '''
    enc = name.encode('ascii')
    forms = [
        enc + b'\r\n', enc + b',1,2\r\n', enc + b',0394,0300', b'  ' + enc + b',7  \r\n',
        enc + b'xyz\r\n', enc + b',,5\r\n', enc + b',\r\n', enc + b', spaced \r\n',
        enc + b',Err: parameter out of range\r\n', enc + b'Err:\r\n',
        b'!8 Err: Unknown command\r\n', b'Err: ' + enc + b'\r\n',
        b'ZZ,1\r\n', b'OK\r\n', b'Z\r\n', b',' + enc + b'\r\n',
        enc.swapcase() + b',1\r\n', enc[:1] + b'\r\n', enc[:1] + b',9\r\n',
        b'\xff\xfe\r\n', enc + b',\xc3\xa9\r\n',
    ]
    return forms


def streams_for(name):
    ''' Yield (stream) lists for this name '''
    forms = reply_forms(name)
    for form in forms:
        yield [form]
    good = name.encode('ascii') + b',42\r\n'
    bad = b'ZZ,42\r\n'
    errline = b'!3 Err: bad\r\n'
    empties = [b'', b'\r\n', b' \t ', b'\n']
    for count in (0, 1, 2, 24, 25, 26, 27, 40):
        pad = [empties[i % len(empties)] for i in range(count)]
        yield pad + [good]
        yield pad + [bad]
        yield pad + [errline]
        yield pad + [good, bad]           # trailing data is not consumed
    yield []
    for count in (0, 1, 5, 24, 25, 26):
        for fault in fault_list():
            yield [b''] * count + [fault, good]
        yield [b''] * count + [b'\xff', good]


# ---------------------------------------------------------------- checks

def compare(label, req, stream, write_fault, got, obj, expected):
    value, err, reads, written = expected
    check(type(got) is type(value) and got == value, label, 'return', req, stream, write_fault, got, value)
    check(obj.err == err, label, 'err', req, stream, write_fault, obj.err, err)
    check(obj.port.reads == reads, label, 'reads', req, stream, write_fault, obj.port.reads, reads)
    check(obj.port.written == written, label, 'written', req, stream, write_fault,
          obj.port.written, written)
    check(all(w.count(b'\r') == 1 and w.endswith(b'\r') for w in obj.port.written),
          label, 'one CR', req, obj.port.written)


def run_request_checks():
    for req in REQUESTS:
        name = model_name(req.strip())
        for stream in streams_for(name):
            for label, method, model in (('command', 'command', model_command),
                                         ('query', 'query', model_query)):
                obj = make(stream=stream)
                try:
                    got = getattr(obj, method)(req)
                except Exception as exc:  # pylint: disable=broad-except
                    check(False, label, 'raised', req, stream, repr(exc))
                    continue
                compare(label, req, stream, None, got, obj, model(req, stream, None))
                # Success is exactly: begins with the name and has no "Err:"
                ok = obj.err is None
                if label == 'query':
                    check((got is not None) == ok, 'query', 'None iff error', req, stream)
                else:
                    check(got is ok, 'command', 'bool iff error', req, stream)
                # After a failure the object does no further I/O
                if obj.err is not None:
                    before = (list(obj.port.written), obj.port.reads, obj.err)
                    check(obj.command(req) is False, 'after-fail command', req)
                    check(obj.query(req) is None, 'after-fail query', req)
                    check(obj.query_statusbyte() is None, 'after-fail statusbyte', req)
                    check(before == (obj.port.written, obj.port.reads, obj.err),
                          'after-fail no I/O', req, stream)
        # The write itself fails
        for fault in fault_list():
            for label, method, model in (('command', 'command', model_command),
                                         ('query', 'query', model_query)):
                obj = make(stream=[name.encode('ascii') + b',1\r\n'], write_fault=fault)
                try:
                    got = getattr(obj, method)(req)
                except Exception as exc:  # pylint: disable=broad-except
                    check(False, label, 'raised on write fault', req, repr(exc))
                    continue
                compare(label + '/wfault', req, [], fault, got, obj, model(req, [], fault))


def run_statusbyte_checks():
    streams = list(streams_for('QG'))
    for body in (b'QG,00', b'QG,3E\r\n', b'QG,ff', b'QG,0x1F', b'QG, 7 ', b'QG,zz', b'QG,', b'QG',
                 b'QG,-1', b'QG,1_0', b'QG3E', b'QGx12', b'  QG,80  \r\n', b'QG,12,34'):
        streams.append([body])
    for stream in streams:
        obj = make(stream=stream)
        try:
            got = obj.query_statusbyte()
        except Exception as exc:  # pylint: disable=broad-except
            check(False, 'statusbyte', 'raised', stream, repr(exc))
            continue
        compare('statusbyte', 'QG', stream, None, got, obj, model_statusbyte(stream, None))
    for fault in fault_list():
        obj = make(stream=[b'QG,01\r\n'], write_fault=fault)
        try:
            got = obj.query_statusbyte()
        except Exception as exc:  # pylint: disable=broad-except
            check(False, 'statusbyte', 'raised on write fault', repr(exc))
            continue
        compare('statusbyte/wfault', 'QG', [], fault, got, obj, model_statusbyte([], fault))


def run_guard_checks():
    ''' No port, prior error, or None request: failure value and no I/O '''
    obj = ebb3_serial.EBB3()
    check(obj.command('QG') is False and obj.query('QG') is None
          and obj.query_statusbyte() is None and obj.err is None, 'no port')
    obj = make(stream=[b'QG,1\r\n'])
    check(obj.command(None) is False and obj.query(None) is None, 'None request')
    check(obj.port.written == [] and obj.port.reads == 0 and obj.err is None, 'None request I/O')
    obj = make(stream=[b'QG,1\r\n'])
    obj.err = 'earlier'
    check(obj.command('QG') is False and obj.query('QG') is None
          and obj.query_statusbyte() is None, 'prior error')
    check(obj.port.written == [] and obj.port.reads == 0 and obj.err == 'earlier', 'prior error I/O')
    # First error wins
    obj = make(stream=[b'ZZ\r\n'])
    obj.command('EM,1,1')
    first = obj.err
    obj.err = None
    obj.port.stream = [b'!1 Err: x\r\n']
    obj.query('QC')
    check(first is not None and obj.err is not None and obj.err != first, 'errors distinct')


class Device:
    ''' A conforming EBB: answers each request line with one reply line, after some idle reads '''
    def __init__(self, idle_pattern):
        self.pending = []
        self.log = []
        self.idle = itertools.cycle(idle_pattern)
        self.values = {}
        self.counter = 0

    def write(self, data):
        text = data.decode('ascii')
        assert text.endswith('\r') and text.count('\r') == 1, text
        text = text[:-1]
        self.log.append(text)
        name = model_name(text)
        self.counter += 1
        if name == 'QG':
            reply = f'QG,{self.counter % 256:02X}'
        elif name in ('QC', 'QS', 'QE', 'QL', 'PI', 'QT', 'V'):
            reply = f'{name},{self.counter}'
        else:
            reply = name
        self.values[self.counter] = reply
        self.pending.extend([b''] * next(self.idle))
        self.pending.append(reply.encode('ascii') + b'\r\n')
        return len(data)

    def readline(self):
        if self.pending:
            return self.pending.pop(0)
        return b''


def run_attribution_checks():
    ''' Each reply is attributed to the request that caused it '''
    for pattern in ((0,), (1,), (0, 3, 25), (25,), (7, 0, 24)):
        obj = ebb3_serial.EBB3()
        dev = Device(pattern)
        obj.port = dev
        script = ['QC', 'EM,1,1', ' QS ', 'V', 'SM,10,1,1', 'QL,4', 'S,2', 'QT', 'PI,B,1',
                  'QE', 'XM,1,2,3', 'QC']
        sent = []
        for idx, req in enumerate(script):
            number = dev.counter + 1
            name = model_name(req.strip())
            if idx % 5 == 4 and pattern == (0,):
                # query_statusbyte does not wait through empty reads: prompt device only
                status = obj.query_statusbyte()
                check(status == number % 256, 'attribution statusbyte', status, number)
                sent.append('QG')
                number += 1
            if name in ('QC', 'QS', 'QE', 'QL', 'PI', 'QT', 'V'):
                got = obj.query(req)
                check(got == str(number), 'attribution query', pattern, req, got, number)
            else:
                got = obj.command(req)
                check(got is True, 'attribution command', pattern, req, got)
            sent.append(req.strip())
        check(obj.err is None, 'attribution err', pattern, obj.err)
        check(dev.log == sent, 'attribution log', pattern, dev.log, sent)
        check(dev.pending == [], 'attribution leftover', pattern, dev.pending)


def run_caller_checks():
    ''' Callers that consume query results: correct values, and no raise on faults '''
    wrap = ebb3_motion.EBBMotionWrap
    good_cases = [
        (lambda o: o.query_voltage(), [b'QC,0394,0300\r\n'], True, [b'QC\r']),
        (lambda o: o.query_voltage(), [b'', b'QC,0394,0249\r\n'], False, [b'QC\r']),
        (lambda o: o.query_voltage(300), [b'QC,0394,0300\r\n'], True, [b'QC\r']),
        (lambda o: o.query_voltage(301), [b'QC,0394,0300\r\n'], False, [b'QC\r']),
        (lambda o: o.query_current(), [b'QC,0394,0300\r\n'], (394, 300), [b'QC\r']),
        (lambda o: o.motors_query_enabled(), [b'QE,16,8\r\n'], (1, 2), [b'QE\r']),
        (lambda o: o.motors_query_enabled(), [b'QE,0,1\r\n'], (0, 5), [b'QE\r']),
        (lambda o: o.query_steps(), [b'\r\n', b'QS,100,-200\r\n'], (100, -200), [b'QS\r']),
        (lambda o: o.dio_b_read(2), [b'PI,1\r\n'], True, [b'PI,B,2\r']),
        (lambda o: o.dio_b_read(0), [b'PI,0\r\n'], False, [b'PI,B,0\r']),
        (lambda o: o.var_read(7), [b'QL,42\r\n'], 42, [b'QL,7\r']),
        (lambda o: o.var_write(200, 3), [b'SL\r\n'], True, [b'SL,200,3\r']),
        (lambda o: o.write_nickname('  Fred '), [b'ST\r\n'], True, [b'ST,Fred\r']),
        (lambda o: o.var_read_int32(4), [b'QL,255\r\n', b'QL,255\r\n', b'QL,255\r\n', b'QL,254\r\n'],
         -2, [b'QL,4\r', b'QL,5\r', b'QL,6\r', b'QL,7\r']),
    ]
    for func, stream, want, written in good_cases:
        obj = make(wrap, stream)
        try:
            got = func(obj)
        except Exception as exc:  # pylint: disable=broad-except
            check(False, 'caller raised', stream, repr(exc))
            continue
        check(type(got) is type(want) and got == want, 'caller value', stream, got, want)
        check(obj.err is None and obj.port.written == written, 'caller I/O', stream,
              obj.err, obj.port.written)

    obj = make(wrap, [b'QT,Plotter One   \r\n'])
    obj.query_nickname()
    check(obj.name == 'Plotter One' and obj.err is None, 'nickname', obj.name)

    callers = [
        (lambda o: o.query_voltage(), None), (lambda o: o.query_current(), (None, None)),
        (lambda o: o.motors_query_enabled(), None), (lambda o: o.query_steps(), None),
        (lambda o: o.dio_b_read(1), None), (lambda o: o.var_read(3), None),
        (lambda o: o.var_read_int32(3), None), (lambda o: o.var_write(1, 2), False),
        (lambda o: o.var_write_int32(70000, 2), False), (lambda o: o.write_nickname('Bob'), False),
        (lambda o: o.query_nickname(), None), (lambda o: o.query_statusbyte(), None),
    ]
    fault_streams = [[], [b''] * 30, [b'!8 Err: Unknown command\r\n'], [b'ZZ,1,2\r\n'],
                     [b'\xff\xff\r\n'], [b'', b'', b'!5 Err: x\r\n']]
    fault_streams += [[fault] for fault in fault_list()]
    fault_streams += [[b'', fault] for fault in fault_list()]
    for func, want in callers:
        for stream in fault_streams:
            for write_fault in [None]:
                obj = make(wrap, stream, write_fault)
                try:
                    got = func(obj)
                except Exception as exc:  # pylint: disable=broad-except
                    check(False, 'caller raised on fault', stream, repr(exc))
                    continue
                check(got == want and type(got) is type(want), 'caller fault value', stream, got, want)
                check(obj.err is not None, 'caller fault recorded', stream)
                check(len(obj.port.written) == 1, 'caller fault single write', stream,
                      obj.port.written)
        for fault in fault_list():
            obj = make(wrap, [b'QC,1,2\r\n'], fault)
            try:
                got = func(obj)
            except Exception as exc:  # pylint: disable=broad-except
                check(False, 'caller raised on write fault', repr(fault), repr(exc))
                continue
            check(got == want and obj.err is not None and len(obj.port.written) == 1,
                  'caller write fault', repr(fault), got, obj.err)


def main():
    run_request_checks()
    run_statusbyte_checks()
    run_guard_checks()
    run_attribution_checks()
    run_caller_checks()
    print(f'{N_CHECKS[0]} checks, {len(FAILS)} failures')
    return 1 if FAILS else 0


if __name__ == '__main__':
    sys.exit(main())
