import os, sys; sys.path.insert(0, os.environ.get('PLOTINK_ROOT', '/tmp/wtf_C12'))
# Demo / checker for property C12: length parsing and unit conversion are
# mutually consistent and follow SVG units (96 px per inch).
#
# Oracle: (1) exact rational arithmetic (fractions.Fraction) for the SVG factors,
# (2) the documented floating-point formulas, evaluated independently here.
import math
from fractions import Fraction

from plotink import plot_utils as pu

FAILURES = []
CHECKS = [0]


def check(cond, msg):
    CHECKS[0] += 1
    if not cond:
        FAILURES.append(msg)


def same(a, b):
    """Exact equality of results, NaN-aware and type-aware."""
    if a is None or b is None:
        return a is None and b is None
    if type(a) is not type(b):
        return False
    if isinstance(a, float) and math.isnan(a):
        return math.isnan(b)
    return a == b and math.copysign(1.0, a) == math.copysign(1.0, b)


# ---------------------------------------------------------------- domain
NUMERALS = ['0', '-0', '0.0', '1', '-1', '+2', '3.5', '.5', '5.', '-.25', '007',
            '1e3', '1E-3', '-2.5e+2', '6.02E23', '1e-320', '1e300', '123456789.123456789',
            '25.4', '2.54', '96', '72', '6', '101.6', '0.1', '0.3', '1e-7', '-1234.5678',
            '100', '33.333333333333336', '1.7976931348623157e308', '4.9e-324']
UNITS = ['', 'px', 'in', 'mm', 'cm', 'pt', 'pc', 'Q', 'q', '%']
PADS = [('', ''), (' ', ''), ('', ' '), ('  ', '\t'), ('\n', '\r\n'), ('\t \x0b', ' \x0c ')]
INNER = ['', ' ']      # whitespace between numeral and unit is tolerated by float()

CANON = {'': 'px', 'px': 'px', 'in': 'in', 'mm': 'mm', 'cm': 'cm', 'pt': 'pt',
         'pc': 'pc', 'Q': 'Q', 'q': 'Q', '%': '%'}

# exact SVG factors: user units (px) per one unit
EXACT = {'px': Fraction(1), 'in': Fraction(96), 'mm': Fraction(96) / Fraction('25.4'),
         'cm': Fraction(96) / Fraction('2.54'), 'pt': Fraction(96, 72), 'pc': Fraction(96, 6),
         'Q': Fraction(96) / Fraction('101.6')}
EXACT_IN = {u: f / 96 for u, f in EXACT.items()}


def doc_to_px(v, u, ppi=96.0):
    """Documented float formula for value -> user units."""
    if u == 'px':
        return v
    if u == 'in':
        return v * ppi
    return v * ppi / {'mm': 25.4, 'cm': 2.54, 'pt': 72.0, 'pc': 6.0, 'Q': 101.6}[u]


def doc_from_px(d, u, ppi=96.0):
    if u in ('', 'px'):
        return d
    if u == 'in':
        return d / ppi
    if u == '%':
        return d * 100.0
    return d / (ppi / {'mm': 25.4, 'cm': 2.54, 'pt': 72.0, 'pc': 6.0, 'Q': 101.6, 'q': 101.6}[u])


def doc_to_in(v, u):
    if u == 'px':
        return v / 96.0
    if u == 'in':
        return v
    return v / {'mm': 25.4, 'cm': 2.54, 'pt': 72.0, 'pc': 6.0, 'Q': 101.6}[u]


def near(result, exact, rel=8e-16):
    """result (float) is within a few ulp of exact (Fraction)."""
    if math.isinf(result):
        # the documented formula multiplies by 96 first, so the intermediate may overflow
        return abs(exact) * 102 > Fraction(1.7976931348623157e308)
    err = abs(Fraction(result) - exact)
    return err <= abs(exact) * Fraction(rel) + Fraction(5e-324) * 2


class FakeRoot:
    def __init__(self, attrs):
        self.attrs = attrs
        self.asked = []

    def get(self, name, default=None):
        self.asked.append(name)
        return self.attrs.get(name, default)


class FakeDoc:
    def __init__(self, attrs):
        self.root = FakeRoot(attrs)

    def getroot(self):
        return self.root


class FakeSelf:
    def __init__(self, **attrs):
        self.document = FakeDoc(attrs)


# ---------------------------------------------------------------- constant
check(pu.PX_PER_INCH == 96.0 and isinstance(pu.PX_PER_INCH, float), 'PX_PER_INCH is not 96.0')

# ---------------------------------------------------------------- well-formed lengths
REFS = [None, 0, 0.0, 200, 12.5, '300', -40]
for num in NUMERALS:
    v = float(num)
    for unit in UNITS:
        cu = CANON[unit]
        for lead, trail in PADS:
            for mid in INNER:
                text = lead + num + mid + unit + trail
                tag = repr(text)
                # 1. parsing yields that value and unit
                got = pu.parseLengthWithUnits(text)
                check(isinstance(got, tuple) and len(got) == 2, 'parse shape ' + tag)
                pv, pun = got
                check(same(pv, v) and pun == cu, 'parse %s -> %r' % (tag, got))
                if lead or trail or mid:
                    if (lead, trail) != PADS[3]:
                        continue        # keep run-time low: full checks on a subset of paddings
                # 2. conversion to user units
                uu = pu.unitsToUserUnits(text)
                if cu == '%':
                    check(same(uu, v / 100.0), 'uu %% no ref %s -> %r' % (tag, uu))
                    for ref in REFS:
                        r = pu.unitsToUserUnits(text, ref)
                        exp = v * float(ref) / 100.0 if ref else v / 100.0
                        check(same(r, exp), 'uu %% ref=%r %s -> %r' % (ref, tag, r))
                        check(same(pu.unitsToUserUnits(text, percent_ref=ref), exp), 'uu kw ref')
                else:
                    exp = doc_to_px(v, cu)
                    check(same(uu, exp), 'uu %s -> %r expected %r' % (tag, uu, exp))
                    check(near(uu, Fraction(v) * EXACT[cu]), 'uu %s not SVG factor: %r' % (tag, uu))
                    # percent_ref is irrelevant for absolute units
                    check(same(pu.unitsToUserUnits(text, 123.0), exp), 'uu ref ignored ' + tag)
                    # 3. converting back returns the original value
                    for back_unit in ([cu, unit] if unit else [cu, '']):
                        back = pu.userUnitToUnits(uu, back_unit)
                        check(same(back, doc_from_px(exp, back_unit)), 'back formula %s %r' % (tag, back))
                        if not math.isinf(uu) and abs(v) > 1e-300:
                            check(math.isclose(back, v, rel_tol=1e-14),
                                  'round trip %s -> %r -> %r' % (tag, uu, back))
                        if v == 0:
                            check(back == 0, 'round trip zero ' + tag)
                # 4. document attribute readers agree
                for default in (816, 1056.0, '100', 0):
                    obj = FakeSelf(width=text)
                    gl = pu.getLength(obj, 'width', default)
                    check(obj.document.root.asked == ['width'], 'getLength asked ' + tag)
                    if cu == '%':
                        check(same(gl, float(default) * v / 100.0), 'getLength %% %s d=%r -> %r' % (tag, default, gl))
                    else:
                        check(same(gl, doc_to_px(v, cu)), 'getLength %s -> %r' % (tag, gl))
                        check(same(gl, uu), 'getLength != unitsToUserUnits ' + tag)
                obj = FakeSelf(height=text)
                gi = pu.getLengthInches(obj, 'height')
                check(obj.document.root.asked == ['height'], 'getLengthInches asked ' + tag)
                if cu == '%':
                    check(gi is None, 'getLengthInches %% %s -> %r' % (tag, gi))
                else:
                    check(same(gi, doc_to_in(v, cu)), 'getLengthInches %s -> %r' % (tag, gi))
                    check(near(gi, Fraction(v) * EXACT_IN[cu]), 'getLengthInches exact ' + tag)
                    px = pu.getLength(FakeSelf(height=text), 'height', 1)
                    if not (math.isinf(px) or math.isinf(gi * 96.0)) and abs(v) > 1e-300:
                        check(math.isclose(px, gi * 96.0, rel_tol=1e-14), 'px != in*96 ' + tag)
                    if v == 0:
                        check(px == 0 and gi == 0, 'zero attr ' + tag)

# ---------------------------------------------------------------- malformed / unsupported
BAD = ['', ' ', '\t\n', 'abc', 'em', 'ex', '1em', '1ex', '2.5 em', '3 ex', '1rem', '1ch', '1vw', '1vh',
       '1vmin', '1deg', '1m', '1 k', 'px', 'in', 'mm', 'cm', 'pt', 'pc', 'Q', 'q', '%', ' px ', ' % ',
       '1..2', '1e', 'e5', '--1', '+-1', '1px2', '1 p x', 'mm1', 'px1', '1PX', '1Mm', '1IN', '1Pt', '1 PC',
       '1,5mm', '1 2', '1 2px', '0x10', '1pxpx', '1mmpx', '1%%', '1Qq', '1inin', '5px%', '5%px', '12p',
       '12x', '12c', '12t', '12n', '.', '-', '+', '1e+', '.e1', 'one', '1.2.3cm', 'i n', '1i n', '½']
for text in BAD:
    tag = repr(text)
    check(pu.parseLengthWithUnits(text) == (None, None), 'parse bad %s -> %r' % (tag, pu.parseLengthWithUnits(text)))
    check(pu.unitsToUserUnits(text) is None, 'uu bad ' + tag)
    check(pu.unitsToUserUnits(text, 100) is None, 'uu bad ref ' + tag)
    if text:        # a non-empty malformed attribute -> None ; empty attribute == absent attribute
        check(pu.getLength(FakeSelf(width=text), 'width', 50) is None, 'getLength bad ' + tag)
    check(pu.getLengthInches(FakeSelf(width=text), 'width') is None, 'getLengthInches bad ' + tag)
check(pu.parseLengthWithUnits(None) == (None, None), 'parse None')
check(pu.unitsToUserUnits(None) is None, 'uu None')
check(pu.unitsToUserUnits(None, 10) is None, 'uu None ref')

# absent or empty attribute: default for getLength, None for getLengthInches
for attrs in ({}, {'width': ''}, {'height': '10mm'}):
    for default, exp in ((816, 816.0), ('100', 100.0), (12.5, 12.5), (0, 0.0), (-3, -3.0)):
        got = pu.getLength(FakeSelf(**attrs), 'width', default)
        check(same(got, exp), 'getLength default %r %r -> %r' % (attrs, default, got))
    check(pu.getLengthInches(FakeSelf(**attrs), 'width') is None, 'getLengthInches absent %r' % (attrs,))
# default is only consulted for '%' / absent attribute
check(same(pu.getLength(FakeSelf(width='5in'), 'width', 'not-a-number'), 480.0), 'lazy default')
check(pu.getLength(FakeSelf(width='5em'), 'width', 'not-a-number') is None, 'lazy default unsupported')
for attrs in ({}, {'width': '50%'}):
    try:
        pu.getLength(FakeSelf(**attrs), 'width', 'not-a-number')
    except ValueError:
        check(True, '')
    else:
        check(False, 'non-numeric default must raise ValueError when it is needed %r' % (attrs,))

# ---------------------------------------------------------------- userUnitToUnits details
for unit in UNITS + ['em', 'ex', 'PX', 'IN', 'Mm', ' px', 'px ', 'furlong', 'pxin', None]:
    check(pu.userUnitToUnits(None, unit) is None, 'back None %r' % (unit,))
for unit in ['em', 'ex', 'PX', 'IN', 'Mm', ' px', 'px ', 'furlong', 'pxin', 'QQ', '%%', 'p', None]:
    check(pu.userUnitToUnits(96.0, unit) is None, 'back unsupported %r' % (unit,))
    check(pu.userUnitToUnits('garbage', unit) is None, 'back unsupported, no float() %r' % (unit,))
for d in [0, 0.0, -0.0, 1, 96, 96.0, -48.0, 3.7795275590551185, 1e-310, 1e308, '96', ' 48 ', True]:
    fd = float(d)
    for unit in UNITS:
        got = pu.userUnitToUnits(d, unit)
        check(same(got, doc_from_px(fd, unit)), 'back %r %r -> %r' % (d, unit, got))
        check(isinstance(got, float), 'back type %r %r' % (d, unit))
known = {'': 96.0, 'px': 96.0, 'in': 1.0, 'mm': 25.4, 'cm': 2.54, 'pt': 72.0, 'pc': 6.0, 'Q': 101.6,
         'q': 101.6, '%': 9600.0}
for unit, exp in known.items():
    got = pu.userUnitToUnits(96, unit)
    check(math.isclose(got, exp, rel_tol=1e-15), 'one inch in %r -> %r' % (unit, got))
    if unit != '%':
        check(math.isclose(pu.unitsToUserUnits('%r%s' % (exp, unit)), 96.0, rel_tol=1e-15), 'one inch from ' + unit)
for d in ('garbage', ''):
    for unit in UNITS:
        try:
            pu.userUnitToUnits(d, unit)
        except ValueError:
            check(True, '')
        else:
            check(False, 'userUnitToUnits(%r, %r) should raise ValueError' % (d, unit))

# ---------------------------------------------------------------- result types & misc characterisation
for text in ['3px', '3', '3in', '3mm', '3cm', '3pt', '3pc', '3Q', '3q', '3%']:
    check(type(pu.parseLengthWithUnits(text)[0]) is float, 'parse type ' + text)
    check(type(pu.unitsToUserUnits(text)) is float, 'uu type ' + text)
    check(type(pu.getLength(FakeSelf(w=text), 'w', 7)) is float, 'getLength type ' + text)
    if text != '3%':
        check(type(pu.getLengthInches(FakeSelf(w=text), 'w')) is float, 'getLengthInches type ' + text)
check(same(pu.parseLengthWithUnits('inf')[0], math.inf) and pu.parseLengthWithUnits('inf')[1] == 'px', 'inf')
check(pu.parseLengthWithUnits('-infinitymm') == (-math.inf, 'mm'), '-infinitymm')
pv, pun = pu.parseLengthWithUnits('nanpt')
check(pv is not None and math.isnan(pv) and pun == 'pt', 'nanpt')
check(pu.parseLengthWithUnits('1_0cm') == (10.0, 'cm'), 'underscore numeral')
check(pu.parseLengthWithUnits(' 12.5 % ') == (12.5, '%'), 'inner blank percent')
check(pu.unitsToUserUnits('infmm') == math.inf and pu.getLengthInches(FakeSelf(w='-infQ'), 'w') == -math.inf, 'inf conv')
check(math.isnan(pu.unitsToUserUnits('nan%', 50)), 'nan percent')
check(pu.unitsToUserUnits('1e308in') == math.inf, 'overflow in')
check(pu.unitsToUserUnits('1e308mm') == math.inf, 'overflow before division (value * ppi / 25.4)')
check(pu.userUnitToUnits(math.inf, 'mm') == math.inf, 'inf back')

# ---------------------------------------------------------------- the constant is read at call time
saved = pu.PX_PER_INCH
try:
    pu.PX_PER_INCH = 90.0
    for num in ['1', '-2.5', '0', '7e3']:
        v = float(num)
        for unit in UNITS:
            cu = CANON[unit]
            text = num + unit
            if cu != '%':
                exp = doc_to_px(v, cu, 90.0)
                check(same(pu.unitsToUserUnits(text), exp), '90ppi uu ' + text)
                check(same(pu.getLength(FakeSelf(w=text), 'w', 5), exp), '90ppi getLength ' + text)
                check(same(pu.getLengthInches(FakeSelf(w=text), 'w'), doc_to_in(v, cu)), '90ppi inches ' + text)
            else:
                check(same(pu.unitsToUserUnits(text, 40), v * 40.0 / 100.0), '90ppi uu % ' + text)
                check(same(pu.getLength(FakeSelf(w=text), 'w', 5), 5.0 * v / 100.0), '90ppi getLength % ' + text)
            check(same(pu.userUnitToUnits(v, unit), doc_from_px(v, unit, 90.0)), '90ppi back ' + text)
finally:
    pu.PX_PER_INCH = saved
check(pu.unitsToUserUnits('1in') == 96.0, 'constant restored')

# ---------------------------------------------------------------- verdict
if FAILURES:
    print('C12 demo: %d of %d checks FAILED' % (len(FAILURES), CHECKS[0]))
    for line in FAILURES[:40]:
        print('  FAIL', line)
    sys.exit(1)
print('C12 demo: all %d checks passed' % CHECKS[0])
sys.exit(0)
