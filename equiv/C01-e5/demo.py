import os, sys; sys.path.insert(0, os.environ.get('PLOTINK_ROOT', '/tmp/wtf_C01'))
"""
Check of property C01: move_dist_lt() == firmware step-accumulator recurrence.

Oracle 1: literal tick-by-tick integer simulation (small T).
Oracle 2: exact integer closed form of the same recurrence (any T), itself
          cross-checked against oracle 1 inside this script.
Also checks: clear-to-0 / clear-to-(2^31-1) decision, independence of the
ambient mpmath precision, and the deprecated aliases in ebb_motion.
"""
import random
import mpmath
from plotink import ebb_calc, ebb_motion

M = 1 << 31
RMAX = M - 1
FAILS = []


def trunc_half(a):
    """accel/2 truncated toward zero, integers only"""
    return a // 2 if a >= 0 else -((-a) // 2)


def clear_value(rate, accel):
    """ Start value of a cleared accumulator: look for first non-zero rate """
    r = rate - trunc_half(accel)
    for _ in range(3):
        r += accel
        if r > 0:
            return 0
        if r < 0:
            return RMAX
    return 0  # never moves (accel == 0 and rate == 0)


def oracle_sim(rate, accel, ticks, accum):
    """ literal firmware recurrence """
    total = clear_value(rate, accel) if accum == "clear" else accum
    r = rate - trunc_half(accel)
    for _ in range(ticks):
        r += accel
        assert -RMAX <= r <= RMAX
        total += r
    pos = total // M
    return pos, total - pos * M


def oracle_closed(rate, accel, ticks, accum):
    """ exact integer closed form of the recurrence """
    total = clear_value(rate, accel) if accum == "clear" else accum
    total += (rate - trunc_half(accel)) * ticks + accel * ticks * (ticks + 1) // 2
    return total // M, total % M


def in_domain(rate, accel, ticks):
    first = rate - trunc_half(accel) + accel
    last = rate - trunc_half(accel) + accel * ticks
    return abs(first) <= RMAX and abs(last) <= RMAX and ticks >= 1


def check(rate, accel, ticks, accum, oracle, dps=None, prec=None):
    if dps is not None:
        mpmath.mp.dps = dps
    if prec is not None:
        mpmath.mp.prec = prec
    want = oracle(rate, accel, ticks, accum)
    got = ebb_calc.move_dist_lt(rate, accel, ticks, accum)
    ok = (tuple(got) == want and len(got) == 2
          and all(type(v) is int for v in got) and 0 <= got[1] < M)
    if not ok:
        FAILS.append(("move_dist_lt", rate, accel, ticks, accum, dps, prec, got, want))
    return got


def check_aliases(rate, accel, ticks, accum_int):
    want = oracle_closed(rate, accel, ticks, accum_int)
    got = ebb_motion.moveDistLMA(rate, accel, ticks, accum_int)
    if tuple(got) != want:
        FAILS.append(("moveDistLMA", rate, accel, ticks, accum_int, got, want))
    want0 = oracle_closed(rate, accel, ticks, 0)[0]
    got0 = ebb_motion.moveDistLM(rate, accel, ticks)
    if got0 != want0 or type(got0) is not int:
        FAILS.append(("moveDistLM", rate, accel, ticks, got0, want0))
    # "clear" passes through the LMA alias, too
    wantc = oracle_closed(rate, accel, ticks, "clear")
    gotc = ebb_motion.moveDistLMA(rate, accel, ticks, "clear")
    if tuple(gotc) != wantc:
        FAILS.append(("moveDistLMA-clear", rate, accel, ticks, gotc, wantc))


def main():
    rnd = random.Random(5005)
    n = 0

    # --- 0. Cross-check the two oracles (small T, literal simulation)
    for _ in range(1500):
        accel = rnd.choice([0, 1, -1, 2, -2, 3, -3, rnd.randint(-10**6, 10**6)])
        ticks = rnd.randint(1, 60)
        rate = rnd.randint(-RMAX // 2, RMAX // 2)
        if not in_domain(rate, accel, ticks):
            continue
        for accum in ("clear", 0, RMAX, rnd.randrange(M)):
            assert oracle_sim(rate, accel, ticks, accum) == \
                oracle_closed(rate, accel, ticks, accum)

    # --- 1. Exhaustive small grid incl. every clear-decision corner
    small = [-5, -4, -3, -2, -1, 0, 1, 2, 3, 4, 5]
    for rate in small:
        for accel in small:
            for ticks in (1, 2, 3, 4, 7):
                for accum in ("clear", 0, 1, RMAX, RMAX - 1, 12345):
                    check(rate, accel, ticks, accum, oracle_sim)
                    n += 1

    # --- 2. First-tick rate exactly zero / +-1, at large scale
    for accel in (-7, -6, -1, 1, 6, 7, -1000001, 1000001, -2 * 10**6, 2 * 10**6, 0):
        for delta in (-1, 0, 1):
            rate = trunc_half(accel) - accel + delta      # first-tick rate == delta
            for ticks in (1, 2, 5, 1000):
                if in_domain(rate, accel, ticks):
                    check(rate, accel, ticks, "clear", oracle_sim)
                    n += 1

    # --- 3. Random moves, moderate T (literal simulation oracle)
    count = 0
    while count < 400:
        ticks = rnd.randint(1, 400)
        accel = rnd.randint(-RMAX // ticks, RMAX // ticks)
        rate = rnd.randint(-RMAX, RMAX)
        if not in_domain(rate, accel, ticks):
            continue
        accum = rnd.choice(["clear", rnd.randrange(M)])
        check(rate, accel, ticks, accum, oracle_sim,
              dps=rnd.choice([None, 2, 5, 15, 50, 200]))
        count += 1
        n += 1

    # --- 4. Random moves, huge T (closed-form oracle), odd ambient precisions
    count = 0
    while count < 3000:
        ticks = rnd.choice([rnd.randint(1, 1 << 32), rnd.randint(1, 1 << 20),
                            rnd.randint((1 << 32) - 1000, (1 << 32))])
        amax = (2 * RMAX) // ticks
        accel = rnd.randint(-amax, amax)
        rate = rnd.randint(-RMAX, RMAX)
        if not in_domain(rate, accel, ticks):
            continue
        accum = rnd.choice(["clear", 0, RMAX, rnd.randrange(M)])
        if count % 3 == 0:
            check(rate, accel, ticks, accum, oracle_closed, dps=rnd.choice([1, 3, 8, 15, 100]))
        elif count % 3 == 1:
            check(rate, accel, ticks, accum, oracle_closed, prec=rnd.choice([4, 24, 53, 64, 999]))
        else:
            check(rate, accel, ticks, accum, oracle_closed)
        if count % 10 == 0:
            check_aliases(rate, accel, ticks, rnd.randrange(M))
        count += 1
        n += 1

    # --- 5. Extreme corners of the domain
    corners = [
        (-M, 1, (1 << 32) - 2),          # sweeps -(2^31-1) .. 2^31-2
        (M, -1, (1 << 32) - 2),
        (RMAX, 0, 1 << 32), (-RMAX, 0, 1 << 32),
        (RMAX, 0, 1), (-RMAX, 0, 1), (0, 0, 1), (0, 0, 1 << 32),
        (0, 1, RMAX), (0, -1, RMAX),
        (RMAX - 1, 2, 1), (-RMAX + 1, -2, 1),
        (-RMAX, 2 * RMAX, 1), (RMAX, -2 * RMAX, 1),
        (1, -3, 1), (-1, 3, 1), (2, -3, 1), (-2, 3, 1),
    ]
    for rate, accel, ticks in corners:
        assert in_domain(rate, accel, ticks), (rate, accel, ticks)
        for accum in ("clear", 0, RMAX, 1 << 30):
            for dps in (None, 4, 77):
                check(rate, accel, ticks, accum, oracle_closed, dps=dps)
                n += 1
        check_aliases(rate, accel, ticks, 99)

    # --- 6. Same answer inside a caller's workdps/workprec context
    for rate, accel, ticks in [(123456789, -4321, 40000), (-2000000000, 3, 1 << 30)]:
        assert in_domain(rate, accel, ticks)
        with mpmath.workdps(3):
            a = check(rate, accel, ticks, "clear", oracle_closed)
        with mpmath.workprec(7):
            b = check(rate, accel, ticks, "clear", oracle_closed)
        c = check(rate, accel, ticks, "clear", oracle_closed, dps=500)
        if not a == b == c:
            FAILS.append(("ambient", rate, accel, ticks, a, b, c))

    # --- 7. Inputs given as integral floats / strings of ints are coerced (documented)
    if tuple(ebb_calc.move_dist_lt(1000.0, 10.0, 50.0, 7.0)) != oracle_closed(1000, 10, 50, 7):
        FAILS.append(("float-coercion",))
    if tuple(ebb_calc.move_dist_lt(5, 5, 0)) != (0, 0):
        FAILS.append(("zero-time",))

    # --- 8. Alias return shapes: LMA gives a pair of ints, LM a bare int
    for rate, accel, ticks, acc in [(0, 0, 5, 17), (-3, 1, 9, RMAX), (250000, -7, 1 << 20, 1)]:
        pair = ebb_motion.moveDistLMA(rate, accel, ticks, acc)
        if not (isinstance(pair, tuple) and len(pair) == 2 and all(type(v) is int for v in pair)):
            FAILS.append(("LMA-shape", pair))
        if pair != ebb_calc.move_dist_lt(rate, accel, ticks, acc):
            FAILS.append(("LMA-vs-lt", pair))
        if type(ebb_motion.moveDistLM(rate, accel, ticks)) is not int:
            FAILS.append(("LM-shape",))
        # default argument is "clear"
        if ebb_calc.move_dist_lt(rate, accel, ticks) != ebb_calc.move_dist_lt(rate, accel, ticks, "clear"):
            FAILS.append(("default-accum",))
        if tuple(ebb_calc.move_dist_lt(rate, accel, ticks)) != oracle_closed(rate, accel, ticks, "clear"):
            FAILS.append(("default-accum-oracle",))

    if FAILS:
        for f in FAILS[:20]:
            print("FAIL", f)
        print("%d failures of %d checks" % (len(FAILS), n))
        return 1
    print("C01 demo OK: %d move checks" % n)
    return 0


if __name__ == "__main__":
    sys.exit(main())
