import os, sys; sys.path.insert(0, os.environ.get('PLOTINK_ROOT', '/tmp/wte_C11'))
# Checks property C11 (viewBox scaling follows the SVG preserveAspectRatio rules)
# for plotink.plot_utils.vb_scale.
#
# Part A: exact-arithmetic (Fraction) oracle written from the SVG 1.1 text:
#         the viewBox rectangle, mapped by p -> (p + o) * s, must land on the
#         page as prescribed (stretch / uniform min-or-max ratio / edge or
#         centre alignment per axis).
# Part B: attribute syntax variants (case, separators, defer, absent values).
# Part C: identity transform for missing / malformed viewBox and bad sizes.
# Part D: bit-for-bit agreement with a float "golden model" of the documented
#         computation, on a large deterministic grid including boundary cases
#         (ties of aspect ratio, signed zeros, unknown keywords, bad types).
import itertools
import math
import random
from fractions import Fraction as F

from plotink import plot_utils

vb_scale = plot_utils.vb_scale

FAILS = []
COUNT = [0]


def fail(msg):
    FAILS.append(msg)
    if len(FAILS) <= 20:
        print("FAIL:", msg)


XMODES = {"xmin": 0, "xmid": 1, "xmax": 2}
YMODES = {"ymin": 0, "ymid": 1, "ymax": 2}
CANON = {"xmin": "xMin", "xmid": "xMid", "xmax": "xMax",
         "ymin": "YMin", "ymid": "YMid", "ymax": "YMax"}
ALIGNS = [(x, y) for x in XMODES for y in YMODES]   # nine alignments


def close(actual, expected, scale):
    """ actual: float, expected: Fraction, scale: magnitude for tolerance """
    if isinstance(actual, float) and (math.isnan(actual) or math.isinf(actual)):
        return False
    return abs(F(actual) - expected) <= F(1, 10**9) * max(F(1), abs(scale))


def check_semantics(vb, doc, align, mos, result, label):
    """
    vb = (min_x, min_y, w, h) floats; doc = (W, H) floats;
    align: None -> 'none', else (xkey, ykey); mos: 'meet'/'slice'
    """
    COUNT[0] += 1
    min_x, min_y, w, h = [F(v) for v in vb]
    d_w, d_h = F(doc[0]), F(doc[1])
    try:
        s_x, s_y, o_x, o_y = result
    except (TypeError, ValueError):
        fail("%s: result not a 4-tuple: %r" % (label, result))
        return
    for val in (s_x, s_y, o_x, o_y):
        if isinstance(val, float) and (math.isnan(val) or math.isinf(val)):
            fail("%s: non-finite result %r" % (label, result))
            return
    rx, ry = d_w / w, d_h / h
    if align is None:
        exp_sx, exp_sy = rx, ry
    else:
        exp_sx = exp_sy = min(rx, ry) if mos == "meet" else max(rx, ry)
    if not close(s_x, exp_sx, exp_sx) or not close(s_y, exp_sy, exp_sy):
        fail("%s: scale %r,%r expected %s,%s" % (label, s_x, s_y, float(exp_sx), float(exp_sy)))
        return
    if align is not None and s_x != s_y:
        fail("%s: scale not uniform: %r vs %r" % (label, s_x, s_y))
    # Image of the viewBox rectangle under p -> (p + o) * s, using the exact
    # prescribed scale so that only the offsets are being judged here.
    left = (min_x + F(o_x)) * exp_sx
    right = (min_x + w + F(o_x)) * exp_sx
    top = (min_y + F(o_y)) * exp_sy
    bottom = (min_y + h + F(o_y)) * exp_sy
    mag_x = max(d_w, w * exp_sx, abs(min_x) * exp_sx)
    mag_y = max(d_h, h * exp_sy, abs(min_y) * exp_sy)
    if align is None:
        xmode = ymode = None
        ok = (close(0.0, left, mag_x) and abs(right - d_w) <= F(1, 10**9) * max(1, mag_x)
              and close(0.0, top, mag_y) and abs(bottom - d_h) <= F(1, 10**9) * max(1, mag_y))
        if not ok:
            fail("%s: none: rect maps to [%s,%s]x[%s,%s], page %sx%s" % (
                label, float(left), float(right), float(top), float(bottom), doc[0], doc[1]))
        return
    xmode, ymode = XMODES[align[0]], YMODES[align[1]]
    tol_x = F(1, 10**9) * max(1, mag_x)
    tol_y = F(1, 10**9) * max(1, mag_y)
    exp_x = [(left, F(0)), ((left + right) / 2, d_w / 2), (right, d_w)][xmode]
    exp_y = [(top, F(0)), ((top + bottom) / 2, d_h / 2), (bottom, d_h)][ymode]
    if abs(exp_x[0] - exp_x[1]) > tol_x:
        fail("%s: X alignment wrong: %s should be %s" % (label, float(exp_x[0]), float(exp_x[1])))
    if abs(exp_y[0] - exp_y[1]) > tol_y:
        fail("%s: Y alignment wrong: %s should be %s" % (label, float(exp_y[0]), float(exp_y[1])))
    # meet: rect inside page; slice: rect covers page
    if mos == "meet":
        if not (left >= -tol_x and right <= d_w + tol_x and top >= -tol_y and bottom <= d_h + tol_y):
            fail("%s: meet: viewBox image not inside page" % label)
    else:
        if not (left <= tol_x and right >= d_w - tol_x and top <= tol_y and bottom >= d_h - tol_y):
            fail("%s: slice: viewBox image does not cover page" % label)


def par_string(align, mos, defer, style, rng):
    """ Build a preserveAspectRatio string in one of several spellings """
    if align is None:
        a = "none"
    else:
        a = CANON[align[0]] + CANON[align[1]]
    words = []
    if defer:
        words.append("defer")
    words.append(a)
    if mos is not None:
        words.append(mos)
    if style == 0:
        return " ".join(words)
    if style == 1:
        return "  " + "   ".join(w.upper() for w in words) + " \t"
    if style == 2:
        return "\n".join(w.lower() for w in words)
    if style == 3:
        return ",".join(words)
    if style == 4:
        return " , ".join(w.swapcase() for w in words)
    return "\t" + " ".join("".join(rng.choice((c.lower(), c.upper())) for c in w) for w in words)


def vb_string(vb, style):
    parts = [repr(float(v)) for v in vb]
    if style == 0:
        return " ".join(parts)
    if style == 1:
        return ",".join(parts)
    if style == 2:
        return "  " + ", ".join(parts) + "  "
    if style == 3:
        return "\t".join(parts) + "\n"
    return " ".join(parts) + " 7 8"   # trailing extras are ignored


# ---------------------------------------------------------------- Part A
def part_a():
    rng = random.Random(1111)
    nice = [0.0, 1.0, 2.0, 3.0, 10.0, 100.0, 0.5, 0.25, 816.0, 1056.0, 11.0, 8.5,
            297.0, 210.0, 1e-3, 1e4, 7.0, 13.0]
    geoms = []
    # hand-picked: wide / tall / equal aspect, offsets of both signs and zero
    for vb in [(0, 0, 100, 100), (0, 0, 200, 100), (0, 0, 100, 200), (10, 20, 300, 150),
               (-10, -20, 150, 300), (-5.5, 7.25, 1, 1000), (3, -4, 1000, 1),
               (0, 0, 816, 1056), (100, 100, 0.125, 0.5)]:
        for doc in [(100, 100), (200, 100), (100, 200), (816, 1056), (1056, 816),
                    (11, 8.5), (0.5, 64), (300, 150), (1, 2)]:
            geoms.append((tuple(float(v) for v in vb), (float(doc[0]), float(doc[1]))))
    for _ in range(260):
        if rng.random() < 0.5:
            vb = (rng.choice(nice) * rng.choice((1, -1)), rng.choice(nice) * rng.choice((1, -1)),
                  rng.choice([n for n in nice if n > 0]), rng.choice([n for n in nice if n > 0]))
            doc = (rng.choice([n for n in nice if n > 0]), rng.choice([n for n in nice if n > 0]))
        else:
            vb = (rng.uniform(-500, 500), rng.uniform(-500, 500),
                  rng.uniform(0.01, 2000), rng.uniform(0.01, 2000))
            doc = (rng.uniform(0.01, 2000), rng.uniform(0.01, 2000))
        geoms.append((vb, doc))
    # exactly equal aspect ratios scaled by a factor (tie between the two cases)
    for k in (0.5, 1.0, 2.0, 3.0, 0.1):
        geoms.append(((1.0, 2.0, 30.0, 70.0), (30.0 * k, 70.0 * k)))

    for gi, (vb, doc) in enumerate(geoms):
        for align in [None] + ALIGNS:
            for mos in ("meet", "slice"):
                defer = bool((gi + len(mos)) % 2)
                style = rng.randrange(6)
                par = par_string(align, mos, defer, style, rng)
                vbs = vb_string(vb, rng.randrange(5))
                d_w = doc[0] if gi % 3 else repr(doc[0])   # numeric strings allowed
                d_h = doc[1] if gi % 5 else repr(doc[1])
                label = "A[%r | %r | %r x %r]" % (vbs, par, d_w, d_h)
                try:
                    res = vb_scale(vbs, par, d_w, d_h)
                except Exception as exc:  # pylint: disable=broad-except
                    fail("%s raised %r" % (label, exc))
                    continue
                check_semantics(vb, doc, align, mos, res, label)


# ---------------------------------------------------------------- Part B
def part_b():
    rng = random.Random(2222)
    vb = (12.0, -8.0, 400.0, 100.0)
    for doc in [(200.0, 200.0), (800.0, 100.0), (50.0, 400.0)]:
        vbs = vb_string(vb, 0)
        # absent attribute / empty / blank / lone defer  -> xMidYMid meet
        for par in (None, "", "   ", "\t\n", "defer", " DEFER ", "Defer,"):
            res = vb_scale(vbs, par, doc[0], doc[1])
            check_semantics(vb, doc, ("xmid", "ymid"), "meet", res, "B-default[%r %r]" % (par, doc))
        for align in [None] + ALIGNS:
            # meetOrSlice absent -> meet, with and without defer, every spelling
            for defer in (False, True):
                for style in range(6):
                    par = par_string(align, None, defer, style, rng)
                    res = vb_scale(vbs, par, doc[0], doc[1])
                    check_semantics(vb, doc, align, "meet", res, "B-nomos[%r %r]" % (par, doc))
                    for mos in ("meet", "slice"):
                        par = par_string(align, mos, defer, style, rng)
                        for vstyle in range(5):
                            res = vb_scale(vb_string(vb, vstyle), par, doc[0], doc[1])
                            check_semantics(vb, doc, align, mos, res,
                                            "B[%r %r v%d]" % (par, doc, vstyle))
            # 'none' ignores meetOrSlice entirely
            if align is None:
                r_meet = vb_scale(vbs, "none meet", doc[0], doc[1])
                r_slice = vb_scale(vbs, "defer none slice", doc[0], doc[1])
                if r_meet != r_slice:
                    fail("B: none differs between meet and slice: %r %r" % (r_meet, r_slice))
    # Documented concrete expectations (hand computed)
    expect = [
        (("0 0 100 100", None, 200, 100), (1.0, 1.0, 50.0, 0.0)),
        (("0 0 100 100", "xMinYMin meet", 200, 100), (1.0, 1.0, 0.0, 0.0)),
        (("0 0 100 100", "xMaxYMin", 200, 100), (1.0, 1.0, 100.0, 0.0)),
        (("0 0 100 100", "xMidYMid slice", 200, 100), (2.0, 2.0, 0.0, -25.0)),
        (("0 0 100 100", "xMidYMax slice", 200, 100), (2.0, 2.0, 0.0, -50.0)),
        (("0 0 100 100", "defer xMidYMin slice", 200, 100), (2.0, 2.0, 0.0, 0.0)),
        (("0 0 100 100", "none", 200, 100), (2.0, 1.0, 0.0, 0.0)),
        (("10,20,100,100", "NONE slice", "200", "50"), (2.0, 0.5, -10.0, -20.0)),
        (("10 20 100 100", "xminymax", 100, 300), (1.0, 1.0, -10.0, 180.0)),
        (("10 20 100 100", "xMaxYMid meet", 100, 300), (1.0, 1.0, -10.0, 80.0)),
        (("10 20 100 100", "xMaxYMid slice", 100, 300), (3.0, 3.0, -10.0 + (100.0 / 3.0 - 100.0), -20.0)),
    ]
    for args, exp in expect:
        COUNT[0] += 1
        res = vb_scale(*args)
        if len(res) != 4 or any(abs(a - b) > 1e-9 for a, b in zip(res, exp)):
            fail("B-concrete %r -> %r expected %r" % (args, res, exp))


# ---------------------------------------------------------------- Part C
def part_c():
    ident_cases = [
        (None, None, 100, 100), (None, "xMinYMin slice", 100, 100),
        ("", None, 100, 100), ("   ", "none", 100, 100),
        ("1", None, 100, 100), ("1 2", None, 100, 100), ("1 2 3", "none", 100, 100),
        ("1,2,3", "xMaxYMax slice", 100, 100), (",,,", None, 100, 100),
        ("0 0 0 100", None, 100, 100), ("0 0 100 0", None, 100, 100),
        ("0 0 -1 100", "none", 100, 100), ("0 0 100 -1", "xMinYMin", 100, 100),
        ("0 0 -0.0 100", None, 100, 100), ("0 0 0 0", None, 100, 100),
        ("0 0 100 100", None, 0, 100), ("0 0 100 100", None, 100, 0),
        ("0 0 100 100", "none", -1, 100), ("0 0 100 100", "xMaxYMax slice", 100, -5),
        ("0 0 100 100", None, "0", "100"), ("0 0 100 100", None, 0.0, 0.0),
        ("0 0 100 100", None, -0.0, 100), ("5 5 100 100", "defer none", 100, "-3"),
    ]
    for args in ident_cases:
        COUNT[0] += 1
        try:
            res = vb_scale(*args)
        except Exception as exc:  # pylint: disable=broad-except
            fail("C%r raised %r" % (args, exc))
            continue
        if not (isinstance(res, tuple) and res == (1, 1, 0, 0)):
            fail("C%r -> %r, expected identity" % (args, res))
        elif [type(v) for v in res] != [int] * 4:
            fail("C%r identity has unexpected element types %r" % (args, res))
    # Missing viewBox wins over everything else (sizes / p_a_r are not even looked at)
    COUNT[0] += 1
    if vb_scale(None, object(), "garbage", None) != (1, 1, 0, 0):
        fail("C: missing viewBox with junk other args is not identity")
    COUNT[0] += 1
    if vb_scale("1 2 3", object(), "garbage", None) != (1, 1, 0, 0):
        fail("C: short viewBox with junk other args is not identity")
    COUNT[0] += 1
    if vb_scale("0 0 0 1", object(), "garbage", None) != (1, 1, 0, 0):
        fail("C: zero-width viewBox with junk other args is not identity")
    COUNT[0] += 1
    if vb_scale("0 0 1 1", object(), "0", 1) != (1, 1, 0, 0):
        fail("C: zero doc width with junk p_a_r is not identity")


# ---------------------------------------------------------------- Part D
def golden(v_b, p_a_r, doc_width, doc_height):
    """ Float golden model: the documented computation, operation by operation """
    ident = (1, 1, 0, 0)
    if v_b is None:
        return ident
    toks = v_b.strip().replace(',', ' ').split()
    if len(toks) < 4:
        return ident
    min_x = float(toks[0])
    min_y = float(toks[1])
    width = float(toks[2])
    height = float(toks[3])
    if width <= 0 or height <= 0:
        return ident
    d_w = float(doc_width)
    d_h = float(doc_height)
    if d_w <= 0 or d_h <= 0:
        return ident
    ar_doc = d_h / d_w
    ar_vb = height / width
    align, mos = "xmidymid", "meet"
    if p_a_r is not None:
        words = p_a_r.strip().replace(',', ' ').lower().split()
        if len(words) > 0:
            if words[0] == "defer":
                if len(words) > 1:
                    align = words[1]
                    if len(words) > 2:
                        mos = words[2]
            else:
                align = words[0]
                if len(words) > 1:
                    mos = words[1]
    if align == "none":
        return d_w / width, d_h / height, -min_x, -min_y
    if (ar_doc >= ar_vb and mos == "meet") or (ar_doc < ar_vb and mos == "slice"):
        s = d_w / width
        excess = ar_doc * width - height
        if align in ("xminymin", "xmidymin", "xmaxymin"):
            o_y = -min_y
        elif align in ("xminymax", "xmidymax", "xmaxymax"):
            o_y = -min_y + excess
        else:
            o_y = -min_y + excess / 2
        return s, s, -min_x, o_y
    s = d_h / height
    excess = height / ar_doc - width
    if align in ("xminymin", "xminymid", "xminymax"):
        o_x = -min_x
    elif align in ("xmaxymin", "xmaxymid", "xmaxymax"):
        o_x = -min_x + excess
    else:
        o_x = -min_x + excess / 2
    return s, s, o_x, -min_y


def outcome(func, args):
    try:
        res = func(*args)
    except Exception as exc:  # pylint: disable=broad-except
        return ("EXC", type(exc).__name__)
    if isinstance(res, tuple):
        return ("OK", tuple((type(v).__name__, repr(v)) for v in res))
    return ("OK?", repr(res))


def part_d():
    rng = random.Random(4444)
    vbs = ["0 0 100 100", "0,0,200,100", " 0 0 100 200 ", "10 20 300 150", "-10 -20 150 300",
           "-0.0 -0.0 30 70", "0.0 0.0 30 70", "1e-300 -1e-300 1e-5 1e5", "5 5 1e308 1",
           "3.3 -7.7 0.1 0.3", "1 2 3 4 5 6", "1 2 3", "", "0 0 0 1", "0 0 1 -1",
           "a b c d", "1 2 x 4", "0 0 nan 5", "0 0 5 nan", "0 0 inf 5", "0 0 5 inf",
           "nan nan 5 5", "inf -inf 5 5", None, 17]
    docs = [(100, 100), (200, 100), (100, 200), (30, 70), (60.0, 140.0), (3.0, 7.0),
            ("816", "1056"), (0.1, 0.3), (1e-5, 1e5), (1e308, 1e-308), (0, 1), (1, -1),
            ("x", 1), (1, "y"), (None, 1), (float("nan"), 5), (5, float("inf")), (True, 2)]
    pars = [None, "", " ", "defer", "defer defer", "defer defer meet", "defer defer slice",
            "none", "None Slice", "defer none", "meet", "slice", "xMidYMid", "xmidymid slice",
            "xMinYMin bogus", "bogus", "bogus slice", "bogus meet", "xMin", "xMinYMi slice",
            "xminfoo", "fooymax slice", "YMinxMin", "xMinYMin meet extra", "defer xMaxYMax slice extra",
            "xMinYMin,slice", "slice xMinYMin", "meet meet", "xMaxYMax MEET", "xMaxYMax Sl1ce", 5]
    for x in ("xMin", "xMid", "xMax"):
        for y in ("YMin", "YMid", "YMax"):
            pars.extend([x + y, x + y + " meet", x + y + " slice", "defer " + x + y + " slice",
                         (x + y).upper() + "  SLICE", " " + (x + y).lower() + ",meet "])
    for v_b in vbs:
        for doc in docs:
            for par in pars:
                COUNT[0] += 1
                args = (v_b, par, doc[0], doc[1])
                got = outcome(vb_scale, args)
                exp = outcome(golden, args)
                if got != exp:
                    fail("D%r: got %r, golden %r" % (args, got, exp))
    # random numeric sweep, bit-for-bit
    par_pool = [p for p in pars if isinstance(p, str)] + [None]
    for _ in range(6000):
        mode = rng.randrange(4)
        if mode == 0:
            nums = [rng.uniform(-1000, 1000), rng.uniform(-1000, 1000),
                    rng.uniform(1e-3, 3000), rng.uniform(1e-3, 3000)]
            doc = (rng.uniform(1e-3, 3000), rng.uniform(1e-3, 3000))
        elif mode == 1:   # equal aspect ratios (ties)
            w, h, k = rng.randint(1, 50), rng.randint(1, 50), rng.choice((0.1, 0.3, 1, 2, 3, 7, 1 / 3.0))
            nums = [rng.randint(-9, 9), rng.randint(-9, 9), w, h]
            doc = (w * k, h * k)
        elif mode == 2:   # extreme magnitudes
            nums = [rng.choice((0.0, -0.0, 1e-320, -1e300, 1e300)), rng.choice((0.0, -0.0, 5e-324, 1e300)),
                    10.0 ** rng.randint(-300, 300), 10.0 ** rng.randint(-300, 300)]
            doc = (10.0 ** rng.randint(-300, 300), 10.0 ** rng.randint(-300, 300))
        else:             # small integers incl. non-positive
            nums = [rng.randint(-3, 3), rng.randint(-3, 3), rng.randint(-1, 4), rng.randint(-1, 4)]
            doc = (rng.randint(-1, 4), rng.randint(-1, 4))
        sep = rng.choice((" ", ",", ", ", "  "))
        args = (sep.join(repr(n) for n in nums), rng.choice(par_pool), doc[0], doc[1])
        COUNT[0] += 1
        got = outcome(vb_scale, args)
        exp = outcome(golden, args)
        if got != exp:
            fail("D-rand%r: got %r, golden %r" % (args, got, exp))


def main():
    part_a()
    part_b()
    part_c()
    part_d()
    if FAILS:
        print("C11 demo: %d FAILURES out of %d checks" % (len(FAILS), COUNT[0]))
        return 1
    print("C11 demo: all %d checks passed" % COUNT[0])
    return 0


if __name__ == "__main__":
    sys.exit(main())
