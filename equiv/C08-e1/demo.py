import os, sys; sys.path.insert(0, os.environ.get('PLOTINK_ROOT', '/tmp/wte_C08'))
"""
Check of property C08 (segment clipping) for plotink.plot_utils.

Three layers of evidence, all deterministic:

 A. PROPERTY CHECK against an exact-rational oracle (Liang-Barsky carried out
    in fractions.Fraction): accept/reject decision, returned segment on the
    input segment, inside the rectangle, same orientation, covering the whole
    inside part -- all within tol = 1e-9 * (largest |coordinate|).
 B. DOCUMENTED EXPECTATION: an independently written textbook Cohen-Sutherland
    (same boundary order LEFT, RIGHT, TOP(y_min), BOTTOM(y_max), first endpoint
    clipped first, at most four clipping passes) must agree bit-for-bit.
 C. Region codes, point_in_bounds tolerance semantics, termination (bounded
    number of region-code evaluations), no ZeroDivisionError.

Variant 1: emphasis on region codes and on every (code_1, code_2) pair.
"""
import itertools
import math
import random
from fractions import Fraction as Fr

from plotink import plot_utils

VARIANT = 1
REL_TOL = 1e-9
FAILURES = []
COUNTS = {}


def fail(msg):
    FAILURES.append(msg)
    if len(FAILURES) <= 20:
        print("FAIL:", msg)


def count(key):
    COUNTS[key] = COUNTS.get(key, 0) + 1


# ----------------------------------------------------------------- oracle ---

def exact_clip(segment, bounds, grow=0):
    """
    Exact parametric clip. Returns None when no point of the segment lies in
    the rectangle grown by `grow` on every side (negative: shrunk), otherwise
    (t0, t1) with 0 <= t0 <= t1 <= 1, the parameter range that is inside.
    """
    (x_1, y_1), (x_2, y_2) = [[Fr(v) for v in pt] for pt in segment]
    (x_lo, y_lo), (x_hi, y_hi) = [[Fr(v) for v in pt] for pt in bounds]
    grow = Fr(grow)
    x_lo -= grow
    y_lo -= grow
    x_hi += grow
    y_hi += grow
    if x_lo > x_hi or y_lo > y_hi:
        return None
    t_0, t_1 = Fr(0), Fr(1)
    d_x, d_y = x_2 - x_1, y_2 - y_1
    for p, q in ((-d_x, x_1 - x_lo), (d_x, x_hi - x_1),
                 (-d_y, y_1 - y_lo), (d_y, y_hi - y_1)):
        if p == 0:
            if q < 0:
                return None
        else:
            t = q / p
            if p < 0:
                t_0 = max(t_0, t)
            else:
                t_1 = min(t_1, t)
    if t_0 > t_1:
        return None
    return t_0, t_1


def point_at(segment, t):
    (x_1, y_1), (x_2, y_2) = [[Fr(v) for v in pt] for pt in segment]
    return x_1 + t * (x_2 - x_1), y_1 + t * (y_2 - y_1)


def param_and_dist2(segment, point):
    """Parameter of the closest point of the segment, and squared distance."""
    (x_1, y_1), (x_2, y_2) = [[Fr(v) for v in pt] for pt in segment]
    p_x, p_y = Fr(point[0]), Fr(point[1])
    d_x, d_y = x_2 - x_1, y_2 - y_1
    len2 = d_x * d_x + d_y * d_y
    if len2 == 0:
        t = Fr(0)
    else:
        t = ((p_x - x_1) * d_x + (p_y - y_1) * d_y) / len2
        t = max(Fr(0), min(Fr(1), t))
    c_x, c_y = x_1 + t * d_x, y_1 + t * d_y
    return t, (p_x - c_x) ** 2 + (p_y - c_y) ** 2


def scale_of(segment, bounds):
    return max(abs(v) for pt in list(segment) + list(bounds) for v in pt)


# -------------------------------------------- documented expectation (B) ---

LEFT, RIGHT, TOP, BOTTOM = 1, 2, 4, 8


def ref_code(x, y, bounds):
    (x_lo, y_lo), (x_hi, y_hi) = bounds
    return ((LEFT if x < x_lo else 0) + (RIGHT if x > x_hi else 0)
            + (TOP if y < y_lo else 0) + (BOTTOM if y > y_hi else 0))


def ref_clip(segment, bounds):
    """Textbook Cohen-Sutherland as documented; returns (accept, seg, clipped)"""
    (x_lo, y_lo), (x_hi, y_hi) = bounds
    pts = [[segment[0][0], segment[0][1]], [segment[1][0], segment[1][1]]]
    passes = 0
    while True:
        codes = [ref_code(p[0], p[1], bounds) for p in pts]
        if codes == [0, 0]:
            return True, pts, passes
        if codes[0] & codes[1]:
            return False, pts, passes
        if passes == 4:
            return True, pts, passes
        which = 0 if codes[0] else 1
        out = codes[which]
        (a_x, a_y), (b_x, b_y) = pts
        if out & LEFT:
            new = [x_lo, (b_y - a_y) / (b_x - a_x) * (x_lo - a_x) + a_y]
        elif out & RIGHT:
            new = [x_hi, (b_y - a_y) / (b_x - a_x) * (x_hi - a_x) + a_y]
        elif out & TOP:
            new = [(b_x - a_x) / (b_y - a_y) * (y_lo - a_y) + a_x, y_lo]
        else:
            new = [(b_x - a_x) / (b_y - a_y) * (y_hi - a_y) + a_x, y_hi]
        pts[which] = new
        passes += 1


# ---------------------------------------------------------------- checks ---

def same_number(a, b):
    return type(a) is type(b) and (a == b) and \
        (not isinstance(a, float) or math.copysign(1, a) == math.copysign(1, b))


def check_case(segment, bounds):
    label = "seg=%r bounds=%r" % (segment, bounds)
    calls = []
    real_code = plot_utils.clip_code

    def counting_code(*args):
        calls.append(args)
        return real_code(*args)

    plot_utils.clip_code = counting_code
    try:
        try:
            result = plot_utils.clip_segment(segment, bounds)
        except ZeroDivisionError:
            fail("ZeroDivisionError: " + label)
            return
    finally:
        plot_utils.clip_code = real_code

    # termination: at most 5 evaluations of both endpoint codes
    if len(calls) > 10 or len(calls) % 2:
        fail("%d region-code evaluations: %s" % (len(calls), label))

    if not (isinstance(result, tuple) and len(result) == 2):
        fail("result shape %r: %s" % (result, label))
        return
    accept, out = result
    if accept is not True and accept is not False:
        fail("accept not a bool (%r): %s" % (accept, label))
        return
    count("accept" if accept else "reject")

    # ---- (B) bit-for-bit agreement with the documented algorithm
    r_accept, r_out, r_passes = ref_clip(segment, bounds)
    count("passes_%d" % r_passes)
    if accept != r_accept:
        fail("accept %r, documented algorithm %r: %s" % (accept, r_accept, label))
    try:
        flat = [out[0][0], out[0][1], out[1][0], out[1][1]]
        assert len(out) == 2 and len(out[0]) == 2 and len(out[1]) == 2
    except Exception:  # pylint: disable=broad-except
        fail("returned segment malformed %r: %s" % (out, label))
        return
    r_flat = [r_out[0][0], r_out[0][1], r_out[1][0], r_out[1][1]]
    if not all(same_number(a, b) for a, b in zip(flat, r_flat)):
        fail("returned %r, documented algorithm %r: %s" % (out, r_out, label))
    if r_passes == 0:
        if out is not segment:
            fail("unclipped segment not returned as-is: " + label)
    else:
        if not (isinstance(out, list) and isinstance(out[0], list)
                and isinstance(out[1], list)):
            fail("clipped segment is not a list of lists: " + label)
        if out is segment:
            fail("input segment object returned although clipped: " + label)

    # ---- (A) the property, against the exact oracle
    if not all(isinstance(v, (int, float)) and math.isfinite(v) for v in flat):
        fail("non-finite output %r: %s" % (out, label))
        return
    tol = REL_TOL * scale_of(segment, bounds)
    inside = exact_clip(segment, bounds)
    if not accept:
        if exact_clip(segment, bounds, -tol) is not None:
            fail("rejected although a part is inside by more than tol: " + label)
        return
    # accepted
    near = inside if inside is not None else exact_clip(segment, bounds, tol)
    if near is None:
        fail("accepted although nothing is within tol of the rectangle: " + label)
        return
    (lo_x, lo_y), (hi_x, hi_y) = bounds
    params = []
    for idx, point in enumerate(out):
        if not (lo_x - tol <= point[0] <= hi_x + tol
                and lo_y - tol <= point[1] <= hi_y + tol):
            fail("output point %d %r outside rectangle: %s" % (idx, point, label))
        if not plot_utils.point_in_bounds(point, bounds, tol if tol > 0 else 0):
            fail("output point %d not point_in_bounds: %s" % (idx, label))
        t_par, dist2 = param_and_dist2(segment, point)
        params.append(t_par)
        if dist2 > Fr(tol) ** 2:
            fail("output point %d %r off the input segment: %s" % (idx, point, label))
    # orientation: first stays first (compare along the segment, with slack)
    d_x = Fr(segment[1][0]) - Fr(segment[0][0])
    d_y = Fr(segment[1][1]) - Fr(segment[0][1])
    length_bound = abs(d_x) + abs(d_y)
    if (params[0] - params[1]) * length_bound > 2 * Fr(tol):
        fail("orientation reversed: " + label)
    # coverage.  Where the cut is well conditioned (growing the rectangle by
    # tol moves the end of the inside part by no more than a few tol) the
    # returned endpoint must coincide with the exact end of the inside part.
    # Where it is not (segment within rounding of parallel to the cutting edge)
    # the returned segment must still cover everything inside by more than tol.
    if inside is None:
        count("graze_accept")
        return
    wide = exact_clip(segment, bounds, tol)
    narrow = None
    for idx, t_end in enumerate(inside):
        e_x, e_y = point_at(segment, t_end)
        if abs(wide[idx] - t_end) * length_bound <= 4 * Fr(tol):
            count("tight_end")
            if abs(Fr(out[idx][0]) - e_x) > 6 * Fr(tol) or abs(Fr(out[idx][1]) - e_y) > 6 * Fr(tol):
                fail("output point %d %r is not the end %r of the inside part: %s"
                     % (idx, out[idx], (float(e_x), float(e_y)), label))
            continue
        count("loose_end")
        if narrow is None:
            narrow = exact_clip(segment, bounds, -tol) or ()
        if narrow:
            n_x, n_y = point_at(segment, narrow[idx])
            _, dist2 = param_and_dist2(out, (n_x, n_y))
            if dist2 > (2 * Fr(tol)) ** 2:
                fail("part inside by more than tol, ending at %r, not covered by %r: %s"
                     % ((float(n_x), float(n_y)), out, label))


# ------------------------------------------------------------- generators ---

def grid_cases():
    values = [-1.5, 0.0, 0.75, 1.0, 2.5, 4.0, 5.25]
    rects = [[[0.0, 1.0], [4.0, 2.5]],       # ordinary
             [[0.75, 0.0], [0.75, 4.0]],     # zero width
             [[0.0, 1.0], [4.0, 1.0]],       # zero height
             [[1.0, 1.0], [1.0, 1.0]],       # a single point
             [[-1.5, -1.5], [5.25, 5.25]]]   # contains every grid point
    for rect in rects:
        for x_1, y_1, x_2, y_2 in itertools.product(values, repeat=4):
            yield [[x_1, y_1], [x_2, y_2]], rect


def region_pair_cases():
    """One segment for every ordered pair of the 9 regions, several offsets."""
    rect = [[-3.0, 2.0], [7.0, 11.0]]
    x_s = {LEFT: [-3.0000000001, -9.5], 0: [-3.0, 1.25, 7.0], RIGHT: [7.000001, 40.0]}
    y_s = {TOP: [1.9999999, -6.0], 0: [2.0, 5.5, 11.0], BOTTOM: [11.0000001, 123.0]}
    pts = [(x, y) for xs in x_s.values() for x in xs for ys in y_s.values() for y in ys]
    for (x_1, y_1), (x_2, y_2) in itertools.product(pts, repeat=2):
        yield [[x_1, y_1], [x_2, y_2]], rect


def integer_cases():
    values = [-2, 0, 1, 3, 5]
    rect = [[0, 0], [3, 3]]
    for x_1, y_1, x_2, y_2 in itertools.product(values, repeat=4):
        yield [[x_1, y_1], [x_2, y_2]], rect
    # tuples instead of lists, mixed int/float
    yield ((-1, 1.5), (5, 1.5)), ((0, 0), (3, 3))
    yield ((1, -4), (1, 9)), ((0, 0), (3, 3))
    yield ((1, 1), (2, 2)), ((0, 0), (3, 3))


def random_cases(seed, number):
    rng = random.Random(seed)
    for idx in range(number):
        scale = 10.0 ** rng.choice([-6, -3, 0, 0, 2, 6, 9])
        off_x = rng.choice([0.0, 0.0, rng.uniform(-5, 5) * scale])
        off_y = rng.choice([0.0, 0.0, rng.uniform(-5, 5) * scale])
        xs = sorted(off_x + rng.uniform(-1, 1) * scale for _ in range(2))
        ys = sorted(off_y + rng.uniform(-1, 1) * scale for _ in range(2))
        mode = idx % 6
        if mode == 0:
            xs[1] = xs[0]
        elif mode == 1:
            ys[1] = ys[0]
        rect = [[xs[0], ys[0]], [xs[1], ys[1]]]

        def coord(lo, hi, off):
            pick = rng.random()
            if pick < 0.15:
                return lo
            if pick < 0.30:
                return hi
            if pick < 0.40:
                return math.nextafter(rng.choice([lo, hi]), rng.choice([-math.inf, math.inf]))
            return off + rng.uniform(-2.5, 2.5) * scale
        seg = [[coord(xs[0], xs[1], off_x), coord(ys[0], ys[1], off_y)],
               [coord(xs[0], xs[1], off_x), coord(ys[0], ys[1], off_y)]]
        if mode == 2:
            seg[1][0] = seg[0][0]                      # vertical
        elif mode == 3:
            seg[1][1] = seg[0][1]                      # horizontal
        elif mode == 4 and idx % 12 == 4:
            seg[1] = list(seg[0])                      # zero length
        yield seg, rect


def corner_cases():
    """Segments passing through / just beside the corners, and along edges."""
    rect = [[1.0, 2.0], [4.0, 6.0]]
    corners = [(1.0, 2.0), (4.0, 2.0), (1.0, 6.0), (4.0, 6.0)]
    dirs = [(1.0, 1.0), (1.0, -1.0), (3.0, 1.0), (1.0, 3.0), (-2.0, 5.0), (0.3, 0.7)]
    nudges = [0.0, 1e-15, -1e-15, 1e-12, -1e-12, 1e-7, -1e-7]
    for (c_x, c_y), (d_x, d_y), nudge in itertools.product(corners, dirs, nudges):
        for far in (0.9, 7.0):
            a = [c_x - far * d_x + nudge, c_y - far * d_y]
            b = [c_x + far * d_x + nudge, c_y + far * d_y]
            yield [a, b], rect
            yield [b, a], rect
    for nudge in nudges:
        yield [[-3.0, 2.0 + nudge], [9.0, 2.0 + nudge]], rect   # along y_min edge
        yield [[9.0, 6.0 + nudge], [-3.0, 6.0 + nudge]], rect   # along y_max edge
        yield [[1.0 + nudge, -3.0], [1.0 + nudge, 9.0]], rect   # along x_min edge
        yield [[4.0 + nudge, 9.0], [4.0 + nudge, -3.0]], rect   # along x_max edge


# ----------------------------------------------- region codes / tolerance ---

def check_region_codes():
    lo_x, hi_x, lo_y, hi_y = -3.0, 7.0, 2.0, 11.0
    xs = [-1e9, -3.0000001, math.nextafter(-3.0, -math.inf), -3.0, 0, 1.5, 7.0,
          math.nextafter(7.0, math.inf), 7.5, 1e9]
    ys = [-1e9, 1.5, math.nextafter(2.0, -math.inf), 2.0, 2, 6.5, 11, 11.0,
          math.nextafter(11.0, math.inf), 12, 1e9]
    seen = set()
    for x, y in itertools.product(xs, ys):
        got = plot_utils.clip_code(x, y, lo_x, hi_x, lo_y, hi_y)
        want = ref_code(x, y, [[lo_x, lo_y], [hi_x, hi_y]])
        seen.add(want)
        if type(got) is not int or got != want:
            fail("clip_code(%r, %r) = %r, expected %r" % (x, y, got, want))
    if seen != {0, 1, 2, 4, 8, 5, 6, 9, 10}:
        fail("region-code test did not visit the nine regions: %r" % sorted(seen))
    # zero-area rectangle: only the point itself has code 0
    for x, y in itertools.product([0.5, 1.0, 1.5], repeat=2):
        got = plot_utils.clip_code(x, y, 1.0, 1.0, 1.0, 1.0)
        if got != ref_code(x, y, [[1.0, 1.0], [1.0, 1.0]]):
            fail("clip_code on point rectangle (%r, %r) = %r" % (x, y, got))
    # the four single-bit values are distinct bits
    left = plot_utils.clip_code(-9, 5, lo_x, hi_x, lo_y, hi_y)
    right = plot_utils.clip_code(9, 5, lo_x, hi_x, lo_y, hi_y)
    top = plot_utils.clip_code(0, 0, lo_x, hi_x, lo_y, hi_y)
    bottom = plot_utils.clip_code(0, 20, lo_x, hi_x, lo_y, hi_y)
    if (left, right, top, bottom) != (1, 2, 4, 8):
        fail("single-side codes %r" % ((left, right, top, bottom),))


def check_point_in_bounds():
    bounds = [[-3.0, 2.0], [7.0, 11.0]]
    rng = random.Random(8080 + VARIANT)
    offsets = [0.0, 1e-13, 1e-10, 0.9e-9, 1e-9, 1.1e-9, 1e-6, 0.5]
    for tol in (None, 0, 1e-12, 1e-9, 1e-3):
        eff = 1e-9 if tol is None else tol
        for _ in range(300):
            base_x = rng.choice([-3.0, 7.0, rng.uniform(-3, 7)])
            base_y = rng.choice([2.0, 11.0, rng.uniform(2, 11)])
            x = base_x + rng.choice([-1, 1]) * rng.choice(offsets)
            y = base_y + rng.choice([-1, 1]) * rng.choice(offsets)
            if tol is None:
                got = plot_utils.point_in_bounds([x, y], bounds)
            else:
                got = plot_utils.point_in_bounds([x, y], bounds, tol)
            want = not (x < -3.0 - eff or x > 7.0 + eff or y < 2.0 - eff or y > 11.0 + eff)
            if got is not want:
                fail("point_in_bounds(%r, tol=%r) = %r, expected %r" % ([x, y], tol, got, want))
    for point, tol, want in (((0, 5), 0, True), ((-3, 2), 0, True), ((7, 11), 0, True),
                             ((7.0000001, 5), 0, False), ((7.0000001, 5), 1e-3, True),
                             ((0, 1.99), 1e-3, False), ((0, 11.01), 1e-3, False),
                             ((-3.01, 5), 1e-3, False)):
        if plot_utils.point_in_bounds(point, bounds, tol) is not want:
            fail("point_in_bounds(%r, %r) is not %r" % (point, tol, want))


# ------------------------------------------------------------------- main ---

def documented_examples():
    """Hand-computed expectations (exact in binary floating point)."""
    rect = [[0.0, 0.0], [4.0, 2.0]]
    table = [
        ([[1.0, 1.0], [3.0, 0.5]], True, [[1.0, 1.0], [3.0, 0.5]]),     # both inside
        ([[-2.0, 1.0], [2.0, 1.0]], True, [[0.0, 1.0], [2.0, 1.0]]),    # one inside
        ([[2.0, 1.0], [-2.0, 1.0]], True, [[2.0, 1.0], [0.0, 1.0]]),    # orientation kept
        ([[-2.0, 1.0], [6.0, 1.0]], True, [[0.0, 1.0], [4.0, 1.0]]),    # through two edges
        ([[2.0, -2.0], [2.0, 6.0]], True, [[2.0, 0.0], [2.0, 2.0]]),    # vertical
        ([[-1.0, 1.0], [1.0, 3.0]], True, [[0.0, 2.0], [0.0, 2.0]]),    # touches a corner
        ([[-2.0, -1.0], [6.0, 3.0]], True, [[0.0, 0.0], [4.0, 2.0]]),   # the diagonal
        ([[-3.0, 1.0], [-1.0, 1.5]], False, None),                      # left of it
        ([[-1.0, 1.0], [1.0, 4.0]], False, None),                       # cuts off a corner outside
        ([[5.0, 5.0], [5.0, 5.0]], False, None),                        # zero length outside
        ([[4.0, 2.0], [4.0, 2.0]], True, [[4.0, 2.0], [4.0, 2.0]]),     # zero length on corner
    ]
    for seg, want_accept, want_seg in table:
        accept, out = plot_utils.clip_segment(seg, rect)
        if accept is not want_accept:
            fail("example %r: accept %r" % (seg, accept))
        elif want_accept and [list(out[0]), list(out[1])] != want_seg:
            fail("example %r: got %r, expected %r" % (seg, out, want_seg))


def main():
    documented_examples()
    check_region_codes()
    check_point_in_bounds()
    total = 0
    for gen in (grid_cases(), region_pair_cases(), integer_cases(), corner_cases(),
                random_cases(1000 + VARIANT, 4000)):
        for seg, rect in gen:
            check_case(seg, rect)
            total += 1
    print("cases:", total, " ".join("%s=%d" % kv for kv in sorted(COUNTS.items())))
    for key in ("accept", "reject", "passes_0", "passes_1", "passes_2", "passes_3", "passes_4"):
        if not COUNTS.get(key):
            fail("test set never exercised " + key)
    if FAILURES:
        print("%d FAILURES" % len(FAILURES))
        return 1
    print("C08 demo variant %d: OK" % VARIANT)
    return 0


if __name__ == "__main__":
    sys.exit(main())
