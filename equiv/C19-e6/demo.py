import os, sys; sys.path.insert(0, os.environ.get('PLOTINK_ROOT', '/tmp/wtf_C19'))
# Property C19 check: port discovery picks only EiBotBoards, in enumeration
# order, and finds boards by name.  Compares both serial layers (legacy
# ebb_serial and EBB3 ebb3_serial) against an independently written oracle on
# exhaustive short port lists plus seeded random longer lists, with fake
# serial-port objects.  No hardware, deterministic.
import itertools
import random
import re

from serial.tools.list_ports_common import ListPortInfo

from plotink import ebb_serial, ebb3_serial

PRODUCT = 'EiBotBoard'
VIDPID = 'USB VID:PID=04D8:FD92'

CHECKS = [0]


def check(cond, *info):
    CHECKS[0] += 1
    if not cond:
        print('FAIL:', *[repr(i) for i in info])
        sys.exit(1)


# ---------------------------------------------------------------- fake ports
class IndexOnlyPort:
    '''Supports only port[0..2] like old pyserial tuples; nothing else.'''
    def __init__(self, dev, desc, hwid):
        self._f = (dev, desc, hwid)

    def __getitem__(self, index):
        if index in (0, 1, 2):
            return self._f[index]
        raise IndexError(index)

    def __repr__(self):
        return 'IndexOnlyPort%r' % (self._f,)


def real_info(dev, desc, hwid):
    info = ListPortInfo(dev, skip_link_detection=True)
    info.description = desc
    info.hwid = hwid
    return info


def make_port(triple, flavour):
    if flavour == 0:
        return tuple(triple)
    if flavour == 1:
        return IndexOnlyPort(*triple)
    return real_info(*triple)


class Enumerator:
    '''Replacement for serial.tools.list_ports.comports in both modules.'''
    def __init__(self):
        self.ports = []
        self.mode = 'list'
        self.calls = 0

    def __call__(self, *args, **kwargs):
        self.calls += 1
        if self.mode == 'typeerror':
            raise TypeError('simulated enumeration failure')
        if self.mode == 'generator':
            return (p for p in self.ports)
        if self.mode == 'tuple':
            return tuple(self.ports)
        return list(self.ports)


ENUM = Enumerator()
ebb_serial.comports = ENUM
ebb3_serial.comports = ENUM


# -------------------------------------------------------------------- oracle
def is_by_name(p):
    return p[1][:len(PRODUCT)] == PRODUCT


def is_by_vidpid(p):
    return p[2][:len(VIDPID)] == VIDPID


def oracle_first(ports):
    named = [p[0] for p in ports if is_by_name(p)]
    if named:
        return named[0]
    usb = [p[0] for p in ports if is_by_vidpid(p)]
    return usb[0] if usb else None


def oracle_listing(ports):
    out = []
    for p in ports:
        if is_by_name(p) or is_by_vidpid(p):
            out.append(p)
    return out if len(out) > 0 else None


def oracle_label(p, legacy):
    dev, desc, hwid = p[0], p[1], p[2]
    if is_by_name(p) and len(desc) > 11:
        return desc[11:]
    if hwid.count('SER=') and hwid.count(' LOCAT'):
        begin = hwid.index('SER=') + 4
        end = hwid.find(' LOCAT', begin)
        if end < 0:             # documented quirk: ' LOCAT' only before SER=
            end = len(hwid) - 1
        tag = hwid[begin:end] if end > begin else ''
        if len(tag) >= 3:
            return tag
    if legacy and hwid.count('SNR='):
        tag = hwid.split('SNR=', 1)[1]
        if len(tag) >= 3:
            return tag
    return dev


def oracle_labels(ports, legacy):
    boards = oracle_listing(ports)
    if boards is None:
        return None
    return [oracle_label(p, legacy) for p in boards]


def oracle_port_matches(p, name, legacy):
    dev, desc, hwid = p[0].lower(), p[1].lower(), p[2].lower()
    wanted = name.lower()
    tags = ['ser=' + wanted]
    if legacy:
        tags.append('snr=' + wanted)
    for tag in tags:
        if hwid.find(tag) != -1:
            return True
    if desc.find('(' + wanted + ')') != -1:
        return True
    tail = desc[11:]
    if tail[:len(wanted)] == wanted:
        return True
    return dev[:len(wanted)] == wanted


def oracle_lookup(ports, name, legacy):
    if name is None:
        return None
    for p in ports:
        if oracle_port_matches(p, name, legacy):
            return p[0]
    return None


# ------------------------------------------------------------ library access
def call(func, *args, expect_calls=1, **kwargs):
    ENUM.calls = 0
    result = func(*args, **kwargs)
    check(ENUM.calls == expect_calls, 'enumeration count', func, args, ENUM.calls)
    return result


def ebb3_first():
    board = ebb3_serial.EBB3()
    board.port_name = 'SENTINEL'
    before = dict(vars(board))
    board.find_first()
    after = dict(vars(board))
    for key in before:
        if key != 'port_name':
            check(before[key] is after[key], 'find_first touched', key)
    check(set(before) == set(after), 'find_first attrs')
    return board.port_name


def lookup_names_for(ports, extra):
    names = [None, '', 'zz-no-such-board', '(', 'SER=', 'COM', '/dev/']
    for p in ports:
        dev, desc, hwid = p[0], p[1], p[2]
        names += [dev, dev.upper(), dev.lower(), dev.swapcase(), dev[:4], dev[1:]]
        names += [oracle_label(p, True), oracle_label(p, False)]
        names += [n.swapcase() for n in names[-2:]]
        for match in re.finditer(r'S(?:ER|NR)=(\S*)', hwid):
            names += [match.group(1), match.group(1).upper(), match.group(1)[:2]]
            names.append(match.group(1).replace('_', ' '))
        if len(desc) > 11:
            names += [desc[11:], desc[11:14].lower(), desc[10:], desc]
        inner = re.search(r'\((.*?)\)', desc)
        if inner:
            names += [inner.group(1), inner.group(1).lower()]
    names += extra
    seen, out = set(), []
    for n in names:
        if n not in seen:
            seen.add(n)
            out.append(n)
    return out


def is_ascii(ports):
    return all(all(ord(c) < 128 for c in p[i]) for p in ports for i in range(3))


def check_port_list(triples, flavours, mode, extra_names=()):
    ports = [make_port(t, f) for t, f in zip(triples, flavours)]
    ENUM.ports = ports
    ENUM.mode = mode
    devices = [t[0] for t in triples]
    ctx = (triples, mode)

    # --- first-board discovery
    want = oracle_first(triples)
    check(call(ebb_serial.findPort) == want, 'findPort', ctx, want)
    check(call(ebb3_first) == want, 'find_first', ctx, want)

    # --- listing of boards (exactly the matching ports, same objects, in order)
    want_idx = [i for i, t in enumerate(triples) if is_by_name(t) or is_by_vidpid(t)]
    for func in (ebb_serial.listEBBports, ebb3_serial.list_ebb_ports):
        got = call(func)
        if not want_idx:
            check(got is None, 'listing none', func, ctx, got)
        else:
            check(type(got) is list, 'listing type', func, ctx, got)
            check(len(got) == len(want_idx), 'listing len', func, ctx, got)
            for g, i in zip(got, want_idx):
                check(g is ports[i], 'listing identity', func, ctx, i)
    check((oracle_listing(triples) is None) == (not want_idx), 'oracle self-check')

    # --- names reported
    for func, legacy in ((ebb_serial.list_named_ebbs, True),
                         (ebb3_serial.list_named_ebbs, False)):
        got = call(func)
        want_names = oracle_labels(triples, legacy)
        check(got == want_names, 'list_named_ebbs', legacy, ctx, got, want_names)
        check(got is None or type(got) is list, 'names type', got)
        if got is not None:
            check(len(got) == len(want_idx), 'one name per board', ctx, got)

    # --- lookups
    any_snr = any('snr=' in t[2].lower() for t in triples)
    for name in lookup_names_for(triples, list(extra_names)):
        calls = 0 if name is None else 1
        got_legacy = call(ebb_serial.find_named_ebb, name, expect_calls=calls)
        got_ebb3 = call(ebb3_serial.find_named, name, expect_calls=calls)
        check(got_legacy == oracle_lookup(triples, name, True),
              'find_named_ebb', ctx, name, got_legacy)
        check(got_ebb3 == oracle_lookup(triples, name, False),
              'find_named', ctx, name, got_ebb3)
        check(got_legacy is None or got_legacy in devices, 'not in list', ctx, name)
        check(got_ebb3 is None or got_ebb3 in devices, 'not in list', ctx, name)
        if not any_snr:
            check(got_legacy == got_ebb3, 'layers disagree', ctx, name)
    # keyword form
    if devices:
        check(call(ebb_serial.find_named_ebb, port_name=devices[-1])
              == oracle_lookup(triples, devices[-1], True), 'kw legacy', ctx)
        check(call(ebb3_serial.find_named, port_name=devices[-1])
              == oracle_lookup(triples, devices[-1], False), 'kw ebb3', ctx)
    check(call(ebb3_serial.find_named, expect_calls=0) is None, 'find_named()')

    # --- property as stated: look-up by the library's own reported name, by
    #     SER tag and by port name finds that board unless an earlier one matches
    if is_ascii(triples) and want_idx:
        for layer, lister, finder, legacy in (
                ('legacy', ebb_serial.list_named_ebbs, ebb_serial.find_named_ebb, True),
                ('ebb3', ebb3_serial.list_named_ebbs, ebb3_serial.find_named, False)):
            reported = lister()
            for label, i in zip(reported, want_idx):
                keys = [label, label.upper(), label.lower(), devices[i], devices[i].upper()]
                tag = re.search(r'SER=(\S+) LOCAT', triples[i][2])
                if tag:
                    keys.append(tag.group(1))
                for key in keys:
                    earlier = [j for j in range(i)
                               if oracle_port_matches(triples[j], key, legacy)]
                    got = finder(key)
                    if earlier:
                        check(got == devices[earlier[0]], 'earlier', layer, ctx, key, got)
                    else:
                        check(got == devices[i], 'own name', layer, ctx, key, got)


def check_enumeration_failure(triples):
    ENUM.ports = [tuple(t) for t in triples]
    ENUM.mode = 'typeerror'
    check(call(ebb_serial.findPort) is None, 'findPort TypeError')
    check(call(ebb_serial.listEBBports) is None, 'listEBBports TypeError')
    check(call(ebb_serial.list_named_ebbs) is None, 'list_named_ebbs TypeError')
    check(call(ebb3_serial.list_ebb_ports) is None, 'list_ebb_ports TypeError')
    check(call(ebb3_serial.list_named_ebbs) is None, 'list_named_ebbs3 TypeError')
    check(call(ebb_serial.find_named_ebb, 'COM4') is None, 'find_named_ebb TypeError')
    check(call(ebb3_serial.find_named, 'COM4') is None, 'find_named TypeError')
    check(call(ebb_serial.find_named_ebb, None, expect_calls=0) is None, 'None name')
    check(call(ebb3_serial.find_named, None, expect_calls=0) is None, 'None name')
    # EBB3.find_first leaves port_name alone when enumeration fails
    check(call(ebb3_first) == 'SENTINEL', 'find_first TypeError keeps port_name')
    ENUM.mode = 'list'


# ---------------------------------------------------------------- port pool
POOL = [
    # Windows, pyserial 3
    ('COM4', 'USB Serial Device (COM4)', 'USB VID:PID=04D8:FD92 SER=AxiDraw_One LOCATION=1-2'),
    ('COM14', 'USB Serial Device (COM14)', 'USB VID:PID=04D8:FD92 SER=Lefty LOCATION=1-3.1'),
    ('COM7', 'USB Serial Device (COM7)', 'USB VID:PID=04D8:FD92 SER= LOCATION=1-4'),
    ('COM9', 'USB Serial Device (COM9)', 'USB VID:PID=04D8:FD92 SER=ab LOCATION=1-4'),
    ('COM10', 'USB Serial Device (COM10)', 'USB VID:PID=04D8:FD92 SER=My Bot LOCATION=1-5'),
    # Windows, pyserial 2.7
    ('COM5', 'USB Serial Device (COM5)', 'USB VID:PID=04D8:FD92 SNR=Bob'),
    ('COM6', 'USB Serial Device (COM6)', 'USB VID:PID=04D8:FD92 SNR=xy'),
    ('COM8', 'EiBotBoard (COM8)', 'USB VID:PID=04D8:FD92 SNR=Lefty'),
    # macOS
    ('/dev/cu.usbmodem1411', 'EiBotBoard,Lefty', 'USB VID:PID=04D8:FD92 SER=Lefty LOCATION=20-1'),
    ('/dev/cu.usbmodem1421', 'EiBotBoard', 'USB VID:PID=04D8:FD92 LOCATION=20-2'),
    ('/dev/cu.usbmodem1431', 'EiBotBoard,AxiDraw_One', 'USB VID:PID=04D8:FD92 SER=AxiDraw_One LOCATION=20-3'),
    ('/dev/cu.Bluetooth-Incoming-Port', 'n/a', 'n/a'),
    # Linux
    ('/dev/ttyACM0', 'EiBotBoard - Righty', 'USB VID:PID=04D8:FD92 SER=Righty LOCATION=1-1.2:1.0'),
    ('/dev/ttyACM1', 'EiBotBoard', 'USB VID:PID=04D8:FD92 LOCATION=1-1.3:1.0'),
    ('/dev/ttyACM2', 'EiBotBoard,', 'n/a'),
    ('/dev/ttyACM3', 'EiBotBoardX', 'USB VID:PID=04D8:FD92'),
    ('/dev/ttyUSB0', 'FT232R USB UART', 'USB VID:PID=0403:6001 SER=A9007Lefty LOCATION=1-1'),
    ('/dev/ttyS0', 'ttyS0', 'PNP0501'),
    # foreign devices / near misses
    ('COM1', 'Communications Port (COM1)', 'ACPI\\PNP0501\\1'),
    ('COM3', 'Arduino Uno (COM3)', 'USB VID:PID=2341:0043 SER=Lefty LOCATION=1-1'),
    ('COM11', 'My EiBotBoard clone', ' USB VID:PID=04D8:FD92 SER=Fake LOCATION=1'),
    ('COM12', 'eibotboard,lower', 'usb vid:pid=04d8:fd92 ser=lower locat'),
    ('COM13', 'EiBotBoar', 'USB VID:PID=04D8:FD9'),
    ('Lefty', 'Lefty thing (Lefty)', 'n/a'),
    # quirks: ' LOCAT' before 'SER=', repeated markers, empty strings
    ('COM20', 'USB Serial Device (COM20)', 'USB VID:PID=04D8:FD92 LOCATION=1-6 SER=Tail9'),
    ('COM21', 'USB Serial Device (COM21)', 'USB VID:PID=04D8:FD92 SER=One LOCATION=1 SER=Two LOCATION=2 SNR=Three'),
    ('COM22', 'USB Serial Device (COM22)', 'USB VID:PID=04D8:FD92 LOCATION=1-6 SER=abc SNR=Quirk'),
    ('COM23', 'USB Serial Device (COM23)', 'USB VID:PID=04D8:FD92 LOCATION=1-6 SER='),
    ('', '', ''),
    ('X', 'EiBotBoard', ''),
    ('', 'EiBotBoard,Blank', 'n/a'),
    ('COM40', 'USB Serial Device (Alias7)', 'USB VID:PID=04D8:FD92 (Other8)'),
    ('COM41', 'USB Serial Device (COM41)', 'USB VID:PID=04D8:FD92 SER=NoLoc'),
    ('COM43', 'EiBotBoard', 'SNR=Zero'),
    ('COM44', 'EiBotBoard', 'SER=Start LOCATION=0'),
    ('COM42', 'USB Serial Device (COM42)', 'USB VID:PID=04D8:FD92 SNR=Old LOCATION=1 SER=New'),
    # non-ASCII (str.lower() can change the length)
    ('COM30', 'İ234567890,abc', 'USB VID:PID=04D8:FD92 SER=İstanbul LOCATION=1-7'),
    ('COM31', 'EiBotBoard,İBot', 'n/a'),
    ('COM32', 'EiBotBoard,ΣΣ', 'USB VID:PID=04D8:FD92 SER=OΣ LOCATION=3'),
]

EXTRA_NAMES = ['Lefty', 'lefty', 'LEFTY', 'Lef', 'AxiDraw_One', 'AxiDraw One', 'axidraw_one',
               'COM4', 'com4', 'COM1', 'COM', 'Bob', 'bob', 'xy', 'ab', 'Righty', '- Righty',
               'My Bot', 'My_Bot', 'Three', 'Two', 'One', 'Tail', 'Tail9', 'abc', ',abc',
               'İbot', 'i̇bot', 'σσ', 'σς', 'oσ', 'oς',
               'lower', 'Fake', 'n/a', 'cu.usbmodem1411', '/dev/cu.usbmodem14', 'ttyACM0',
               'USB Serial Device', 'Serial Device', 'EiBotBoard', 'X', ')',
               'Alias7', 'alias7', 'Other8', '(Other8)', 'NoLoc', 'NoLo', 'Blank', 'New', 'Old', 'Zero', 'start']


def main():
    rng = random.Random(19)
    modes = ('list', 'generator', 'tuple')

    # empty list
    for mode in modes:
        check_port_list([], [], mode, EXTRA_NAMES)
    check_enumeration_failure([])
    check_enumeration_failure(POOL[:5])

    # every single-port list, every flavour of port object
    for triple in POOL:
        for flavour in (0, 1, 2):
            check_port_list([triple], [flavour], modes[flavour], EXTRA_NAMES)

    # every ordered pair
    for n, (a, b) in enumerate(itertools.product(POOL, repeat=2)):
        check_port_list([a, b], [n % 3, (n // 3) % 3], modes[n % 3])

    # seeded random longer lists (3..7 entries, duplicates allowed)
    for n in range(500):
        size = rng.randint(3, 7)
        triples = [rng.choice(POOL) for _ in range(size)]
        flavours = [rng.randrange(3) for _ in range(size)]
        extra = rng.sample(EXTRA_NAMES, 6)
        check_port_list(triples, flavours, modes[n % 3], extra)

    # the whole pool, forwards and backwards
    check_port_list(POOL, [i % 3 for i in range(len(POOL))], 'generator', EXTRA_NAMES)
    check_port_list(POOL[::-1], [i % 3 for i in range(len(POOL))], 'list', EXTRA_NAMES)

    # documented spot checks (not oracle based)
    ENUM.mode = 'list'
    ENUM.ports = [POOL[18], POOL[0], POOL[8], POOL[13]]
    check(ebb_serial.findPort() == '/dev/cu.usbmodem1411', 'name match beats earlier VID:PID match')
    check(ebb3_first() == '/dev/cu.usbmodem1411', 'name match beats earlier VID:PID match')
    check(ebb_serial.listEBBports() == ENUM.ports[1:], 'spot listing')
    check(ebb_serial.list_named_ebbs() == ['AxiDraw_One', 'Lefty', '/dev/ttyACM1'], 'spot names')
    check(ebb3_serial.list_named_ebbs() == ['AxiDraw_One', 'Lefty', '/dev/ttyACM1'], 'spot names')
    check(ebb_serial.find_named_ebb('axidraw_one') == 'COM4', 'spot lookup')
    check(ebb3_serial.find_named('LEFTY') == '/dev/cu.usbmodem1411', 'spot lookup')
    check(ebb3_serial.find_named('/DEV/TTYACM1') == '/dev/ttyACM1', 'spot lookup')
    check(ebb_serial.find_named_ebb('com1') == 'COM1', 'spot lookup by port')
    ENUM.ports = [POOL[5]]
    check(ebb_serial.find_named_ebb('bob') == 'COM5', 'legacy SNR')
    check(ebb3_serial.find_named('bob') is None, 'EBB3 has no SNR')
    check(ebb_serial.list_named_ebbs() == ['Bob'], 'legacy SNR name')
    check(ebb3_serial.list_named_ebbs() == ['COM5'], 'EBB3 SNR name')

    print('C19 demo OK: %d checks' % CHECKS[0])
    return 0


if __name__ == '__main__':
    sys.exit(main())
