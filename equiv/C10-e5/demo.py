import os, sys; sys.path.insert(0, os.environ.get('PLOTINK_ROOT', '/tmp/wtf_C10'))
"""
Demo / evidence for property C10 (Bezier subdivision refines the same curve until
every piece is flat).

Oracles used (all independent of plotink):
  * exact rational arithmetic (fractions.Fraction) blossoming: the control points of
    the restriction of a cubic to [a, b] are b(a,a,a), b(a,a,b), b(a,b,b), b(b,b,b);
  * an exact rational point-to-segment distance (clamped projection) as flatness oracle;
  * a straightforward reference subdivision (explicit stack, exact flatness oracle,
    split at t = 1/2 with the documented de Casteljau formula a + t*(b - a)) whose
    output must be reproduced bit for bit.
"""
import copy
import random
from fractions import Fraction as F

from plotink import plot_utils

CHECKS = 0


def ok(cond, msg):
    global CHECKS
    CHECKS += 1
    if not cond:
        print("FAIL:", msg)
        sys.exit(1)


# ----------------------------------------------------------------------------- exact oracle
def fr(p):
    return (F(p[0]), F(p[1]))


def lerp(a, b, t):
    return (a[0] + (b[0] - a[0]) * t, a[1] + (b[1] - a[1]) * t)


def blossom(c, t1, t2, t3):
    q0, q1, q2 = lerp(c[0], c[1], t1), lerp(c[1], c[2], t1), lerp(c[2], c[3], t1)
    r0, r1 = lerp(q0, q1, t2), lerp(q1, q2, t2)
    return lerp(r0, r1, t3)


def restrict(c, a, b):
    return (blossom(c, a, a, a), blossom(c, a, a, b), blossom(c, a, b, b), blossom(c, b, b, b))


def dist2_to_segment(p, s0, s1):
    """exact squared distance from p to the closed segment s0-s1 (clamped projection)"""
    dx, dy = s1[0] - s0[0], s1[1] - s0[1]
    len2 = dx * dx + dy * dy
    if len2 == 0:
        t = F(0)
    else:
        t = ((p[0] - s0[0]) * dx + (p[1] - s0[1]) * dy) / len2
        t = max(F(0), min(F(1), t))
    cx, cy = s0[0] + t * dx, s0[1] + t * dy
    return (p[0] - cx) ** 2 + (p[1] - cy) ** 2


def exact_within(points, tol):
    """every interior vertex strictly closer than tol to the segment first-last"""
    pts = [fr(p) for p in points]
    tol2 = F(tol) * F(tol)
    return all(dist2_to_segment(p, pts[0], pts[-1]) < tol2 for p in pts[1:-1])


def exact_margin(points, tol):
    """smallest relative gap between a squared distance and tol^2 (decision robustness)"""
    pts = [fr(p) for p in points]
    tol2 = F(tol) * F(tol)
    return min(abs(dist2_to_segment(p, pts[0], pts[-1]) - tol2) / tol2 for p in pts[1:-1])


# ----------------------------------------------------------------------------- reference
def half(a, b):
    return (a[0] + 0.5 * (b[0] - a[0]), a[1] + 0.5 * (b[1] - a[1]))


def ref_split(c):
    m1, m2, m3 = half(c[0], c[1]), half(c[1], c[2]), half(c[2], c[3])
    m4, m5 = half(m1, m2), half(m2, m3)
    m = half(m4, m5)
    return (c[0], m1, m4, m), (m, m5, m3, c[3])


def ref_subdivide(nodes, flat):
    """reference result as list of nodes, each a list of three (x, y) tuples"""
    nodes = [[tuple(p) for p in n] for n in nodes]
    out = [list(nodes[0])]
    for k in range(1, len(nodes)):
        stack = [(nodes[k - 1][1], nodes[k - 1][2], nodes[k][0], nodes[k][1])]
        leaves = []
        while stack:
            c = stack.pop()
            if exact_within(c, flat):
                leaves.append(c)
            else:
                left, right = ref_split(c)
                stack.append(right)
                stack.append(left)
            ok(len(leaves) + len(stack) < 200000, "reference subdivision does not terminate")
        out[-1][2] = leaves[0][1]
        for a, b in zip(leaves, leaves[1:]):
            out.append([a[2], a[3], b[1]])
        out.append([leaves[-1][2], nodes[k][1], nodes[k][2]])
    return out


def norm(nodes):
    return [[tuple(p) for p in n] for n in nodes]


# ----------------------------------------------------------------------------- checker
def pieces_of(nodes):
    return [(nodes[j - 1][1], nodes[j - 1][2], nodes[j][0], nodes[j][1]) for j in range(1, len(nodes))]


def match(c, a, b, pieces, idx, eq, intervals, depth=0):
    """consume pieces[idx:] as the leaves, in order, of a dyadic subdivision of c on [a, b]"""
    ok(idx < len(pieces), "ran out of pieces: result does not cover the whole original piece")
    if eq(pieces[idx], restrict(c, a, b)):
        intervals.append((a, b))
        return idx + 1
    ok(depth < 64, "piece %d is not the original restricted to a dyadic interval" % idx)
    mid = (a + b) / 2
    idx = match(c, a, mid, pieces, idx, eq, intervals, depth + 1)
    return match(c, mid, b, pieces, idx, eq, intervals, depth + 1)


def check_case(name, nodes, flat, exact, start=None):
    original = copy.deepcopy(nodes)
    work = copy.deepcopy(nodes)
    identity = list(work)                       # the node objects themselves
    if start is None:
        ret = plot_utils.subdivideCubicPath(work, flat)
        first_piece = 1
    else:
        ret = plot_utils.subdivideCubicPath(work, flat, start)
        first_piece = start
    ok(ret is None, name + ": return value")
    ok(len(work) >= len(original), name + ": nodes vanished")

    # every original node survives, in order (same objects, same on-curve point)
    pos, j = [], 0
    for node in identity:
        while j < len(work) and work[j] is not node:
            j += 1
        ok(j < len(work), name + ": an original node did not survive in order")
        pos.append(j)
        j += 1
    ok(pos[0] == 0 and pos[-1] == len(work) - 1, name + ": end nodes moved")
    for k, p in enumerate(pos):
        ok(tuple(work[p][1]) == tuple(original[k][1]), name + ": on-curve point of node changed")
    ok(tuple(work[0][0]) == tuple(original[0][0]), name + ": outer handle of first node changed")
    ok(tuple(work[-1][2]) == tuple(original[-1][2]), name + ": outer handle of last node changed")
    for node in work:
        ok(isinstance(node, list) and len(node) == 3 and all(len(p) == 2 for p in node),
           name + ": malformed node")

    scale = 1 + max(abs(v) for n in original for p in n for v in p)
    eps = 0 if exact else F(scale) / 10 ** 9

    def eq(piece, restricted):
        return all(abs(F(pv) - rv) <= eps
                   for pp, rp in zip(piece, restricted) for pv, rv in zip(pp, rp))

    res_pieces = pieces_of(work)
    for k in range(1, len(original)):
        cubic = tuple(fr(p) for p in pieces_of(original)[k - 1])
        sub = res_pieces[pos[k - 1]:pos[k]]
        if k < first_piece:                      # pieces before the start index are untouched
            ok(len(sub) == 1 and norm([sub[0]]) == norm([pieces_of(original)[k - 1]]),
               name + ": piece before start index was modified")
            continue
        intervals = []
        used = match(cubic, F(0), F(1), sub, 0, eq, intervals)
        ok(used == len(sub), name + ": surplus pieces after covering [0,1]")
        ok(intervals[0][0] == 0 and intervals[-1][1] == 1, name + ": intervals do not span [0,1]")
        for (a0, b0), (a1, b1) in zip(intervals, intervals[1:]):
            ok(b0 == a1, name + ": parameter intervals not contiguous")
        for (a0, b0) in intervals:
            ok((b0 - a0).numerator == 1 and (b0 - a0).denominator & ((b0 - a0).denominator - 1) == 0
               and (a0 / (b0 - a0)).denominator == 1, name + ": interval is not dyadic")
        # every inserted node lies on the original curve at the dyadic parameter
        for off, (a0, b0) in enumerate(intervals[1:], start=1):
            node = work[pos[k - 1] + off]
            on_curve = blossom(cubic, a0, a0, a0)
            ok(all(abs(F(v) - w) <= eps for v, w in zip(node[1], on_curve)),
               name + ": inserted node is off the curve")
        # flatness post-condition (exact oracle, with a hair of slack for float rounding)
        for piece in sub:
            ok(exact_within(piece, F(flat) * (1 + F(1, 10 ** 9))), name + ": piece is not flat")
            ok(plot_utils.points_in_tolerance(piece, flat) is True, name + ": predicate says not flat")

    # bit-for-bit agreement with the reference subdivision
    if start is None or start == 1:
        ok(norm(work) == ref_subdivide(original, flat), name + ": differs from reference subdivision")
    return len(work)


# ----------------------------------------------------------------------------- corpora
def handmade():
    return {
        "single node": [[[0.0, 0.0], [1.0, 1.0], [2.0, 0.0]]],
        "straight line": [[[0, 0], [0, 0], [10, 0]], [[20, 0], [30, 0], [30, 0]]],
        "already flat": [[[0, 0], [0, 0], [8, 1]], [[24, -1], [32, 0], [32, 0]]],
        "arch": [[[0, 0], [0, 0], [0, 32]], [[32, 32], [32, 0], [32, 0]]],
        "loop": [[[0, 0], [0, 0], [64, 48]], [[-32, 48], [32, 0], [32, 0]]],
        "cusp": [[[0, 0], [0, 0], [32, 32]], [[0, 32], [32, 0], [32, 0]]],
        "closed (coincident endpoints)": [[[5, 5], [5, 5], [37, 5]], [[5, 37], [5, 5], [5, 5]]],
        "all points coincident": [[[3, 3], [3, 3], [3, 3]], [[3, 3], [3, 3], [3, 3]]],
        "handles beyond the ends": [[[0, 0], [0, 0], [-16, 0]], [[48, 0], [32, 0], [32, 0]]],
        "retrograde handles on a line": [[[0, 0], [0, 0], [32, 0]], [[0, 0], [32, 0], [32, 0]]],
        "three nodes, mixed": [[[-8, 0], [0, 0], [0, 16]], [[8, 24], [16, 24], [40, 24]],
                                 [[48, -24], [48, 0], [56, 8]]],
        "circle (4 nodes + closing)": [[[16, -9], [16, 0], [16, 9]], [[9, 16], [0, 16], [-9, 16]],
                                       [[-16, 9], [-16, 0], [-16, -9]], [[-9, -16], [0, -16], [9, -16]],
                                       [[16, -9], [16, 0], [16, 9]]],
        "lists and tuples mixed": [[(0, 0), (0, 0), (0, 16)], [(16, 16), (16, 0), (16, 0)]],
    }


def random_dyadic(rng, n_nodes):
    return [[[rng.randint(-64, 64), rng.randint(-64, 64)] for _ in range(3)] for _ in range(n_nodes)]


def random_float(rng, n_nodes):
    return [[[rng.uniform(-50, 50), rng.uniform(-50, 50)] for _ in range(3)] for _ in range(n_nodes)]


def main():
    rng = random.Random(5105)
    total_nodes = 0

    for name, nodes in handmade().items():
        for flat in (0.25, 0.5, 2.0, 1000.0):
            total_nodes += check_case("%s flat=%s" % (name, flat), nodes, flat, exact=True)

    # explicit start index (third positional argument): pieces before it stay untouched
    arch3 = handmade()["three nodes, mixed"]
    check_case("start=1", arch3, 0.5, exact=True, start=1)
    check_case("start=2", arch3, 0.5, exact=True, start=2)
    check_case("start=len", arch3, 0.5, exact=True, start=3)
    check_case("start>len", arch3, 0.5, exact=True, start=7)

    for case in range(40):
        nodes = random_dyadic(rng, rng.randint(1, 5))
        flat = rng.choice((0.25, 0.5, 1.0, 3.0, 8.0))
        total_nodes += check_case("dyadic #%d" % case, nodes, flat, exact=True)

    for case in range(40):
        nodes = random_float(rng, rng.randint(1, 5))
        flat = rng.choice((0.05, 0.1, 0.37, 1.0, 2.5, 10.0))
        total_nodes += check_case("float #%d" % case, nodes, flat, exact=False)

    # a long path: many nodes, some spans flat already, some needing several splits
    long_path = [[[8 * k - 4, (k % 3) * 8 - 2], [8 * k, (k % 3) * 8], [8 * k + 4, (k % 3) * 8 + (k % 2) * 12]]
                 for k in range(14)]
    for flat in (0.25, 1.0, 4.0):
        total_nodes += check_case("long path flat=%s" % flat, long_path, flat, exact=True)
    ok(len(long_path) == 14 and long_path[3] == [[20, -2], [24, 0], [28, 12]], "input corpus was mutated")

    # the predicate takes any indexable sequence of pairs: tuples, lists, lists of lists
    for maker in (tuple, list, lambda pts: [list(p) for p in pts], lambda pts: tuple(list(p) for p in pts)):
        pts = [(0.0, 0.0), (1.0, 0.75), (2.5, -0.5), (4.0, 0.25), (5.0, 0.0)]
        ok(plot_utils.points_in_tolerance(maker(pts), 0.8) is True, "sequence flavour, inside")
        ok(plot_utils.points_in_tolerance(maker(pts), 0.7) is False, "sequence flavour, outside")

    # a fine tolerance on a smooth curve produces many pieces and still terminates
    total_nodes += check_case("fine", [[[0, 0], [0, 0], [10.5, 40.25]], [[70.125, 41.0], [80, 0], [80, 0]]],
                              0.002, exact=False)

    # ------------------------------------------------------------------ the flatness predicate itself
    pit = plot_utils.points_in_tolerance
    # strict inequality at the boundary, in each of the three regions
    ok(pit([(0, 0), (1, 3), (2, 0)], 3) is False, "interior: distance == tolerance must fail")
    ok(pit([(0, 0), (1, 3), (2, 0)], 3.0000001) is True, "interior: just inside")
    ok(pit([(0, 0), (-3, 4), (2, 0)], 5) is False, "before start: distance == tolerance must fail")
    ok(pit([(0, 0), (-3, 4), (2, 0)], 5.0000001) is True, "before start: just inside")
    ok(pit([(0, 0), (5, 4), (2, 0)], 5) is False, "past end: distance == tolerance must fail")
    ok(pit([(0, 0), (5, 4), (2, 0)], 5.0000001) is True, "past end: just inside")
    ok(pit([(0, 0), (0, 0), (2, 0)], 1e-12) is True, "vertex on start point")
    ok(pit([(0, 0), (2, 0), (2, 0)], 1e-12) is True, "vertex on end point")
    ok(pit([(1, 1), (4, 5), (1, 1)], 5) is False, "zero-length chord: distance == tolerance")
    ok(pit([(1, 1), (4, 5), (1, 1)], 5.5) is True, "zero-length chord: inside")
    ok(pit([(1, 1), (1, 1), (1, 1), (1, 1)], 0.001) is True, "all coincident")
    ok(pit([(0, 0), (1, 0.5), (2, 9), (3, 0.5), (4, 0)], 1) is False, "one of several vertices is out")
    ok(pit([(0, 0), (1, 0.5), (2, 0.9), (3, 0.5), (4, 0)], 1) is True, "several vertices, all in")
    ok(pit([(0, 0), (1, 5), (2, 0.1), (9, 0)], 0.2) is False, "first vertex out, rest in")
    frozen = ((0.0, 0.0), (1.0, 2.0), (3.0, -1.0), (4.0, 0.0))
    probe = [list(p) for p in frozen]
    pit(probe, 0.5)
    ok(tuple(tuple(p) for p in probe) == frozen, "points_in_tolerance mutated its input")
    if __debug__:
        try:
            pit([(0, 0), (1, 1)], 1)
        except AssertionError:
            pass
        else:
            ok(False, "fewer than three points must trip the assertion")

    compared = 0
    for case in range(3000):
        count = rng.randint(3, 7)
        kind = case % 4
        if kind == 0:
            pts = [(rng.uniform(-10, 10), rng.uniform(-10, 10)) for _ in range(count)]
        elif kind == 1:
            pts = [(rng.randint(-6, 6), rng.randint(-6, 6)) for _ in range(count)]
        elif kind == 2:                             # nearly collinear
            pts = [(float(x), rng.uniform(-0.3, 0.3)) for x in sorted(rng.sample(range(-20, 20), count))]
            rng.shuffle(pts)
        else:                                       # coincident chord ends
            pts = [(rng.randint(-4, 4), rng.randint(-4, 4)) for _ in range(count - 1)]
            pts.append(pts[0])
        tol = rng.choice((0.1, 0.25, 0.5, 1.0, 2.0, 3.0, 5.0, 7.5, 12.0))
        margin = exact_margin(pts, tol)
        if margin < F(1, 10 ** 9) and not (margin == 0 and tol != 0.1):
            continue                                # float rounding could legitimately decide either way
        compared += 1
        ok(pit(pts, tol) is exact_within(pts, tol), "predicate disagrees with exact oracle on %r tol=%r" % (pts, tol))
    ok(compared > 2500, "too few predicate comparisons")

    print("C10 demo OK: %d checks, %d result nodes, %d predicate comparisons" % (CHECKS, total_nodes, compared))


if __name__ == "__main__":
    main()
