import os, sys; sys.path.insert(0, os.environ.get('PLOTINK_ROOT', '/tmp/wte_C04'))
"""
Demo / check for property C04:
  "EBB3 connection object latches its first error and then transmits nothing."

No hardware: a scripted fake serial port with fault injection is used.

Parts
  A. exact behaviour of command / query / query_statusbyte on a healthy object is
     compared with an independent reference model written here (bytes written,
     number of port operations, return value, recorded message), for a grid of
     commands x reply scripts x fault kinds x fault positions;
  B. for every way of getting into the error state (and for every not-connected
     state) every request method writes nothing, performs no port operation,
     returns its failure value, and leaves the message untouched;
  C. long pseudo-random call sequences with faults: once an error is recorded
     nothing more is written and the message never changes; while not connected
     nothing is written; connect()/disconnect() remain possible;
  D. connect() handshake faults (bad reply, USB exception, old / missing firmware)
     latch as well; a connected object runs its expected handshake.
"""
import random
import serial
from plotink import ebb3_serial, ebb3_motion

CHECKS = 0


def check(cond, *info):
    global CHECKS
    CHECKS += 1
    if not cond:
        print("CHECK FAILED:", *[repr(i) for i in info])
        raise SystemExit(1)


# --------------------------------------------------------------------------
# Fake port
# --------------------------------------------------------------------------
class FakePort:
    """ replies: list of bytes returned by successive readline() calls (b'' when
        exhausted = timeout). faults: {operation index: exception instance}; the
        operation counter counts every write()/readline() call on this port. """

    def __init__(self, replies=(), faults=None):
        self.replies = list(replies)
        self.faults = dict(faults or {})
        self.ops = 0            # write + readline calls attempted
        self.writes = []        # payloads successfully written
        self.write_attempts = 0
        self.reads = 0
        self.closed = 0
        self.resets = 0

    def _maybe_fault(self):
        idx = self.ops
        self.ops += 1
        if idx in self.faults:
            raise self.faults[idx]

    def write(self, data):
        self.write_attempts += 1
        self._maybe_fault()
        check(isinstance(data, bytes), "write of non-bytes", data)
        self.writes.append(data)
        return len(data)

    def readline(self):
        self.reads += 1
        self._maybe_fault()
        if self.replies:
            return self.replies.pop(0)
        return b''

    def reset_input_buffer(self):
        self.resets += 1

    def close(self):
        self.closed += 1

    def snapshot(self):
        return (self.ops, tuple(self.writes), self.write_attempts, self.reads,
                self.closed, self.resets, len(self.replies))


CAUGHT = [serial.SerialException("boom"), serial.SerialTimeoutException("wt"),
          serial.serialutil.PortNotOpenError(), OSError(5, "io"), IOError("ioe"),
          RuntimeError("rt"), BrokenPipeError("pipe")]
UNCAUGHT = [ValueError("val"), KeyError("k")]


def new_obj(replies=(), faults=None):
    obj = ebb3_motion.EBBMotionWrap()
    obj.port = FakePort(replies, faults)
    obj.port_name = "/dev/fake"
    return obj


# --------------------------------------------------------------------------
# Independent reference model
# --------------------------------------------------------------------------
SILENT = ('rb', 'r', 'bl')


def name_of(text):
    if len(text) == 1:
        return text
    if text[1] == ',':      # IndexError for empty text, as documented by the code
        return text[0]
    return text[:2]


def model_exchange(text, replies, fault_at):
    """ Simulate: write text+CR, then read until a non-blank line, at most 26 reads.
        Returns (writes, ops, response or None if a fault hit) """
    ops = 0
    writes = []
    if fault_at == ops:
        return writes, ops + 1, None
    writes.append((text + '\r').encode('ascii'))
    ops += 1
    replies = list(replies)
    for _ in range(26):
        if fault_at == ops:
            return writes, ops + 1, None
        ops += 1
        raw = replies.pop(0) if replies else b''
        resp = raw.decode('ascii').strip()
        if resp:
            return writes, ops, resp
    return writes, ops, ''


def model_command(cmd, replies, fault_at, fault_caught):
    text = cmd.strip()
    name = name_of(text)
    writes, ops, resp = model_exchange(text, replies, fault_at)
    if resp is None:
        if not fault_caught:
            return writes, ops, 'RAISE', None
        if name.lower() in SILENT:
            return writes, ops, True, None
        return writes, ops, False, 'USB communication error after command: ' + text
    if not resp.startswith(name):
        if resp:
            err = '\nUnexpected response from EBB.    Command: ' + text + \
                '\n    Response: ' + resp
        else:
            err = 'EBB Serial Timeout after command: ' + text
        return writes, ops, False, err
    if 'Err:' in resp:
        return writes, ops, False, 'Error reported by EBB.\n    Command: ' + text + \
            '\n    Response: ' + resp
    return writes, ops, True, None


def model_query(qry, replies, fault_at, fault_caught):
    text = qry.strip()
    name = name_of(text)
    writes, ops, resp = model_exchange(text, replies, fault_at)
    if resp is None:
        if not fault_caught:
            return writes, ops, 'RAISE', None
        if name.lower() not in SILENT:
            return writes, ops, None, 'USB communication error after query: ' + text
        resp = ''
    if 'Err:' in resp or not resp.startswith(name):
        if resp:
            err = '\nUnexpected response from EBB.    Query: ' + text + \
                '\n    Response: ' + resp
        else:
            err = 'EBB Serial Timeout after query: ' + text
        return writes, ops, None, err
    rest = resp[len(name):]
    if rest.startswith(','):
        rest = rest[1:]
    return writes, ops, rest, None


def model_statusbyte(replies, fault_at, fault_caught):
    ops = 0
    writes = []
    if fault_at == 0:
        resp = None
        ops = 1
    else:
        writes.append(b'QG\r')
        ops = 2
        if fault_at == 1:
            resp = None
        else:
            resp = (replies[0] if replies else b'').decode('ascii').strip()
    if resp is None:
        if not fault_caught:
            return writes, ops, 'RAISE', None
        return writes, ops, None, 'USB communication error after status byte query'
    if not resp.startswith('QG'):
        if resp:
            return writes, ops, None, \
                '\nUnexpected response from EBB.    Response to QG query: ' + resp
        return writes, ops, None, 'EBB Serial Timeout while reading status byte.'
    if 'Err:' in resp:
        return writes, ops, None, 'Error reported by EBB.\n    Query: QG\n    Response: ' + resp
    try:
        return writes, ops, int(resp[3:], 16), None
    except ValueError:
        return writes, ops, None, None


# --------------------------------------------------------------------------
# Request catalogue: (label, callable(obj), failure value)
# --------------------------------------------------------------------------
REQUESTS = [
    ("reboot", lambda o: o.reboot(), False),
    ("bootload", lambda o: o.bootload(), False),
    ("query_nickname", lambda o: o.query_nickname(), None),
    ("write_nickname", lambda o: o.write_nickname("Robo"), False),
    ("write_nickname_blank", lambda o: o.write_nickname("   "), False),
    ("write_nickname_none", lambda o: o.write_nickname(None), False),
    ("command", lambda o: o.command("SM,100,5,5"), False),
    ("command_1", lambda o: o.command("R"), False),
    ("command_rb", lambda o: o.command("RB"), False),
    ("command_bl", lambda o: o.command("BL"), False),
    ("command_none", lambda o: o.command(None), False),
    ("query", lambda o: o.query("QS"), None),
    ("query_1", lambda o: o.query("V"), None),
    ("query_arg", lambda o: o.query("QL,3"), None),
    ("query_none", lambda o: o.query(None), None),
    ("query_statusbyte", lambda o: o.query_statusbyte(), None),
    ("var_write", lambda o: o.var_write(17, 3), False),
    ("var_read", lambda o: o.var_read(3), None),
    ("var_write_int32", lambda o: o.var_write_int32(-123456, 4), False),
    ("var_read_int32", lambda o: o.var_read_int32(4), False),
    ("timed_pause", lambda o: o.timed_pause(2000), None),
    ("timed_pause_0", lambda o: o.timed_pause(0), None),
    ("xy_move", lambda o: o.xy_move(10, -20, 300), None),
    ("abs_move", lambda o: o.abs_move(1000), None),
    ("abs_move_xy", lambda o: o.abs_move(1000, 5, 6), None),
    ("motors_disable", lambda o: o.motors_disable(), None),
    ("motors_enable", lambda o: o.motors_enable(1, 1), None),
    ("motors_enable_one", lambda o: o.motors_enable(0, 2), None),
    ("motors_enable_other", lambda o: o.motors_enable(3, 0), None),
    ("motors_query_enabled", lambda o: o.motors_query_enabled(), None),
    ("query_steps", lambda o: o.query_steps(), None),
    ("clear_steps", lambda o: o.clear_steps(), None),
    ("clear_accumulators", lambda o: o.clear_accumulators(), None),
    ("pen_lower", lambda o: o.pen_lower(100), None),
    ("pen_lower_pin", lambda o: o.pen_lower(100, 3), None),
    ("pen_raise", lambda o: o.pen_raise(100), None),
    ("pen_raise_pin", lambda o: o.pen_raise(100, 3), None),
    ("dio_b_config", lambda o: o.dio_b_config(1, 0, 0), None),
    ("dio_b_set", lambda o: o.dio_b_set(1, 1), None),
    ("dio_b_read", lambda o: o.dio_b_read(1), None),
    ("pen_pos_down", lambda o: o.pen_pos_down(12000), None),
    ("pen_pos_up", lambda o: o.pen_pos_up(18000), None),
    ("pen_rate_down", lambda o: o.pen_rate_down(400), None),
    ("pen_rate_up", lambda o: o.pen_rate_up(400), None),
    ("servo_timeout", lambda o: o.servo_timeout(60000), None),
    ("servo_timeout_state", lambda o: o.servo_timeout(60000, 1), None),
    ("query_voltage", lambda o: o.query_voltage(), None),
    ("query_voltage_thr", lambda o: o.query_voltage(100), None),
    ("query_current", lambda o: o.query_current(), (None, None)),
]


def same_value(got, want):
    return type(got) is type(want) and got == want


def assert_silent(obj, port, context):
    """ Every request on obj: no port activity on `port`, failure value, message kept """
    err_before = obj.err
    name_before = obj.name
    for label, call, fail in REQUESTS:
        snap = port.snapshot()
        got = call(obj)
        check(port.snapshot() == snap, "port touched", context, label, snap, port.snapshot())
        check(same_value(got, fail), "wrong failure value", context, label, got, fail)
        check(obj.err is err_before, "message replaced", context, label, obj.err, err_before)
        check(obj.name == name_before, "nickname changed", context, label)
        if err_before is None:
            check(obj.port is None, "port appeared", context, label)


# --------------------------------------------------------------------------
# Part A: command / query / statusbyte against the model
# --------------------------------------------------------------------------
def run_exact(kind, text, replies, fault_at, exc):
    faults = {} if fault_at is None else {fault_at: exc}
    obj = new_obj(replies, faults)
    port = obj.port
    caught = exc is None or any(exc is c for c in CAUGHT)
    if kind == 'command':
        want = model_command(text, replies, fault_at, caught)
        call = lambda: obj.command(text)
    elif kind == 'query':
        want = model_query(text, replies, fault_at, caught)
        call = lambda: obj.query(text)
    else:
        want = model_statusbyte(replies, fault_at, caught)
        call = obj.query_statusbyte
    w_writes, w_ops, w_ret, w_err = want
    try:
        got = call()
    except Exception as e:      # pylint: disable=broad-except
        got = 'RAISE'
        check(e is exc, "foreign exception", kind, text, replies, fault_at, e)
    ctx = (kind, text, replies, fault_at, exc)
    check(same_value(got, w_ret), "return", ctx, got, w_ret)
    check(obj.err == w_err, "err", ctx, obj.err, w_err)
    check(port.writes == w_writes, "writes", ctx, port.writes, w_writes)
    check(port.ops == w_ops, "ops", ctx, port.ops, w_ops)
    check(obj.port is port, "port dropped", ctx)
    if obj.err is not None:
        assert_silent(obj, port, ("after", ctx))
    return obj


def part_a():
    cmds = ["SM,100,5,5", "R", "RB", "BL", "rb", "bl", "r", "EM,0,0", " CS ", "CS\r",
            "S,1", "T3,1,0,0,0,0,0,0,3", "ST,", "ST,abc", "r,1", "X"]
    for cmd in cmds:
        text = cmd.strip()
        name = name_of(text)
        reply_sets = [
            [(name + '\r\n').encode()],
            [(text + '\r\n').encode()],
            [b'', (name + '\r\n').encode()],
            [b'\r\n', b'  ', (name + ',ok\r\n').encode()],
            [b''] * 25 + [(name + '\r\n').encode()],
            [b''] * 26 + [(name + '\r\n').encode()],
            [],
            [b'!8 Err: Unknown command\r\n'],
            [(name + ' Err: bad parameter\r\n').encode()],
            [b'Err: ' + name.encode() + b'\r\n'],
            [b'ZZ,1\r\n'],
            [name.lower().swapcase().encode() + b'\r\n'],
            [b'', b'', b'garbage Err: x\r\n'],
        ]
        for replies in reply_sets:
            for kind in ('command', 'query'):
                run_exact(kind, cmd, replies, None, None)
                for fault_at in (0, 1, 2, 3, 26, 27):
                    for exc in CAUGHT[:3] + CAUGHT[5:6] + UNCAUGHT[:1]:
                        run_exact(kind, cmd, replies, fault_at, exc)
        for exc in CAUGHT + UNCAUGHT:
            for fault_at in (0, 1, 2):
                run_exact('command', cmd, [b'', (name + '\r\n').encode()], fault_at, exc)
                run_exact('query', cmd, [b'', (name + ',7\r\n').encode()], fault_at, exc)

    # query payload extraction
    for qry, reply, want in [("QS", b"QS,10,-20\r\n", "10,-20"), ("QS", b"QS\r\n", ""),
                             ("QS", b"QS10\r\n", "10"), ("V", b"V,EBB 3.0.2\r\n", "EBB 3.0.2"),
                             ("V", b"Version\r\n", "ersion"), ("QL,3", b"QL,77\r\n", "77"),
                             ("QT", b"QT,\r\n", ""), ("QT", b"QT,,x\r\n", ",x"),
                             ("I,2", b"I,1,2\r\n", "1,2"), ("QE", b" QE,1,1 \r\n", "1,1")]:
        obj = run_exact('query', qry, [reply], None, None)
        check(obj.err is None, "payload err", qry)
        obj2 = new_obj([reply])
        check(obj2.query(qry) == want, "payload", qry, reply, want)

    # status byte
    for replies in ([b'QG,3E\r\n'], [b'QG,00\r\n'], [b'QG,ff\r\n'], [b'QG\r\n'], [b'QG,zz\r\n'],
                    [b'QG,\r\n'], [], [b''], [b'', b'QG,3E\r\n'], [b'QS,1\r\n'],
                    [b'!Err: x\r\n'], [b'QG,Err: x\r\n'], [b'QGErr:\r\n'], [b'  QG,1F  \r\n']):
        run_exact('status', None, replies, None, None)
        for exc in CAUGHT + UNCAUGHT:
            for fault_at in (0, 1, 2):
                run_exact('status', None, replies, fault_at, exc)

    # degenerate arguments: fail before any transmission
    for meth in ('command', 'query'):
        for bad in ("", "   ", "\r"):
            obj = new_obj([b'OK\r\n'])
            try:
                getattr(obj, meth)(bad)
                check(False, "expected IndexError", meth, bad)
            except IndexError:
                pass
            check(obj.port.ops == 0 and obj.err is None, "degenerate arg touched port", meth, bad)
        obj = new_obj([b'OK\r\n'])
        check(getattr(obj, meth)(None) is (False if meth == 'command' else None), "None arg")
        check(obj.port.ops == 0 and obj.err is None, "None arg touched port", meth)


# --------------------------------------------------------------------------
# Part B: ways into the latched / unconnected state, then silence
# --------------------------------------------------------------------------
def expect_traffic(label, call, replies, want_writes, want_ret, want_err=None, faults=None,
                   want_port_closed=False):
    obj = new_obj(replies, faults)
    port = obj.port
    got = call(obj)
    ctx = ("traffic", label)
    check(port.writes == want_writes, "writes", ctx, port.writes, want_writes)
    check(same_value(got, want_ret), "ret", ctx, got, want_ret)
    check(obj.err == want_err, "err", ctx, obj.err, want_err)
    if want_port_closed:
        check(obj.port is None and port.closed == 1, "not closed", ctx)
    if obj.err is not None or obj.port is None:
        assert_silent(obj, port, ("after", label))
    return obj


def part_b():
    # --- never connected, and disconnected after use
    obj = ebb3_motion.EBBMotionWrap()
    dummy = FakePort()
    assert_silent(obj, dummy, "fresh")
    base = ebb3_serial.EBB3()
    for label, call, fail in REQUESTS[:20]:
        check(same_value(call(base), fail), "fresh EBB3", label)
    check(base.err is None and base.port is None, "fresh EBB3 state")

    obj = new_obj([b'CS\r\n'])
    port = obj.port
    check(obj.command("CS") is True, "healthy CS")
    obj.disconnect()
    check(obj.port is None and port.closed == 1, "disconnect")
    assert_silent(obj, port, "disconnected")
    obj.disconnect()                       # idempotent, still possible
    check(obj.port is None and port.closed == 1, "disconnect twice")

    # --- healthy traffic of every request (documented wire format), then latching variants
    e = lambda *names: [(n + '\r').encode() for n in names]
    ok = lambda *names: [(n + '\r\n').encode() for n in names]
    expect_traffic("reboot", lambda o: o.reboot(), [], [b'RB\r'], True, want_port_closed=True)
    expect_traffic("bootload", lambda o: o.bootload(), [], [b'BL\r'], True, want_port_closed=True)
    for exc in (serial.SerialException("x"), serial.serialutil.PortNotOpenError()):
        for label, call in (("reboot", lambda o: o.reboot()), ("bootload", lambda o: o.bootload())):
            obj = new_obj([], {0: exc})
            port = obj.port
            check(call(obj) is False, "reboot/bootload fault value", label)
            check(obj.err is None and obj.port is port and port.writes == [], "reboot fault state")
    for exc in (RuntimeError("x"), ValueError("y")):
        obj = new_obj([], {0: exc})
        try:
            obj.reboot()
            check(False, "reboot should propagate", exc)
        except (RuntimeError, ValueError) as got:
            check(got is exc, "reboot propagated other")
        check(obj.err is None and obj.port.writes == [], "reboot propagate state")

    obj = expect_traffic("query_nickname", lambda o: o.query_nickname(), ok("QT,Robo "),
                         e("QT"), None)
    check(obj.name == "Robo", "nickname read")
    obj = expect_traffic("query_nickname_blank", lambda o: o.query_nickname(), ok("QT"),
                         e("QT"), None)
    check(obj.name == "", "blank nickname stored as empty")
    obj = expect_traffic("write_nickname", lambda o: o.write_nickname("  Robo "), ok("ST"),
                         e("ST,Robo"), True)
    check(obj.name == "Robo", "nickname written")
    obj = expect_traffic("write_nickname_blank", lambda o: o.write_nickname("   "), ok("ST"),
                         e("ST,"), True)
    check(obj.name == "", "nickname cleared")
    obj = expect_traffic("write_nickname_fail", lambda o: o.write_nickname("Robo"),
                         ok("!Err: no"), e("ST,Robo"), False,
                         '\nUnexpected response from EBB.    Command: ST,Robo\n'
                         '    Response: !Err: no')
    check(obj.name is None, "nickname kept on failure")

    expect_traffic("var_write", lambda o: o.var_write(17, 3), ok("SL"), e("SL,17,3"), True)
    expect_traffic("var_write_to", lambda o: o.var_write(17, 3), [], e("SL,17,3"), False,
                   'EBB Serial Timeout after command: SL,17,3')
    expect_traffic("var_read", lambda o: o.var_read(3), ok("QL,200"), e("QL,3"), 200)
    expect_traffic("var_read_err", lambda o: o.var_read(3), ok("QL,Err: x"), e("QL,3"), None,
                   '\nUnexpected response from EBB.    Query: QL,3\n    Response: QL,Err: x')
    expect_traffic("var_write_int32", lambda o: o.var_write_int32(-2, 4), ok("SL") * 4,
                   e("SL,255,4", "SL,255,5", "SL,255,6", "SL,254,7"), True)
    expect_traffic("var_write_int32_b", lambda o: o.var_write_int32(0x01020304, 28), ok("SL") * 4,
                   e("SL,1,28", "SL,2,29", "SL,3,30", "SL,4,31"), True)
    expect_traffic("var_write_int32_fail2", lambda o: o.var_write_int32(0x01020304, 0),
                   ok("SL", "XX"), e("SL,1,0", "SL,2,1"), False,
                   '\nUnexpected response from EBB.    Command: SL,2,1\n    Response: XX')
    expect_traffic("var_read_int32", lambda o: o.var_read_int32(4),
                   ok("QL,255", "QL,255", "QL,255", "QL,254"),
                   e("QL,4", "QL,5", "QL,6", "QL,7"), -2)
    expect_traffic("var_read_int32_fail3", lambda o: o.var_read_int32(4),
                   ok("QL,1", "QL,2") + [b''] * 26 + ok("QL,9"),
                   e("QL,4", "QL,5", "QL,6"), None, 'EBB Serial Timeout after query: QL,6')
    expect_traffic("var_read_int32_usb", lambda o: o.var_read_int32(0), ok("QL,1"),
                   e("QL,0", "QL,1"), None, 'USB communication error after query: QL,1',
                   faults={3: OSError("gone")})

    SMOK = ok("SM") * 4
    expect_traffic("timed_pause", lambda o: o.timed_pause(2000), SMOK,
                   e("SM,750,0,0", "SM,750,0,0", "SM,500,0,0"), None)
    expect_traffic("timed_pause_750", lambda o: o.timed_pause(750), SMOK, e("SM,750,0,0"), None)
    expect_traffic("timed_pause_751", lambda o: o.timed_pause(751), SMOK,
                   e("SM,750,0,0", "SM,1,0,0"), None)
    expect_traffic("timed_pause_half", lambda o: o.timed_pause(0.5), SMOK, e("SM,1,0,0"), None)
    expect_traffic("timed_pause_0", lambda o: o.timed_pause(0), SMOK, [], None)
    expect_traffic("timed_pause_neg", lambda o: o.timed_pause(-5), SMOK, [], None)
    expect_traffic("timed_pause_fail", lambda o: o.timed_pause(3000), ok("SM", "SM,Err: 3"),
                   e("SM,750,0,0", "SM,750,0,0"), None,
                   'Error reported by EBB.\n    Command: SM,750,0,0\n    Response: SM,Err: 3')
    expect_traffic("timed_pause_usb", lambda o: o.timed_pause(3000), ok("SM"),
                   e("SM,750,0,0"), None, 'USB communication error after command: SM,750,0,0',
                   faults={2: serial.SerialException("unplugged")})
    expect_traffic("xy_move", lambda o: o.xy_move(10, -20, 300), ok("SM"), e("SM,300,-20,10"), None)
    expect_traffic("abs_move", lambda o: o.abs_move(1000), ok("HM"), e("HM,1000"), None)
    expect_traffic("abs_move_xy", lambda o: o.abs_move(1000, 5, 6), ok("HM"), e("HM,1000,5,6"), None)
    expect_traffic("abs_move_x", lambda o: o.abs_move(1000, 5), ok("HM"), e("HM,1000"), None)
    expect_traffic("abs_move_y", lambda o: o.abs_move(1000, None, 6), ok("HM"), e("HM,1000"), None)
    expect_traffic("motors_disable", lambda o: o.motors_disable(), ok("EM"), e("EM,0,0"), None)
    expect_traffic("motors_enable", lambda o: o.motors_enable(1, 1), ok("EM"), e("EM,1,1"), None)
    expect_traffic("motors_enable_clip", lambda o: o.motors_enable(9, -3), ok("CU", "EM"),
                   e("CU,50,0", "EM,5,0"), None)
    expect_traffic("motors_enable_00", lambda o: o.motors_enable(0, 0), ok("EM"), e("EM,0,0"), None)
    expect_traffic("motors_enable_02", lambda o: o.motors_enable(0, 2), ok("CU", "QE,0,0", "EM", "EM"),
                   e("CU,50,0", "QE", "EM,2,2", "EM,0,2"), None)
    expect_traffic("motors_enable_02s", lambda o: o.motors_enable(0, 2), ok("CU", "QE,8,8", "EM"),
                   e("CU,50,0", "QE", "EM,0,2"), None)
    expect_traffic("motors_enable_02t", lambda o: o.motors_enable(0, 2), ok("CU", "QE,0,8", "EM"),
                   e("CU,50,0", "QE", "EM,0,2"), None)
    expect_traffic("motors_enable_02u", lambda o: o.motors_enable(0, 2), ok("CU", "QE,16,8", "EM", "EM"),
                   e("CU,50,0", "QE", "EM,2,2", "EM,0,2"), None)
    expect_traffic("motors_enable_cufail", lambda o: o.motors_enable(0, 2), ok("ZZ", "QE,0,0"),
                   e("CU,50,0"), None,
                   '\nUnexpected response from EBB.    Command: CU,50,0\n    Response: ZZ')
    expect_traffic("motors_enable_qefail", lambda o: o.motors_enable(0, 2), ok("CU", "!Err: q"),
                   e("CU,50,0", "QE"), None,
                   '\nUnexpected response from EBB.    Query: QE\n    Response: !Err: q')
    expect_traffic("motors_enable_emfail", lambda o: o.motors_enable(0, 2), ok("CU", "QE,0,0"),
                   e("CU,50,0", "QE", "EM,2,2"), None, 'EBB Serial Timeout after command: EM,2,2')
    expect_traffic("motors_query_enabled", lambda o: o.motors_query_enabled(), ok("QE,16,1"),
                   e("QE"), (1, 5))
    expect_traffic("query_steps", lambda o: o.query_steps(), ok("QS,-5,77"), e("QS"), (-5, 77))
    expect_traffic("query_steps_fail", lambda o: o.query_steps(), ok("XX"), e("QS"), None,
                   '\nUnexpected response from EBB.    Query: QS\n    Response: XX')
    expect_traffic("clear_steps", lambda o: o.clear_steps(), ok("CS"), e("CS"), None)
    expect_traffic("clear_accumulators", lambda o: o.clear_accumulators(), ok("T3"),
                   e("T3,1,0,0,0,0,0,0,3"), None)
    expect_traffic("pen_lower", lambda o: o.pen_lower(100), ok("SP"), e("SP,0,100"), None)
    expect_traffic("pen_lower_pin", lambda o: o.pen_lower(100, 3), ok("SP"), e("SP,0,100,3"), None)
    expect_traffic("pen_lower_pin0", lambda o: o.pen_lower(0, 0), ok("SP"), e("SP,0,0,0"), None)
    expect_traffic("pen_raise", lambda o: o.pen_raise(100), ok("SP"), e("SP,1,100"), None)
    expect_traffic("pen_raise_pin", lambda o: o.pen_raise(100, 3), ok("SP"), e("SP,1,100,3"), None)
    expect_traffic("pen_raise_pin0", lambda o: o.pen_raise(0, 0), ok("SP"), e("SP,1,0,0"), None)
    expect_traffic("pen_raise_fail", lambda o: o.pen_raise(7), ok("SP Err: 1"), e("SP,1,7"), None,
                   'Error reported by EBB.\n    Command: SP,1,7\n    Response: SP Err: 1')
    expect_traffic("dio_b_config", lambda o: o.dio_b_config(1, 0, 1), ok("PO", "PD"),
                   e("PO,B,1,0", "PD,B,1,1"), None)
    expect_traffic("dio_b_config_fail1", lambda o: o.dio_b_config(1, 0, 1), ok("!Err: x", "PD"),
                   e("PO,B,1,0"), None,
                   '\nUnexpected response from EBB.    Command: PO,B,1,0\n    Response: !Err: x')
    expect_traffic("dio_b_set", lambda o: o.dio_b_set(2, 1), ok("PO"), e("PO,B,2,1"), None)
    expect_traffic("dio_b_read1", lambda o: o.dio_b_read(2), ok("PI,1"), e("PI,B,2"), True)
    expect_traffic("dio_b_read0", lambda o: o.dio_b_read(2), ok("PI,0"), e("PI,B,2"), False)
    expect_traffic("dio_b_read_to", lambda o: o.dio_b_read(2), [], e("PI,B,2"), None,
                   'EBB Serial Timeout after query: PI,B,2')
    expect_traffic("pen_pos_down", lambda o: o.pen_pos_down(12000), ok("SC"), e("SC,5,12000"), None)
    expect_traffic("pen_pos_up", lambda o: o.pen_pos_up(18000), ok("SC"), e("SC,4,18000"), None)
    expect_traffic("pen_rate_down", lambda o: o.pen_rate_down(400), ok("SC"), e("SC,12,400"), None)
    expect_traffic("pen_rate_up", lambda o: o.pen_rate_up(300), ok("SC"), e("SC,11,300"), None)
    expect_traffic("pen_rate_up_fail", lambda o: o.pen_rate_up(300), ok("SQ"), e("SC,11,300"), None,
                   '\nUnexpected response from EBB.    Command: SC,11,300\n    Response: SQ')
    expect_traffic("servo_timeout", lambda o: o.servo_timeout(60000), ok("SR"), e("SR,60000"), None)
    expect_traffic("servo_timeout_s", lambda o: o.servo_timeout(60000, 0), ok("SR"),
                   e("SR,60000,0"), None)
    expect_traffic("query_voltage_hi", lambda o: o.query_voltage(), ok("QC,0394,0300"), e("QC"), True)
    expect_traffic("query_voltage_eq", lambda o: o.query_voltage(), ok("QC,0394,0250"), e("QC"), True)
    expect_traffic("query_voltage_lo", lambda o: o.query_voltage(), ok("QC,0394,0249"), e("QC"), False)
    expect_traffic("query_voltage_thr", lambda o: o.query_voltage(300), ok("QC,0394,0299"), e("QC"), False)
    expect_traffic("query_voltage_short", lambda o: o.query_voltage(), ok("QC,0394"), e("QC"), None)
    expect_traffic("query_voltage_fail", lambda o: o.query_voltage(), ok("Err: v"), e("QC"), None,
                   '\nUnexpected response from EBB.    Query: QC\n    Response: Err: v')
    expect_traffic("query_current", lambda o: o.query_current(), ok("QC,0394,0300"), e("QC"), (394, 300))
    expect_traffic("query_current_short", lambda o: o.query_current(), ok("QC,5"), e("QC"), (None, None))
    expect_traffic("query_current_fail", lambda o: o.query_current(), [b'XX\r\n'], e("QC"),
                   (None, None), '\nUnexpected response from EBB.    Query: QC\n    Response: XX')
    expect_traffic("statusbyte", lambda o: o.query_statusbyte(), ok("QG,3E"), e("QG"), 0x3E)

    # --- record_error: first message wins, directly
    obj = new_obj()
    first = "first message"
    obj.record_error(first)
    check(obj.err is first, "record first")
    obj.record_error("second")
    obj.record_error(None)
    obj.record_error("")
    check(obj.err is first, "first wins")
    assert_silent(obj, obj.port, "record_error direct")
    for falsy in ("", 0):
        obj = new_obj()
        obj.record_error(falsy)          # a falsy, non-None first message also latches
        check(obj.err is falsy, "falsy recorded")
        obj.record_error("later")
        check(obj.err is falsy, "falsy message kept")
    obj = new_obj()
    obj.record_error(None)               # recording None is a no-op
    check(obj.err is None, "None message")
    obj.record_error("real")
    check(obj.err == "real", "after None message")

    # --- every request as the faulting call, each fault position and kind, then silence
    healthy = {
        "QT": b"QT,Robo\r\n", "ST": b"ST\r\n", "SM": b"SM\r\n", "R": b"R\r\n", "RB": b"RB\r\n",
        "BL": b"BL\r\n", "QS": b"QS,1,2\r\n", "V": b"V,EBB 3.0.2\r\n", "QL": b"QL,7\r\n",
        "QG": b"QG,3E\r\n", "SL": b"SL\r\n", "HM": b"HM\r\n", "EM": b"EM\r\n", "CU": b"CU\r\n",
        "QE": b"QE,0,0\r\n", "CS": b"CS\r\n", "T3": b"T3\r\n", "SP": b"SP\r\n", "PO": b"PO\r\n",
        "PD": b"PD\r\n", "PI": b"PI,1\r\n", "SC": b"SC\r\n", "SR": b"SR\r\n", "QC": b"QC,1,300\r\n",
    }

    class Responder(FakePort):
        """ answers each written command with its healthy reply, except the bad_at-th reply """
        def __init__(self, bad_at, bad_reply, faults):
            FakePort.__init__(self, [], faults)
            self.bad_at = bad_at
            self.bad_reply = bad_reply
            self.n_cmds = 0

        def write(self, data):
            FakePort.write(self, data)
            text = data.decode('ascii')
            nm = text.split(',')[0].strip()
            nm = nm if nm in healthy else nm[:2]
            reply = healthy.get(nm, b'??\r\n')
            if self.n_cmds == self.bad_at:
                reply = self.bad_reply
            self.n_cmds += 1
            self.replies = [reply] if reply is not None else []

    n_latched = 0
    for label, call, fail in REQUESTS:
        for bad_at in range(0, 5):
            for bad_reply in (None, b'!Err: nope\r\n', b'ZZ\r\n', b'SM,Err: 1\r\n'):
                obj = ebb3_motion.EBBMotionWrap()
                obj.port = port = Responder(bad_at, bad_reply, None)
                try:
                    call(obj)
                except (ValueError, TypeError, IndexError, KeyError, AttributeError):
                    pass
                if obj.err is not None:
                    n_latched += 1
                    msg = obj.err
                    check(port.n_cmds == bad_at + 1 or label.startswith("command_") or
                          label in ("reboot", "bootload"), "kept sending", label, bad_at, port.writes)
                    assert_silent(obj, port, ("latched-by", label, bad_at, bad_reply))
                    check(obj.err is msg, "msg")
                elif obj.port is None:
                    assert_silent(obj, port, ("closed-by", label))
        for op_at in range(0, 8):
            for exc in (serial.SerialException("gone"), OSError("os"), RuntimeError("rt")):
                obj = ebb3_motion.EBBMotionWrap()
                obj.port = port = Responder(-1, None, {op_at: exc})
                try:
                    call(obj)
                except (ValueError, TypeError, IndexError, KeyError, AttributeError,
                        OSError, RuntimeError):
                    pass
                if obj.err is not None:
                    n_latched += 1
                    w = len(port.writes)
                    assert_silent(obj, port, ("usb-latched-by", label, op_at, exc))
                    check(len(port.writes) == w, "w")
                elif obj.port is None:
                    assert_silent(obj, port, ("closed-by", label))
    check(n_latched > 400, "too few latched scenarios", n_latched)


# --------------------------------------------------------------------------
# Part C: pseudo-random sequences
# --------------------------------------------------------------------------
def part_c():
    rng = random.Random(20240528)
    reply_pool = [b'', b'\r\n', b'SM\r\n', b'QS,1,2\r\n', b'QL,5\r\n', b'SL\r\n', b'QC,1,2\r\n',
                  b'QE,1,1\r\n', b'EM\r\n', b'CU\r\n', b'!Err: x\r\n', b'SM,Err: y\r\n', b'ZZ\r\n',
                  b'QG,1F\r\n', b'SP\r\n', b'SC\r\n', b'QT,abc\r\n', b'ST\r\n', b'PI,1\r\n', b'PO\r\n']
    exc_pool = CAUGHT + UNCAUGHT
    n_err = 0
    for trial in range(400):
        replies = [rng.choice(reply_pool) for _ in range(rng.randrange(0, 40))]
        faults = {}
        if rng.random() < 0.6:
            for _ in range(rng.randrange(1, 3)):
                faults[rng.randrange(0, 30)] = rng.choice(exc_pool)
        obj = new_obj(replies, faults)
        port = obj.port
        latched = None
        latched_snap = None
        for step in range(25):
            label, call, fail = rng.choice(REQUESTS)
            pre_err = obj.err
            pre_port = obj.port
            snap = port.snapshot()
            try:
                got = call(obj)
                raised = False
            except Exception:       # pylint: disable=broad-except
                got = None
                raised = True
            if pre_err is not None or pre_port is None:
                check(not raised, "raised while blocked", trial, step, label)
                check(same_value(got, fail), "blocked value", trial, step, label, got, fail)
                check(port.snapshot() == snap, "blocked traffic", trial, step, label)
                check(obj.err is pre_err, "blocked msg", trial, step, label)
            if latched is None and obj.err is not None:
                latched = obj.err
                latched_snap = (tuple(port.writes), port.ops)
                n_err += 1
            if latched is not None:
                check(obj.err is latched, "latched msg replaced", trial, step, label)
                check((tuple(port.writes), port.ops) == latched_snap, "traffic after latch")
            if rng.random() < 0.05:
                obj.disconnect()
                check(obj.port is None, "disconnect possible")
                check(obj.err is latched, "disconnect changed msg")
    check(n_err > 100, "too few error trials", n_err)


# --------------------------------------------------------------------------
# Part D: connect
# --------------------------------------------------------------------------
def part_d():
    real_serial = ebb3_serial.serial.Serial
    real_comports = ebb3_serial.comports
    made = []

    def install(replies, faults=None, open_exc=None, ports=None):
        def factory(name, timeout=None):
            if open_exc is not None:
                raise open_exc
            p = FakePort(replies, faults)
            p.opened_as = (name, timeout)
            made.append(p)
            return p
        ebb3_serial.serial.Serial = factory
        if ports is None:
            ports = [("/dev/other", "Some modem", "USB VID:PID=1234:5678"),
                     ("/dev/ebb0", "EiBotBoard", "USB VID:PID=04D8:FD92 SER=Robo LOCATION=1")]
        ebb3_serial.comports = lambda: ports

    try:
        v302 = b'EBBv13_and_above EB Firmware Version 3.0.2\r\n'
        # healthy
        install([v302, b'CU\r\n', b'QT,Robo\r\n'])
        obj = ebb3_motion.EBBMotionWrap()
        check(obj.connect(caller="demo") is True, "connect ok")
        port = made[-1]
        check(obj.port is port and obj.err is None, "connected state")
        check(port.writes == [b'v\r', b'CU,10,1\r', b'QT\r'], "handshake", port.writes)
        check(port.opened_as == ("/dev/ebb0", 1.0), "opened")
        check(obj.version == "3.0.2" and obj.name == "Robo" and obj.caller == "demo", "ident")
        n_made = len(made)
        check(obj.connect() is True and len(made) == n_made, "already connected")
        # object works, then latches, then reconnect-after-disconnect still blocked by err
        port.replies = [b'SM\r\n', b'XX\r\n']
        obj.xy_move(1, 2, 3)
        check(obj.err is None, "move ok")
        obj.xy_move(1, 2, 3)
        msg = obj.err
        check(msg == '\nUnexpected response from EBB.    Command: SM,3,2,1\n    Response: XX', "latched")
        assert_silent(obj, port, "connected then latched")
        obj.disconnect()
        check(obj.port is None and port.closed == 1 and obj.err is msg, "disconnect after latch")
        assert_silent(obj, port, "latched and closed")
        # connecting again remains possible (handshake only); message is kept, requests stay blocked
        install([v302, b'CU\r\n', b'QT,Robo\r\n'])
        res = obj.connect()
        port2 = made[-1]
        check(res is True and obj.port is port2, "reconnect handshake")
        check(port2.writes == [b'v\r', b'CU,10,1\r'], "reconnect writes (nickname query blocked)",
              port2.writes)
        check(obj.err is msg, "message kept over reconnect")
        assert_silent(obj, port2, "reconnected but latched")

        # second try succeeds
        install([b'garbage\r\n', v302, b'CU\r\n', b'QT\r\n'])
        obj = ebb3_motion.EBBMotionWrap()
        check(obj.connect() is True and made[-1].writes == [b'v\r', b'v\r', b'CU,10,1\r', b'QT\r'],
              "second try")
        # no EBB reply
        install([b'nope\r\n', b''])
        obj = ebb3_motion.EBBMotionWrap()
        check(obj.connect() is False, "connect bad reply")
        check(obj.err == "Failed to connect via USB (port name: /dev/ebb0)", "bad reply msg", obj.err)
        check(obj.port is None and made[-1].closed == 1, "closed after bad reply")
        assert_silent(obj, made[-1], "connect bad reply")
        # USB exception during handshake at each position
        for op_at in (0, 1, 2, 3):
            install([b'', v302], {op_at: serial.SerialException("x")})
            obj = ebb3_motion.EBBMotionWrap()
            check(obj.connect() is False, "connect usb")
            check(obj.err == "Error testing USB connection (port name: /dev/ebb0)", "usb msg", obj.err)
            check(obj.port is None, "usb closed")
            assert_silent(obj, made[-1], ("connect usb", op_at))
        install([], open_exc=serial.SerialException("cannot open"))
        obj = ebb3_motion.EBBMotionWrap()
        check(obj.connect() is False and obj.port is None, "open failure")
        check(obj.err == "Error testing USB connection (port name: /dev/ebb0)", "open msg")
        assert_silent(obj, FakePort(), "open failure")
        # old firmware, unversioned firmware
        for reply, ver in ((b'EBBv13_and_above EB Firmware Version 2.8.1\r\n', "2.8.1"),
                           (b'EBBv13_and_above EB Firmware Version 3.0.1\r\n', "3.0.1"),
                           (b'EBB mystery\r\n', None)):
            install([reply, b'CU\r\n', b'QT\r\n'])
            obj = ebb3_motion.EBBMotionWrap()
            check(obj.connect() is False, "old firmware refused", reply)
            want = ("Firmware version (%s) not supported.\nFirmware 3.0.2 or newer is required.\n"
                    "Visit https://bantam.tools/ndfw to update your firmware." % ver)
            check(obj.err == want, "fw msg", obj.err)
            port = made[-1]
            check(port.writes == [b'v\r'], "fw writes", port.writes)
            if obj.port is not None:
                assert_silent(obj, port, ("old firmware", ver))
            else:
                assert_silent(obj, port, ("old firmware closed", ver))
        # nothing found
        install([], ports=[("/dev/other", "Some modem", "USB VID:PID=1234:5678")])
        n_made = len(made)
        obj = ebb3_motion.EBBMotionWrap()
        check(obj.connect() is False and len(made) == n_made, "nothing to open")
        check(obj.err == "Unable to locate device on USB", "locate msg")
        obj2 = ebb3_motion.EBBMotionWrap()
        check(obj2.connect("Nemo") is False and obj2.err == "Unable to locate Nemo on USB", "named msg")
        check(obj.connect("Nemo") is False and obj.err == "Unable to locate device on USB",
              "first locate message kept")
        assert_silent(obj, FakePort(), "not found")
    finally:
        ebb3_serial.serial.Serial = real_serial
        ebb3_serial.comports = real_comports


def main():
    part_a()
    part_b()
    part_c()
    part_d()
    print("C04 demo: all %d checks passed" % CHECKS)


if __name__ == '__main__':
    main()
