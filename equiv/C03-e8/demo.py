import os, sys; sys.path.insert(0, os.environ.get('PLOTINK_ROOT', '/tmp/e3_C03'))
"""
Property C03 check: calculate_lm() reports the FIRST tick at which the number of
motor steps taken (in either direction) reaches the step budget, together with the
net position and accumulator the tick-by-tick recurrence has at that tick.

Oracle (independent of the library; pure Python integers):
    first per-tick rate   r_1 = rate - trunc(accel/2) + accel,   r_k = r_1 + (k-1)*accel
    "clear" accumulator   2^31-1 if r_1 < 0 or (r_1 == 0 and accel < 0) else 0
    total(k) = total(k-1) + r_k ;  position = total // 2^31 ;  accumulator = total % 2^31
    a motor step happens on a tick whenever the position changes.
Two implementations of that oracle are used: a literal tick loop (short moves) and an
exact closed-form/bisection version (any length); they are also checked against each other.
"""
import random

from plotink import ebb_calc, ebb_motion

TWO31 = 1 << 31
RATE_MAX = TWO31 - 1
FAILURES = []
COUNTS = {"checked": 0, "skipped": 0, "reversing": 0, "legacy": 0, "exact_landing": 0,
          "loop_oracle": 0}


def trunc_half(accel):
    """ accel/2 rounded towards zero, integers only """
    return accel // 2 if accel >= 0 else -((-accel) // 2)


def normalise(steps, rate, accel):
    """ Returns None for requests that cannot move, else the (mirrored) move """
    if steps == 0:
        return None
    if rate == 0 and accel == 0:
        return None
    if steps < 0:
        if rate < 0:
            return None
        return -steps, -rate, -accel
    return steps, rate, accel


def start_accumulator(rate, accel, accum):
    first = rate - trunc_half(accel) + accel
    if accum == "clear":
        if first < 0 or (first == 0 and accel < 0):
            return TWO31 - 1
        return 0
    return accum


def oracle_loop(steps, rate, accel, accum, max_ticks):
    """ Literal recurrence.  Returns (ticks, position, accumulator), or None if the
        move is not in the quantifier (rate out of range) or longer than max_ticks. """
    total = start_accumulator(rate, accel, accum)
    tick_rate = rate - trunc_half(accel)
    pos = total // TWO31
    taken = 0
    for tick in range(1, max_ticks + 1):
        tick_rate += accel
        if abs(tick_rate) > RATE_MAX:
            return None
        total += tick_rate
        new_pos = total // TWO31
        taken += abs(new_pos - pos)
        pos = new_pos
        if taken >= steps:
            assert taken == steps   # |rate| < 2^31: at most one step per tick
            return tick, pos, total % TWO31
    return "long"


def oracle_fast(steps, rate, accel, accum):
    """ Same recurrence, evaluated in closed form with exact integers. """
    acc0 = start_accumulator(rate, accel, accum)
    base = rate - trunc_half(accel)   # r_k = base + k*accel

    def total(k):      # acc0 + sum_{j=1..k} r_j , exact
        return acc0 + k * base + accel * k * (k + 1) // 2

    def pos(k):
        return total(k) // TWO31

    first = base + accel
    # last tick of the first monotone leg (rates all >= 0 or all <= 0)
    if first * accel >= 0:
        turn = None          # rates never change sign (r_1 == 0: tick 1 is idle)
    else:
        # r_k keeps the sign of r_1 (or is 0) while k <= -base/accel
        turn = (-base) // accel
        while (base + (turn + 1) * accel) * first >= 0:
            turn += 1
        while turn > 1 and (base + turn * accel) * first < 0:
            turn -= 1
        assert turn >= 1 and (base + turn * accel) * first >= 0 > (base + (turn + 1) * accel) * first

    p0 = pos(0)

    def taken(k):
        if turn is None or k <= turn:
            return abs(pos(k) - p0)
        return abs(pos(turn) - p0) + abs(pos(k) - pos(turn))

    # bisection for first k with taken(k) >= steps
    hi = 1
    while taken(hi) < steps:
        hi *= 2
        if hi > 1 << 80:
            return None
    lo = hi // 2 if hi > 1 else 0      # taken(lo) < steps  (or lo == 0)
    while hi - lo > 1:
        mid = (lo + hi) // 2
        if taken(mid) >= steps:
            hi = mid
        else:
            lo = mid
    ticks = hi
    if taken(ticks) != steps:
        return None
    # Quantifier: every per-tick rate within range (linear => check both ends)
    if abs(first) > RATE_MAX or abs(base + ticks * accel) > RATE_MAX:
        return None
    reverses = turn is not None and ticks > turn and abs(pos(turn) - p0) > 0 \
        and first != 0
    return ticks, pos(ticks), total(ticks) % TWO31, reverses


def fail(msg):
    FAILURES.append(msg)
    if len(FAILURES) <= 20:
        print("FAIL:", msg)


def check(steps, rate, accel, accum="clear"):
    got = ebb_calc.calculate_lm(steps, rate, accel, accum)
    label = "calculate_lm(%r, %r, %r, %r)" % (steps, rate, accel, accum)

    move = normalise(steps, rate, accel)
    if move is None:
        COUNTS["checked"] += 1
        if tuple(got) != (0, 0, 0):
            fail("%s = %r, expected (0, 0, 0)" % (label, got))
        return
    m_steps, m_rate, m_accel = move

    want = oracle_fast(m_steps, m_rate, m_accel, accum)
    if want is None:
        COUNTS["skipped"] += 1     # not in the quantifier
        return
    ticks, position, accumulator, reverses = want

    if ticks <= 1200:              # cross-check the two oracles on short moves
        loop = oracle_loop(m_steps, m_rate, m_accel, accum, 1200)
        COUNTS["loop_oracle"] += 1
        if loop != (ticks, position, accumulator):
            fail("oracle disagreement for %s: loop %r, closed form %r" % (label, loop, want))
            return

    COUNTS["checked"] += 1
    COUNTS["reversing"] += bool(reverses)
    COUNTS["legacy"] += steps < 0
    COUNTS["exact_landing"] += accumulator == 0

    if not all(isinstance(v, int) and not isinstance(v, bool) for v in got):
        fail("%s returned non-integers %r" % (label, got))
        return
    if tuple(got) != (ticks, position, accumulator):
        fail("%s = %r, recurrence gives %r" % (label, got, (ticks, position, accumulator)))
        return
    if not 0 <= got[2] < TWO31:
        fail("%s accumulator %r out of [0, 2^31)" % (label, got[2]))
    # Consequence: timed-move predictor reproduces position and accumulator
    again = ebb_calc.move_dist_lt(m_rate, m_accel, got[0], accum)
    if tuple(again) != (got[1], got[2]):
        fail("%s = %r but move_dist_lt(..., %d) = %r" % (label, got, got[0], again))
    # Deprecated wrapper (always "clear")
    if accum == "clear" and COUNTS["checked"] % 3 == 0:
        wrapped = ebb_motion.moveTimeLM(rate, steps, accel)
        if wrapped != got[0]:
            fail("moveTimeLM(%r, %r, %r) = %r, expected %r" % (rate, steps, accel, wrapped, got[0]))


def main():
    rng = random.Random(80808)

    # --- requests that cannot move -------------------------------------------------
    for rate in (-5, 0, 7, 2 ** 30):
        for accel in (-3, 0, 9):
            check(0, rate, accel)
            check(0, rate, accel, 12345)
    for steps in (-4, 1, 100):
        check(steps, 0, 0)
        check(steps, 0, 0, 77)
    for steps in (-1, -50):
        for rate in (-1, -2 ** 20):
            for accel in (-7, 0, 7, 2 ** 20):
                check(steps, rate, accel)

    # --- documented examples from the library's own tests ---------------------------
    assert ebb_motion.moveTimeLM(412361511, 1119, -35357) == \
        ebb_calc.calculate_lm(1119, 412361511, -35357)[0]

    # --- constant rate, including exact boundary landings (powers of two) -----------
    for exp in range(0, 32):
        for delta in (-1, 0, 1):
            rate = (1 << exp) + delta
            if not 0 < rate <= RATE_MAX:
                continue
            for steps in (1, 2, 17):
                for accum in ("clear", 0, TWO31 - 1, rate % TWO31):
                    check(steps, rate, 0, accum)
                    check(steps, -rate, 0, accum)
                    check(-steps, rate, 0, accum)

    # --- first-tick rate exactly zero / sign change between tick 1 and 2 ------------
    for accel in (-9, -2, -1, 1, 2, 3, 8, 100001, -100001, 2 ** 20, -(2 ** 29 + 1)):
        half = trunc_half(accel)
        for off in (-2 * abs(accel), -abs(accel) - 1, -abs(accel), -abs(accel) + 1,
                    -2, -1, 0, 1, 2, abs(accel) - 1, abs(accel), abs(accel) + 1, 2 * abs(accel)):
            rate = half - accel + off           # first tick rate == off
            for steps in (1, 2, 5):
                for accum in ("clear", 0, TWO31 - 1):
                    check(steps, rate, accel, accum)
                    check(-steps, rate, accel, accum)

    # --- power-of-two families: many exact landings on a step boundary, reversing ---
    for r_exp in range(20, 31, 2):
        for a_exp in range(8, 27, 3):
            for r_sign in (1, -1):
                for a_sign in (1, -1):
                    rate = r_sign * (1 << r_exp)
                    accel = a_sign * (1 << a_exp)
                    for steps in (1, 2, 3, 7, 8, 64, 1024):
                        for accum in ("clear", TWO31 // 2):
                            check(steps, rate, accel, accum)

    # --- reversing moves: budgets around the number of steps before the reversal -----
    for _ in range(250):
        accel = rng.choice((1, -1)) * rng.randint(1, 1 << rng.randint(1, 22))
        rate = -(1 if accel > 0 else -1) * rng.randint(1, RATE_MAX)
        t_turn = abs(rate) // abs(accel)
        out = abs(rate) * t_turn // 2 // TWO31        # approx. steps before reversal
        accum = rng.choice(("clear", "clear", rng.randrange(TWO31)))
        for steps in {1, 2, max(1, out - 1), max(1, out), out + 1, out + 2,
                      2 * out, 2 * out + 1, 2 * out + 2, 3 * out + 5}:
            if steps > 0:
                check(steps, rate, accel, accum)
        if rate > 0:
            check(-(out + 3), -rate, -accel, accum)

    # --- slow reversing moves: reversal before the first motor step -----------------
    for _ in range(200):
        accel = rng.choice((1, -1)) * rng.randint(1, 5000)
        rate = -(1 if accel > 0 else -1) * rng.randint(1, 3000000)
        accum = rng.choice(("clear", 0, TWO31 - 1, rng.randrange(TWO31)))
        for steps in (1, 2, 3, 10):
            check(steps, rate, accel, accum)

    # --- broad random sweep ---------------------------------------------------------
    for _ in range(2000):
        rate = rng.choice((1, -1)) * rng.randint(0, 1 << rng.randint(1, 31))
        rate = max(-RATE_MAX, min(RATE_MAX, rate))
        accel = rng.choice((1, -1, 0)) * rng.randint(0, 1 << rng.randint(1, 24))
        steps = rng.randint(1, 1 << rng.randint(1, 14))
        if rng.random() < 0.15:
            steps = -steps
        accum = rng.choice(("clear", "clear", 0, TWO31 - 1, rng.randrange(TWO31)))
        check(steps, rate, accel, accum)

    # --- small exhaustive grid ------------------------------------------------------
    small = (-(2 ** 31 - 1), -2 ** 30, -1500000000, -3, -1, 0, 1, 2, 1500000000, 2 ** 30,
             2 ** 31 - 1)
    for rate in small:
        for accel in (-2 ** 28, -65537, -4, -1, 0, 1, 4, 65537, 2 ** 28):
            for steps in (-3, 1, 2, 9):
                for accum in ("clear", TWO31 - 1):
                    check(steps, rate, accel, accum)

    print("C03 demo:", COUNTS, "failures:", len(FAILURES))
    if COUNTS["checked"] < 5000 or COUNTS["reversing"] < 500 or COUNTS["legacy"] < 100 \
            or COUNTS["exact_landing"] < 50:
        print("FAIL: coverage too low")
        return 1
    return 1 if FAILURES else 0


if __name__ == "__main__":
    sys.exit(main())
