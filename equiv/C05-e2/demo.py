import os, sys; sys.path.insert(0, os.environ.get('PLOTINK_ROOT', '/tmp/wte_C05'))
# Demo / check for property C05: EBB3 command/query framing and fault handling.
#
# Part 1: exhaustive matrix  request strings x reply streams  for EBB3.command and
#         EBB3.query against an independent oracle (return value, recorded error text,
#         bytes written, number of reads consumed).
# Part 2: every public request method (EBB3 + EBBMotionWrap) against a scripted
#         "conforming device", with and without an injected fault at each request.
# Part 3: long random sessions on one object (reply attribution), with a fault somewhere.
# Part 4: guards (no port / earlier error / None argument).
#
# Deterministic, no hardware, no network.

import random

from plotink import ebb3_serial, ebb3_motion

ROOT = os.path.realpath(os.environ.get('PLOTINK_ROOT', '/tmp/wte_C05'))
assert os.path.realpath(ebb3_serial.__file__).startswith(ROOT + os.sep), ebb3_serial.__file__
assert os.path.realpath(ebb3_motion.__file__).startswith(ROOT + os.sep), ebb3_motion.__file__

serial = ebb3_serial.serial
MAX_READS = 26          # one read plus up to 25 re-reads of an empty line
CHECKS = [0]


def check(cond, *info):
    CHECKS[0] += 1
    if not cond:
        print("FAIL:", *[repr(i) for i in info])
        sys.exit(1)


def make_exc(kind):
    return {
        'SerialException': lambda: serial.SerialException('boom'),
        'SerialTimeoutException': lambda: serial.SerialTimeoutException('write timeout'),
        'PortNotOpenError': lambda: serial.serialutil.PortNotOpenError(),
        'IOError': lambda: IOError('io'),
        'OSError': lambda: OSError(5, 'Input/output error'),
        'RuntimeError': lambda: RuntimeError('rt'),
    }[kind]()

EXC_KINDS = ['SerialException', 'SerialTimeoutException', 'PortNotOpenError',
             'IOError', 'OSError', 'RuntimeError']


# ---------------------------------------------------------------- fake ports

class ScriptPort:
    ''' Serial port stub that replays a fixed list of lines / exceptions. '''
    def __init__(self, script, write_exc=None):
        self.script = list(script)
        self.write_exc = write_exc
        self.writes = []
        self.reads = 0
        self.closed = False

    def write(self, data):
        check(isinstance(data, bytes), 'write of non-bytes', data)
        self.writes.append(data)
        if self.write_exc is not None:
            raise self.write_exc
        return len(data)

    def readline(self):
        self.reads += 1
        if not self.script:
            return b''                      # read timeout
        item = self.script.pop(0)
        if isinstance(item, BaseException):
            raise item
        return item

    def reset_input_buffer(self):
        pass

    def close(self):
        self.closed = True


def fresh(cls, port):
    obj = cls()
    obj.port = port
    return obj


# ---------------------------------------------------------------- oracle

def request_name(trimmed):
    if len(trimmed) == 1:
        return trimmed
    if trimmed[1] == ',':
        return trimmed[0]
    return trimmed[:2]


def oracle(kind, text, script, write_exc):
    ''' Independent model. Returns (return value, err, writes, reads used). '''
    trimmed = text.strip()
    name = request_name(trimmed)
    writes = [trimmed.encode('ascii') + b'\r']
    io_failed = write_exc is not None
    reads = 0
    reply = ''
    if not io_failed:
        while reads < MAX_READS:
            item = script[reads] if reads < len(script) else b''
            reads += 1
            if isinstance(item, BaseException):
                io_failed = True
                break
            reply = item.decode('ascii').strip()
            if reply:
                break
    noun, label = ('command', 'Command') if kind == 'command' else ('query', 'Query')
    err = None
    if io_failed:
        if name.lower() not in ('rb', 'r', 'bl'):
            err = 'USB communication error after ' + noun + ': ' + trimmed
        elif kind == 'query':               # nothing was read: the query cannot succeed
            err = 'EBB Serial Timeout after query: ' + trimmed
    elif reply == '':
        err = 'EBB Serial Timeout after ' + noun + ': ' + trimmed
    elif not reply.startswith(name) or (kind == 'query' and 'Err:' in reply):
        err = '\nUnexpected response from EBB.    ' + label + ': ' + trimmed +\
            '\n    Response: ' + reply
    elif 'Err:' in reply:
        err = 'Error reported by EBB.\n    Command: ' + trimmed + '\n    Response: ' + reply
    if kind == 'command':
        ret = err is None
    elif err is not None:
        ret = None
    else:
        ret = reply[len(name):]
        if ret[:1] == ',':
            ret = ret[1:]
    return ret, err, writes, reads


# ---------------------------------------------------------------- part 1

REQUESTS = [
    'V', 'v', 'R', 'r', 'S,1,2', 'R,1', 'r,0', 'N,5',
    'QG', 'QC', 'QS', 'QE', 'QT', 'QL,5', 'PI,B,3', 'SM,100,0,0', 'EM,0,0',
    'T3,1,0,0,0,0,0,0,3', 'ST,My Plotter', 'CS', 'RB', 'rb', 'Rb', 'BL', 'bl', 'HM,1000',
    'QU,4',
]
WHITESPACE = [('', ''), ('  ', ' '), ('\t', '\r\n'), ('', '\n'), (' \r\n', '\t \t')]
EMPTY_LINES = [b'', b'\r\n', b'  \n', b'\n', b'\t\r']
LINE_ENDS = [b'\r\n', b'\n', b'', b' \r\n']


def tails_for(name):
    ''' Final (non-empty) reply lines to try for a request named `name`. '''
    good = [name, name + ',', name + ',1', name + ',0394,0300', name + 'XY', name + ',,7',
            name + ', padded', name + ',-12,34', name + name]
    error = ['!8 Err: Unknown command', name + ',Err: bad parameter', 'Err:', name + 'Err:',
             '!3 Err: parameter outside limit']
    wrong = ['XX,1', 'OK', name.swapcase() + ',1', ',' + name, '?', name[:-1] + '#',
             ' ' + name[::-1] + 'z']
    if len(name) == 2:
        wrong.append(name[0])            # only half of the name
        wrong.append(name[0] + ',' + name[1])
    return good, error, wrong


def run_case(kind, text, script, write_exc_kind=None):
    write_exc = make_exc(write_exc_kind) if write_exc_kind else None
    exp_ret, exp_err, exp_writes, exp_reads = oracle(kind, text, script, write_exc)
    port = ScriptPort(script, write_exc)
    ebb = fresh(ebb3_serial.EBB3, port)
    info = (kind, text, script, write_exc_kind)
    try:
        got = ebb.command(text) if kind == 'command' else ebb.query(text)
    except Exception as exc:            # pylint: disable=broad-except
        check(False, 'raised', exc, *info)
    check(type(got) is type(exp_ret) and got == exp_ret, 'return', got, exp_ret, *info)
    check(ebb.err == exp_err, 'err', ebb.err, exp_err, *info)
    check(port.writes == exp_writes, 'writes', port.writes, exp_writes, *info)
    check(port.reads == exp_reads, 'reads', port.reads, exp_reads, *info)
    check(ebb.port is port and not port.closed, 'port state', *info)
    # success criterion of the property, stated directly:
    if write_exc is None and not any(isinstance(i, BaseException) for i in script[:exp_reads]):
        name = request_name(text.strip())
        final = ''
        for item in script[:MAX_READS]:
            final = item.decode('ascii').strip()
            if final:
                break
        should_succeed = final.startswith(name) and 'Err:' not in final
        succeeded = (got is True) if kind == 'command' else (got is not None)
        check(succeeded == should_succeed, 'success criterion', final, *info)
        check((ebb.err is None) == should_succeed, 'err vs success', ebb.err, *info)


def part1():
    rnd = random.Random(505)
    for req_index, req in enumerate(REQUESTS):
        lead, trail = WHITESPACE[req_index % len(WHITESPACE)]
        name = request_name(req)
        good, error, wrong = tails_for(name)
        for kind in ('command', 'query'):
            for text in {req, lead + req + trail}:
                # every final line, directly and after some empty reads
                for tail in good + error + wrong:
                    for n_empty in (0, 1, 24, 25, 26):
                        empties = [rnd.choice(EMPTY_LINES) for _ in range(n_empty)]
                        line = tail.encode('ascii') + rnd.choice(LINE_ENDS)
                        run_case(kind, text, empties + [line, b'ZZ,stale\r\n'])
                # finer sweep of the retry bound with one good and one bad line
                for tail in (good[2], wrong[0]):
                    for n_empty in range(0, 31):
                        run_case(kind, text, [b''] * n_empty + [tail.encode('ascii') + b'\r\n'])
                # pure timeouts
                run_case(kind, text, [])
                run_case(kind, text, [b'\r\n'] * 40)
                # exceptions while reading, at various depths, and while writing
                for exc_kind in EXC_KINDS:
                    for depth in (0, 1, 2, 24, 25, 26, 27):
                        run_case(kind, text, [b''] * depth + [make_exc(exc_kind),
                                                             (name + ',1\r\n').encode('ascii')])
                    run_case(kind, text, [(name + ',1\r\n').encode('ascii')], exc_kind)


# ---------------------------------------------------------------- part 2 / 3

class DevicePort:
    '''
    A conforming EBB: answers each request line with one reply line that starts with the
    request's name, possibly after a few empty reads (slow device). A fault can be
    injected at the n-th request received.
    '''
    DATA = {'QC': '0394,0300', 'QE': '16,16', 'QS': '1200,-345', 'QG': '3E', 'QT': 'Daisy',
            'PI': '1', 'QL': '17'}

    def __init__(self, rnd, fault_at=None, fault=None, data=None):
        self.rnd = rnd
        self.fault_at = fault_at
        self.fault = fault
        self.data = dict(self.DATA)
        if data:
            self.data.update(data)
        self.ram = {}
        self.requests = []
        self.pending = []
        self.reads = 0
        self.closed = False
        self.stale_reads = 0

    def write(self, data):
        check(isinstance(data, bytes) and data.endswith(b'\r') and data.count(b'\r') == 1,
              'framing', data)
        text = data[:-1].decode('ascii')
        check(text == text.strip() and text != '', 'untrimmed request', data)
        check(not self.pending, 'request sent while a reply is still unread', text, self.pending)
        index = len(self.requests)
        self.requests.append(text)
        name = request_name(text)
        if index == self.fault_at:
            if self.fault == 'write_exc':
                raise make_exc(self.rnd.choice(EXC_KINDS))
            if self.fault == 'read_exc':
                self.pending = [b''] * self.rnd.choice([0, 0, 1, 3]) +\
                    [make_exc(self.rnd.choice(EXC_KINDS))]
            elif self.fault == 'timeout':
                self.pending = [b''] * 40
            elif self.fault == 'errline':
                self.pending = [b'!8 Err: Unknown command\r\n']
            elif self.fault == 'errdata':
                self.pending = [(name + ',Err: parameter\r\n').encode('ascii')]
            elif self.fault == 'wrongname':
                self.pending = [b'ZQ,1,2\r\n']
            else:
                check(False, 'unknown fault', self.fault)
            return len(data)
        if name == 'SL':
            _, value, slot = text.split(',')
            self.ram[int(slot)] = int(value)
        reply = name
        if name == 'QL':
            reply += ',' + str(self.ram.get(int(text.split(',')[1]), int(self.data['QL'])))
        elif name in self.data:
            reply += ',' + self.data[name]
        slow = 0 if name == 'QG' else self.rnd.choice([0, 0, 0, 1, 2, 25])
        self.pending = [b''] * slow + [reply.encode('ascii') + b'\r\n']
        return len(data)

    def readline(self):
        self.reads += 1
        if not self.pending:
            self.stale_reads += 1
            return b''
        item = self.pending.pop(0)
        if isinstance(item, BaseException):
            self.pending = []
            raise item
        return item

    def reset_input_buffer(self):
        self.pending = []

    def close(self):
        self.closed = True


def clamp(value):
    return min(max(int(value), 0), 5)


def pause_wire(total):
    out = []
    while total > 0:
        step = 750 if total > 750 else max(total, 1)
        out.append('SM,%d,0,0' % step)
        total -= step
    return out


QE_DECODE = {16: 1, 8: 2, 4: 3, 2: 4, 1: 5, 0: 0}


def motors_enable_wire(res_1, res_2, qe_data):
    res_1, res_2 = clamp(res_1), clamp(res_2)
    out = []
    if res_1 != res_2 and (res_1 == 0 or res_2 == 0):
        out.append('CU,50,0')
    if res_1 == 0 and res_2 != 0:
        out.append('QE')
        one, two = [QE_DECODE[int(x)] for x in qe_data.split(',')]
        old = one if one != 0 else two
        if old != res_2:
            out.append('EM,%d,%d' % (res_2, res_2))
    out.append('EM,%d,%d' % (res_1, res_2))
    return out


def int32_bytes(value):
    return list((value & 0xFFFFFFFF).to_bytes(4, 'big'))


VOID = object()     # marker: method returns nothing meaningful (None) whether or not it fails


def method_table(data):
    '''
    (method name, args, expected wire requests, expected result on success,
     expected result on failure). `data` is the device's canned query data.
    '''
    qc_a, qc_b = [int(x) for x in data['QC'].split(',')]
    qe = tuple(QE_DECODE[int(x)] for x in data['QE'].split(','))
    qs = tuple(int(x) for x in data['QS'].split(','))
    rows = [
        ('command', ('SM,10,1,1',), ['SM,10,1,1'], True, False),
        ('command', ('  V \n',), ['V'], True, False),
        ('command', ('S,3',), ['S,3'], True, False),
        ('query', ('QS',), ['QS'], data['QS'], None),
        ('query', (' QC\r\n',), ['QC'], data['QC'], None),
        ('query', ('V',), ['V'], '', None),
        ('query', ('QL,9',), ['QL,9'], data['QL'], None),
        ('query_statusbyte', (), ['QG'], int(data['QG'], 16), None),
        ('query_nickname', (), ['QT'], VOID, VOID),
        ('write_nickname', ('  Rosie ',), ['ST,Rosie'], True, False),
        ('write_nickname', ('   ',), ['ST,'], True, False),
        ('var_write', (200, 3), ['SL,200,3'], True, False),
        ('var_read', (30,), ['QL,30'], int(data['QL']), None),
        ('var_write_int32', (-2, 4), ['SL,255,4', 'SL,255,5', 'SL,255,6', 'SL,254,7'],
         True, False),
        ('var_write_int32', (0x01020304, 8), ['SL,1,8', 'SL,2,9', 'SL,3,10', 'SL,4,11'],
         True, False),
        ('var_read_int32', (20,), ['QL,20', 'QL,21', 'QL,22', 'QL,23'],
         int.from_bytes([int(data['QL'])] * 4, 'big', signed=True), None),
        ('timed_pause', (2000,), pause_wire(2000), VOID, VOID),
        ('timed_pause', (750,), pause_wire(750), VOID, VOID),
        ('timed_pause', (1,), pause_wire(1), VOID, VOID),
        ('timed_pause', (0,), [], VOID, VOID),
        ('xy_move', (10, -20, 30), ['SM,30,-20,10'], VOID, VOID),
        ('abs_move', (1000,), ['HM,1000'], VOID, VOID),
        ('abs_move', (1000, 5, -6), ['HM,1000,5,-6'], VOID, VOID),
        ('abs_move', (1000, 5, None), ['HM,1000'], VOID, VOID),
        ('motors_disable', (), ['EM,0,0'], VOID, VOID),
        ('motors_enable', (1, 1), motors_enable_wire(1, 1, data['QE']), VOID, VOID),
        ('motors_enable', (2, 0), motors_enable_wire(2, 0, data['QE']), VOID, VOID),
        ('motors_enable', (0, 2), motors_enable_wire(0, 2, data['QE']), VOID, VOID),
        ('motors_enable', (0, 1), motors_enable_wire(0, 1, data['QE']), VOID, VOID),
        ('motors_enable', (0, 9), motors_enable_wire(0, 9, data['QE']), VOID, VOID),
        ('motors_enable', (-3, 0), motors_enable_wire(-3, 0, data['QE']), VOID, VOID),
        ('motors_query_enabled', (), ['QE'], qe, None),
        ('query_steps', (), ['QS'], qs, None),
        ('clear_steps', (), ['CS'], VOID, VOID),
        ('clear_accumulators', (), ['T3,1,0,0,0,0,0,0,3'], VOID, VOID),
        ('pen_lower', (150,), ['SP,0,150'], VOID, VOID),
        ('pen_lower', (150, 2), ['SP,0,150,2'], VOID, VOID),
        ('pen_raise', (0,), ['SP,1,0'], VOID, VOID),
        ('pen_raise', (7, 0), ['SP,1,7,0'], VOID, VOID),
        ('dio_b_config', (3, 1, 0), ['PO,B,3,1', 'PD,B,3,0'], VOID, VOID),
        ('dio_b_set', (2, 0), ['PO,B,2,0'], VOID, VOID),
        ('dio_b_read', (3,), ['PI,B,3'], bool(int(data['PI'])), None),
        ('pen_pos_down', (12000,), ['SC,5,12000'], VOID, VOID),
        ('pen_pos_up', (20000,), ['SC,4,20000'], VOID, VOID),
        ('pen_rate_down', (400,), ['SC,12,400'], VOID, VOID),
        ('pen_rate_up', (300,), ['SC,11,300'], VOID, VOID),
        ('servo_timeout', (60000,), ['SR,60000'], VOID, VOID),
        ('servo_timeout', (0, 1), ['SR,0,1'], VOID, VOID),
        ('query_voltage', (), ['QC'], qc_b >= 250, None),
        ('query_voltage', (qc_b,), ['QC'], True, None),
        ('query_voltage', (qc_b + 1,), ['QC'], False, None),
        ('query_voltage', (None,), ['QC'], qc_b >= 250, None),
        ('query_current', (), ['QC'], (qc_a, qc_b), (None, None)),
    ]
    return rows


def same(got, expected):
    if expected is VOID:
        return got is None
    return type(got) is type(expected) and got == expected


DATA_SETS = [
    {},
    {'QC': '0000,0100', 'QE': '0,0', 'QS': '0,0', 'QG': '00', 'PI': '0', 'QL': '0'},
    {'QC': '1023,0250', 'QE': '1,0', 'QS': '-2147483648,2147483647', 'QG': 'FF', 'PI': '255',
     'QL': '255'},
    {'QC': '0512,0249', 'QE': '0,8', 'QS': '7,-7', 'QG': '8a', 'QT': 'A B', 'QL': '128'},
    {'QE': '4,2'},
]
FAULTS = ['write_exc', 'read_exc', 'timeout', 'errline', 'errdata', 'wrongname']


def part2():
    rnd = random.Random(2025)
    for data_over in DATA_SETS:
        data = dict(DevicePort.DATA)
        data.update(data_over)
        for mname, args, wire, ok_value, fail_value in method_table(data):
            # (a) conforming device: success
            port = DevicePort(rnd, data=data_over)
            ebb = fresh(ebb3_motion.EBBMotionWrap, port)
            try:
                got = getattr(ebb, mname)(*args)
            except Exception as exc:        # pylint: disable=broad-except
                check(False, 'raised', exc, mname, args)
            check(port.requests == wire, 'wire', mname, args, port.requests, wire)
            check(ebb.err is None, 'unexpected error', mname, args, ebb.err)
            check(same(got, ok_value), 'value', mname, args, got, ok_value)
            check(not port.pending and port.stale_reads == 0, 'unread/stale', mname, args)
            if mname == 'query_nickname':
                check(ebb.name == data['QT'].strip(), 'nickname', ebb.name)
            if mname == 'write_nickname':
                check(ebb.name == args[0].strip(), 'nickname', ebb.name)
            # (b) a fault at each request of the method
            for fault_at in range(len(wire)):
                for fault in FAULTS:
                    port = DevicePort(rnd, fault_at, fault, data=data_over)
                    ebb = fresh(ebb3_motion.EBBMotionWrap, port)
                    info = (mname, args, fault_at, fault)
                    try:
                        got = getattr(ebb, mname)(*args)
                    except Exception as exc:    # pylint: disable=broad-except
                        check(False, 'raised', exc, *info)
                    check(port.requests == wire[:fault_at + 1], 'wire after fault',
                          port.requests, *info)
                    check(isinstance(ebb.err, str) and ebb.err != '', 'err not recorded', *info)
                    check(wire[fault_at] in ebb.err or mname == 'query_statusbyte',
                          'err does not name the request', ebb.err, *info)
                    check(same(got, fail_value), 'failure value', got, fail_value, *info)
                    first_err = ebb.err
                    # once failed, nothing more is transmitted and the first error is kept
                    check(ebb.command('V') is False and ebb.query('QC') is None, 'latched', *info)
                    check(ebb.query_voltage() is None and ebb.query_current() == (None, None),
                          'latched', *info)
                    check(ebb.motors_query_enabled() is None and ebb.query_steps() is None,
                          'latched', *info)
                    check(ebb.dio_b_read(1) is None and ebb.var_read(1) is None, 'latched', *info)
                    check(ebb.query_statusbyte() is None, 'latched', *info)
                    check(port.requests == wire[:fault_at + 1] and ebb.err == first_err,
                          'latched', *info)

    # reboot / bootload: write once, no read, port closed
    for mname, wire in (('reboot', b'RB\r'), ('bootload', b'BL\r')):
        port = ScriptPort([])
        ebb = fresh(ebb3_motion.EBBMotionWrap, port)
        check(getattr(ebb, mname)() is True, mname)
        check(port.writes == [wire] and port.reads == 0 and port.closed and ebb.port is None, mname)
        for exc_kind in ('SerialException', 'PortNotOpenError', 'SerialTimeoutException'):
            port = ScriptPort([], make_exc(exc_kind))
            ebb = fresh(ebb3_motion.EBBMotionWrap, port)
            check(getattr(ebb, mname)() is False, mname, exc_kind)
            check(port.writes == [wire], mname, exc_kind)


def part3():
    ''' Long sessions: each reply is attributed to the request that caused it. '''
    rnd = random.Random(77)
    for session in range(60):
        data_over = DATA_SETS[session % len(DATA_SETS)]
        data = dict(DevicePort.DATA)
        data.update(data_over)
        table = method_table(data)
        table = [row for row in table if row[0] not in ('write_nickname',)]
        n_steps = 40
        plan = [rnd.choice(table) for _ in range(n_steps)]
        total_requests = sum(len(row[2]) for row in plan)
        inject = session % 3 != 0
        fault_at = rnd.randrange(total_requests) if inject else None
        fault = rnd.choice(FAULTS) if inject else None
        port = DevicePort(rnd, fault_at, fault, data=data_over)
        ebb = fresh(ebb3_motion.EBBMotionWrap, port)
        sent = []
        failed = False
        ram = {}
        for mname, args, wire, ok_value, fail_value in plan:
            if mname in ('var_read', 'var_read_int32') or (mname == 'query' and
                                                           args[0].startswith('QL')):
                # the device remembers SL writes; recompute the expected value from its RAM
                slots = [int(w.split(',')[1]) for w in wire]
                vals = [ram.get(s, int(data['QL'])) for s in slots]
                if mname == 'var_read':
                    ok_value = vals[0]
                elif mname == 'query':
                    ok_value = str(vals[0])
                else:
                    ok_value = int.from_bytes(vals, 'big', signed=True)
            try:
                got = getattr(ebb, mname)(*args)
            except Exception as exc:        # pylint: disable=broad-except
                check(False, 'raised', exc, mname, args, session)
            if failed:
                check(same(got, False if mname == 'var_read_int32' else fail_value),
                      'after failure', mname, got)
            else:
                step_fails = inject and len(sent) <= fault_at < len(sent) + len(wire)
                if step_fails:
                    sent += wire[:fault_at - len(sent) + 1]
                    failed = True
                    check(same(got, fail_value), 'failing step', mname, args, got, fault, session)
                    check(isinstance(ebb.err, str) and ebb.err, 'err', session)
                else:
                    sent += wire
                    for w in wire:
                        if w.startswith('SL,'):
                            ram[int(w.split(',')[2])] = int(w.split(',')[1])
                    check(same(got, ok_value), 'value', mname, args, got, ok_value, session)
                    check(ebb.err is None, 'err', ebb.err, session)
            check(port.requests == sent, 'wire', session, mname, port.requests[-3:], sent[-3:])
        check(port.stale_reads == 0 or failed, 'stale reads', session)
        check(failed == inject, 'fault not reached', session)


def part4():
    ''' Guards: no port, an earlier error, or a None request: nothing is sent. '''
    table = method_table(dict(DevicePort.DATA))
    for mname, args, _wire, _ok, fail_value in table:
        if mname == 'var_read_int32':
            fail_value = False              # documented quirk of the guard
        ebb = ebb3_motion.EBBMotionWrap()
        check(same(getattr(ebb, mname)(*args), fail_value), 'no port', mname)
        check(ebb.err is None, 'no port must not record', mname)
        port = ScriptPort([b'QC,1,2\r\n'] * 5)
        ebb = fresh(ebb3_motion.EBBMotionWrap, port)
        ebb.err = 'earlier error'
        check(same(getattr(ebb, mname)(*args), fail_value), 'earlier error', mname)
        check(port.writes == [] and port.reads == 0 and ebb.err == 'earlier error', mname)
    port = ScriptPort([b'QC,1,2\r\n'])
    ebb = fresh(ebb3_motion.EBBMotionWrap, port)
    check(ebb.command(None) is False and ebb.query(None) is None, 'None request')
    check(ebb.write_nickname(None) is False, 'None nickname')
    check(port.writes == [] and port.reads == 0 and ebb.err is None, 'None request sent data')
    # record_error keeps the first message only
    ebb.record_error('first')
    ebb.record_error('second')
    check(ebb.err == 'first', 'record_error')


def part5():
    ''' query_statusbyte: one write, one read, exact error texts, value decoding. '''
    lines = ['QG,3E', 'QG,00', 'QG,ff', 'QG,8A\r\n', ' QG,10 \n', 'QG', 'QG,', 'QG,zz', 'QG3E',
             'QG,Err: x', '!8 Err: Unknown command', 'Err:', 'QC,1,2', 'qg,3E', 'Q', 'G', 'OK',
             '', '\r\n', '  ']
    for line in lines:
        reply = line.strip()
        port = ScriptPort([line.encode('ascii'), b'QG,01\r\n'])
        ebb = fresh(ebb3_serial.EBB3, port)
        try:
            got = ebb.query_statusbyte()
        except Exception as exc:            # pylint: disable=broad-except
            check(False, 'raised', exc, line)
        if reply == '':
            exp_err, exp = 'EBB Serial Timeout while reading status byte.', None
        elif not reply.startswith('QG'):
            exp_err, exp = '\nUnexpected response from EBB.    Response to QG query: ' + reply, None
        elif 'Err:' in reply:
            exp_err, exp = 'Error reported by EBB.\n    Query: QG\n    Response: ' + reply, None
        else:
            exp_err = None
            try:
                exp = int(reply[3:], 16)
            except ValueError:
                exp = None
        check(type(got) is type(exp) and got == exp, 'statusbyte value', line, got, exp)
        check(ebb.err == exp_err, 'statusbyte err', line, ebb.err, exp_err)
        check(port.writes == [b'QG\r'] and port.reads == 1, 'statusbyte io', line, port.reads)
    for exc_kind in EXC_KINDS:
        for script, write_exc in (([make_exc(exc_kind)], None),
                                  ([b'QG,01\r\n'], make_exc(exc_kind))):
            port = ScriptPort(script, write_exc)
            ebb = fresh(ebb3_serial.EBB3, port)
            try:
                got = ebb.query_statusbyte()
            except Exception as exc:        # pylint: disable=broad-except
                check(False, 'raised', exc, exc_kind)
            check(got is None, 'statusbyte exc value', got)
            check(ebb.err == 'USB communication error after status byte query', ebb.err)
            check(port.writes == [b'QG\r'] and port.reads == (0 if write_exc else 1), exc_kind)


if __name__ == '__main__':
    part5()
    part1()
    part2()
    part3()
    part4()
    print('C05 demo OK: %d checks' % CHECKS[0])
    sys.exit(0)
