import os, sys; sys.path.insert(0, os.environ.get('PLOTINK_ROOT', '/tmp/wte_C09'))
"""
Demo / check for property C09 (vertex reduction keeps the path within tolerance).

Independent oracle: exact rational arithmetic (fractions.Fraction) with a
clamped-projection formulation of the point-to-segment distance, which shares no
code and no formula layout with plotink.plot_utils.

Checks
  A. points_in_tolerance == (exact max distance < tolerance)      (grid exhaustive + random floats)
  B. points_in_tolerance == (max_dist_from_n_points(...) < tol)   (fast predicate vs reference)
  C. max_dist_from_n_points == sqrt(exact max squared distance)
  D. supersample: identity subsequence, first/last kept, every deleted vertex closer
     than tol to the segment of its surviving neighbours, and the result equals that of
     an exact-arithmetic model of the documented greedy algorithm
  E. <= 2 vertices and non-positive tolerances leave the list untouched
  F. degenerate inputs: repeated points, collinear runs, zero-length closing segments,
     sharp reversals, infinite coordinates, tuple inputs, argument non-mutation, assertions
"""
import copy
import itertools
import math
import random
from fractions import Fraction

from plotink import plot_utils

REL_SLACK = Fraction(1, 10**9)
CHECKS = 0


class NearBoundary(Exception):
    """ The exact distance is so close to the tolerance that float rounding may decide. """


def check(cond, *msg):
    global CHECKS
    CHECKS += 1
    if not cond:
        print("FAIL:", *msg)
        sys.exit(1)


# ---------------------------------------------------------------- exact oracle
def dist2_exact(point, seg_a, seg_b):
    """ exact squared distance from point to segment [seg_a, seg_b] (clamped projection) """
    p_x, p_y = Fraction(point[0]), Fraction(point[1])
    a_x, a_y = Fraction(seg_a[0]), Fraction(seg_a[1])
    b_x, b_y = Fraction(seg_b[0]), Fraction(seg_b[1])
    d_x, d_y = b_x - a_x, b_y - a_y
    length2 = d_x * d_x + d_y * d_y
    if length2 == 0:
        c_x, c_y = a_x, a_y
    else:
        param = ((p_x - a_x) * d_x + (p_y - a_y) * d_y) / length2
        param = min(max(param, Fraction(0)), Fraction(1))
        c_x, c_y = a_x + param * d_x, a_y + param * d_y
    return (p_x - c_x) ** 2 + (p_y - c_y) ** 2


def max_dist2_exact(points):
    return max(dist2_exact(p, points[0], points[-1]) for p in points[1:-1])


def within_exact(points, tol):
    """ True iff every interior point is strictly closer than tol; NearBoundary if undecidable """
    if tol == math.inf:
        return True
    tol2 = Fraction(tol) ** 2
    result = True
    for point in points[1:-1]:
        d_2 = dist2_exact(point, points[0], points[-1])
        if d_2 != tol2 and abs(d_2 - tol2) <= REL_SLACK * tol2:
            raise NearBoundary()
        if d_2 >= tol2:
            result = False
    return result


def model_supersample(vertices, tol):
    """ exact-arithmetic model of the documented greedy algorithm; returns a new list """
    out = list(vertices)
    if len(out) <= 2 or tol <= 0:
        return out
    start = 0
    while start < len(out) - 2:
        end = start + 2  # candidate run is (start, end) exclusive
        while end < len(out) and within_exact(out[start:end + 1], tol):
            end += 1
        # `end` is the first end vertex for which the run is out of tolerance (or len)
        del out[start + 1:end - 1]
        start += 1
    return out


# ---------------------------------------------------------------- property check for supersample
def check_supersample(original, tol, label, exact_model=True):
    work = list(original)  # same vertex objects
    snapshot = copy.deepcopy(original)
    retval = plot_utils.supersample(work, tol)
    check(retval is None, label, "supersample must return None")
    check(original == snapshot, label, "vertex objects were modified")

    # in-order subsequence, by identity
    kept = []
    pos = 0
    for vertex in work:
        while pos < len(original) and original[pos] is not vertex:
            pos += 1
        check(pos < len(original), label, "result is not an identity subsequence", original, work)
        kept.append(pos)
        pos += 1
    if original:
        check(kept and kept[0] == 0 and kept[-1] == len(original) - 1,
              label, "first/last vertex not kept", original, tol, work)
    if len(original) <= 2 or tol <= 0:
        check(kept == list(range(len(original))), label, "list must be unchanged", original, tol)
        return work

    # every deleted vertex is closer than tol to the segment of its surviving neighbours
    tol2 = Fraction(tol) ** 2 if tol != math.inf else None
    for left, right in zip(kept, kept[1:]):
        for idx in range(left + 1, right):
            d_2 = dist2_exact(original[idx], original[left], original[right])
            check(tol2 is None or d_2 < tol2 * (1 + REL_SLACK), label, "deleted vertex out of tolerance",
                  original, tol, work, idx)

    if exact_model:
        try:
            expected = model_supersample(original, tol)
        except NearBoundary:
            return None
        check(len(expected) == len(work) and all(a is b for a, b in zip(expected, work)),
              label, "differs from greedy model", original, tol, work, expected)
    return work


def check_predicates(points, tol, label):
    snapshot = copy.deepcopy(points)
    fast = plot_utils.points_in_tolerance(points, tol)
    reference = plot_utils.max_dist_from_n_points(points)
    check(points == snapshot, label, "input_points mutated")
    check(fast is True or fast is False, label, "predicate must return a bool")
    exact2 = max_dist2_exact(points)
    # C: reference measurement is the exact max distance (up to float rounding)
    check(math.isclose(reference, math.sqrt(exact2), rel_tol=1e-12, abs_tol=1e-300),
          label, "max_dist_from_n_points wrong", points, reference, float(exact2))
    try:
        expected = within_exact(points, tol)
    except NearBoundary:
        return False
    # A: predicate vs exact oracle
    check(fast == expected, label, "points_in_tolerance wrong", points, tol, fast)
    # B: predicate vs reference measurement
    check(fast == (reference < tol), label, "predicate disagrees with reference", points, tol)
    return True


# ---------------------------------------------------------------- 1. exhaustive small grids
GRID_TOLS = [0.25, 0.5, 1, 1.0, 1.5, 2, 2.5, 3, 5, 1e9]
grid3 = [(x, y) for x in range(3) for y in range(3)]
for n_pts in (3, 4):
    for number, combo in enumerate(itertools.product(grid3, repeat=n_pts)):
        if n_pts == 4 and number % 7:   # every 7th 4-point list (7 is coprime to 9)
            continue
        pts = [list(p) for p in combo]
        for tol in (0.5, 1, 1.5, 2, 2.5):
            check_predicates(pts, tol, "grid-pred")
        for tol in (0.5, 1, 2):
            check_supersample(pts, tol, "grid-super")

# exact boundaries: distance == tolerance must NOT be in tolerance (strict <)
check(plot_utils.points_in_tolerance([(0, 0), (3, 4), (0, 0)], 5) is False, "3-4-5 boundary")
check(plot_utils.points_in_tolerance([(0, 0), (3, 4), (0, 0)], 5.000001) is True, "3-4-5 inside")
check(plot_utils.points_in_tolerance([(0, 0), (2, 1), (4, 0)], 1) is False, "perp boundary")
check(plot_utils.points_in_tolerance([(0, 0), (2, 1), (4, 0)], 1.0000001) is True, "perp inside")
check(plot_utils.points_in_tolerance([(0, 0), (7, 4), (4, 0)], 5) is False, "beyond-end boundary")
check(plot_utils.points_in_tolerance([(0, 0), (7, 4), (4, 0)], 5.0000001) is True, "beyond-end in")
check(plot_utils.points_in_tolerance([(0, 0), (-3, -4), (4, 0)], 5) is False, "before-start bnd")
check(plot_utils.points_in_tolerance([(0, 0), (-3, -4), (4, 0)], 5.0000001) is True, "before-start")
check(plot_utils.max_dist_from_n_points([(0, 0), (3, 4), (0, 0)]) == 5, "maxdist 5")
check(plot_utils.max_dist_from_n_points([(0, 0), (2, 1), (7, 4), (-3, -4), (4, 0)]) == 5, "maxdist")
check(plot_utils.max_dist_from_n_points(((0, 0), (1, 7), (2, 0))) == 7, "maxdist tuple input")

# ---------------------------------------------------------------- 2. random integer grids, longer lists
rng = random.Random(90909)
for _ in range(600):
    n_pts = rng.randint(0, 14)
    size = rng.choice([1, 2, 4, 8])
    pts = [[rng.randint(0, size), rng.randint(0, size)] for _ in range(n_pts)]
    style = rng.random()
    if style < 0.2 and n_pts >= 2:      # zero-length closing segment
        pts[-1] = list(pts[0])
    elif style < 0.4 and n_pts >= 4:    # collinear run with sharp reversal
        pts = [[i if i < n_pts // 2 else n_pts - i, 0] for i in range(n_pts)]
    elif style < 0.5 and n_pts >= 3:    # repeated points
        pts = [list(pts[rng.randint(0, 1)]) for _ in range(n_pts)]
    tol = rng.choice(GRID_TOLS)
    check_supersample(pts, tol, "rand-grid-super")
    if n_pts >= 3:
        check_predicates(pts, tol, "rand-grid-pred")

# ---------------------------------------------------------------- 3. random floats
decided = 0
for _ in range(500):
    n_pts = rng.randint(3, 9)
    scale = rng.choice([1e-3, 1.0, 37.5, 1e4])
    pts = [(rng.uniform(-scale, scale), rng.uniform(-scale, scale)) for _ in range(n_pts)]
    if rng.random() < 0.3:   # nearly collinear wiggle along a line
        pts = [(i * scale, rng.uniform(-1, 1) * scale * 0.01) for i in range(n_pts)]
    if rng.random() < 0.15:
        pts[-1] = pts[0]
    true_d = math.sqrt(max_dist2_exact(pts))
    tol = rng.choice([true_d * 0.999, true_d * 1.001, true_d * 0.5, true_d * 2 + 1e-12,
                      scale * 0.01, scale * 0.3, scale * 3])
    if tol <= 0:
        tol = scale
    decided += check_predicates(pts, tol, "float-pred")
    model_ok = check_supersample([tuple(p) for p in pts], tol, "float-super") is not None
check(decided > 450, "too many float cases undecided", decided)

# smooth curves: a finely sampled circle and a sine wave
circle = [(math.cos(2 * math.pi * i / 90) * 10, math.sin(2 * math.pi * i / 90) * 10)
          for i in range(91)]
for tol in (0.001, 0.1, 1, 25):
    res = check_supersample(list(circle), tol, "circle")
    check(res is None or 2 <= len(res) <= len(circle), "circle len")
sine = [(i * 0.1, math.sin(i * 0.1)) for i in range(100)]
sizes = []
for tol in (0.0005, 0.005, 0.05, 0.5, 3):
    res = check_supersample(list(sine), tol, "sine")
    if res is not None:
        sizes.append(len(res))
check(sizes == sorted(sizes, reverse=True) and sizes[-1] == 2, "sine sizes", sizes)

# ---------------------------------------------------------------- 4. untouched cases
for pts in ([], [[0, 0]], [[0, 0], [5, 5]], [[1, 1], [1, 1]]):
    for tol in (-1, 0, 0.0, -0.0, 1, 100, float("inf"), float("-inf")):
        check_supersample(pts, tol, "short-list")
line = [[i, 0] for i in range(10)]
for tol in (0, 0.0, -0.0, -1, -1e-300, float("-inf")):
    out = check_supersample(line, tol, "nonpositive-tol")
    check(len(out) == 10, "non-positive tolerance must not delete")
# <= 2 vertices: returns before ever looking at the tolerance
check(plot_utils.supersample([[0, 0], [1, 1]], None) is None, "short list, tolerance unused")

# ---------------------------------------------------------------- 5. documented examples / degenerate shapes
def run(vertices, tol):
    work = [list(v) for v in vertices]
    check_supersample(work, tol, "example")
    work2 = list(work)
    plot_utils.supersample(work2, tol)
    return [tuple(v) for v in work2]

check(run([(0, 0), (1, 0), (2, 0), (3, 0), (4, 0)], 0.1) == [(0, 0), (4, 0)], "collinear run")
check(run([(0, 0), (1, 0), (2, 0), (3, 0), (4, 0)], float("inf")) == [(0, 0), (4, 0)], "inf tol")
check(run([(0, 0), (5, 0), (0, 0)], 1) == [(0, 0), (5, 0), (0, 0)], "sharp reversal kept")
check(run([(0, 0), (5, 0), (0, 0)], 5.5) == [(0, 0), (0, 0)], "sharp reversal collapses")
check(run([(0, 0), (5, 0), (0, 0)], 5) == [(0, 0), (5, 0), (0, 0)], "reversal at boundary kept")
check(run([(0, 0), (1, 0), (1, 1), (0, 1), (0, 0)], 0.5)
      == [(0, 0), (1, 0), (1, 1), (0, 1), (0, 0)], "closed square kept")
check(run([(0, 0), (1, 0), (1, 1), (0, 1), (0, 0)], 1.5) == [(0, 0), (0, 0)], "closed square gone")
check(run([(0, 0), (0, 0), (0, 0), (0, 0)], 1e-9) == [(0, 0), (0, 0)], "all repeated")
check(run([(0, 0), (1, 0.01), (2, 0), (2, 5), (2.01, 6), (2, 7), (9, 7)], 0.1)
      == [(0, 0), (2, 0), (2, 7), (9, 7)], "groups")
check(run([(0, 0), (1, 0), (2, 0), (3, 3), (4, 0), (5, 0), (6, 0)], 0.5)
      == [(0, 0), (2, 0), (3, 3), (4, 0), (6, 0)], "spike in the middle")
# greedy: run stops at the first end vertex that breaks tolerance, later vertices are retried
check(run([(0, 0), (1, 0), (2, 2), (3, 0), (4, 0), (5, 0)], 0.25)
      == [(0, 0), (1, 0), (2, 2), (3, 0), (5, 0)], "greedy restart")
# last vertex reached while run still within tolerance: everything in between goes
check(run([(0, 5), (0, 0), (1, 0.1), (2, 0), (3, 0.1), (4, 0)], 0.2)
      == [(0, 5), (0, 0), (4, 0)], "run reaches the end")

# ---------------------------------------------------------------- 6. misc contract details
INF = float("inf")
check(plot_utils.points_in_tolerance([(0, 0), (INF, 0), (0, 0)], 1) is False, "inf pt, zero seg")
check(plot_utils.points_in_tolerance([(0, 0), (INF, 0), (1, 0)], 1) is False, "inf pt")
check(plot_utils.points_in_tolerance([(0, 0), (1, 0), (1, 0), (0, 0)], INF) is True, "inf tol")
check(plot_utils.points_in_tolerance(((0, 0), (1, 1), (2, 2), (3, 3)), 1e-6) is True, "tuple in")
check(plot_utils.points_in_tolerance(((0, 0), (1, 1), (2, 5), (3, 3)), 1) is False, "tuple in 2")
# segment so short that its squared length underflows to zero
check(plot_utils.points_in_tolerance([(0, 0), (1, 0), (1e-200, 0)], 2) is True, "underflow in")
check(plot_utils.points_in_tolerance([(0, 0), (1, 0), (1e-200, 0)], 0.5) is False, "underflow out")
check(plot_utils.points_in_tolerance([(0, 0), (-1, 0), (1e-200, 0)], 0.5) is False, "underflow 2")
# first failing point decides; later points irrelevant
check(plot_utils.points_in_tolerance([(0, 0), (1, 9), (2, 0), (3, 0)], 1) is False, "first fails")
check(plot_utils.points_in_tolerance([(0, 0), (1, 0), (2, 9), (3, 0)], 1) is False, "later fails")
for func, args in ((plot_utils.points_in_tolerance, ([(0, 0), (1, 1)], 1)),
                   (plot_utils.points_in_tolerance, ([], 1)),
                   (plot_utils.max_dist_from_n_points, ([(0, 0), (1, 1)],)),
                   (plot_utils.max_dist_from_n_points, ([],))):
    if __debug__:
        try:
            func(*args)
            check(False, "assertion expected for < 3 points")
        except AssertionError:
            check(True)
# vertices with != 2 coordinates are rejected by the fast predicate
try:
    plot_utils.points_in_tolerance([(0, 0, 0), (1, 1, 1), (2, 2, 2)], 1)
    check(False, "3-d points must be rejected")
except ValueError:
    check(True)
# cubic subdivision is built on the predicate: flat curve untouched, curved one subdivided
flat_path = [[(0, 0), (0, 0), (1, 0)], [(2, 0), (3, 0), (3, 0)]]
plot_utils.subdivideCubicPath(flat_path, 0.1)
check(len(flat_path) == 2, "flat bezier untouched")
curved = [[(0, 0), (0, 0), (0, 10)], [(10, 10), (10, 0), (10, 0)]]
plot_utils.subdivideCubicPath(curved, 0.1)
check(len(curved) > 2, "curved bezier subdivided")

print("C09 demo OK: %d checks" % CHECKS)
sys.exit(0)
