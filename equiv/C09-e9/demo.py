import os, sys; sys.path.insert(0, os.environ.get('PLOTINK_ROOT', '/tmp/e3_C09'))
"""
Property C09 demo: vertex reduction (plot_utils.supersample) only deletes vertices, keeps
first/last, keeps every deleted vertex closer than the tolerance to the segment joining the
surviving vertices around it; short lists / non-positive tolerances are untouched; the fast
predicate points_in_tolerance agrees with the reference max_dist_from_n_points.

Oracle: exact rational geometry (fractions.Fraction, clamped-parameter closest point) and a
model of the documented greedy procedure built on that oracle.  Inputs on a dyadic grid are
used where exact agreement is demanded (all float operations of the library are then exact
or monotonically rounded far away from the threshold); free floating point inputs are checked
with a small slack.
"""
import copy
import itertools
import math
import random
from fractions import Fraction
from functools import lru_cache

from plotink import plot_utils

FAILURES = []
CHECKS = [0]


def check(cond, msg):
    CHECKS[0] += 1
    if not cond:
        if len(FAILURES) < 20:
            FAILURES.append(msg)


# ------------------------------------------------------------------ exact oracle

@lru_cache(maxsize=None)
def exact_dist_sq(p, a, b):
    """ Exact squared distance from point p to the closed segment a-b (all 2-tuples). """
    px, py = Fraction(p[0]), Fraction(p[1])
    ax, ay = Fraction(a[0]), Fraction(a[1])
    bx, by = Fraction(b[0]), Fraction(b[1])
    dx, dy = bx - ax, by - ay
    len2 = dx * dx + dy * dy
    if len2 == 0:
        t = Fraction(0)
    else:
        t = ((px - ax) * dx + (py - ay) * dy) / len2
        t = min(Fraction(1), max(Fraction(0), t))
    cx, cy = ax + t * dx, ay + t * dy
    return (px - cx) ** 2 + (py - cy) ** 2


def key(vertex):
    return (vertex[0], vertex[1])


def exact_window_ok(window, tol):
    """ every interior vertex of window strictly closer than tol to segment first-last """
    a, b = key(window[0]), key(window[-1])
    tol2 = Fraction(tol) ** 2
    return all(exact_dist_sq(key(p), a, b) < tol2 for p in window[1:-1])


def model_survivors(verts, tol, window_ok):
    """ Indices kept by the documented greedy procedure (docstring of supersample). """
    n = len(verts)
    if n <= 2 or tol <= 0:
        return list(range(n))
    keep = [0]
    anchor = 0
    while anchor < n - 2:
        end = anchor + 2
        while end < n and window_ok(verts[anchor:end + 1], tol):
            end += 1
        anchor = end - 1  # last vertex for which the whole run was acceptable (or anchor + 1)
        keep.append(anchor)
    keep.extend(range(anchor + 1, n))
    return keep


# ------------------------------------------------------------------ property checks

def run_supersample(verts, tol):
    """ Run the library on a fresh list holding the *same* vertex objects. """
    work = list(verts)
    ids_before = [id(v) for v in work]
    values_before = [list(v) for v in work]
    result = plot_utils.supersample(work, tol)
    check(result is None, "supersample must return None (in-place), got %r" % (result,))
    check(all(list(v) == list(w) for v, w in zip(verts, values_before)),
          "vertex objects were modified %r" % (verts,))
    return work, ids_before


def subsequence_indices(work, verts):
    """ Map the result back to indices in verts by identity, in order; None if impossible. """
    idx = []
    pos = 0
    for item in work:
        while pos < len(verts) and verts[pos] is not item:
            pos += 1
        if pos == len(verts):
            return None
        idx.append(pos)
        pos += 1
    return idx


def check_property(verts, tol, exact=True, label=""):
    work, _ = run_supersample(verts, tol)
    n = len(verts)
    tag = "%s verts=%r tol=%r -> %r" % (label, verts, tol, work)

    idx = subsequence_indices(work, verts)
    check(idx is not None, "not an in-order subsequence of the same objects: " + tag)
    if idx is None:
        return None

    if n <= 2 or tol <= 0:
        check(idx == list(range(n)), "short list / non-positive tolerance changed: " + tag)
        return idx

    check(idx[0] == 0 and idx[-1] == n - 1, "first/last vertex not kept: " + tag)
    check(len(idx) >= 2, "fewer than two survivors: " + tag)

    # every deleted vertex is closer than tol to the segment joining its surviving neighbours
    for left, right in zip(idx, idx[1:]):
        a, b = key(verts[left]), key(verts[right])
        for j in range(left + 1, right):
            d2 = exact_dist_sq(key(verts[j]), a, b)
            if exact:
                ok = d2 < Fraction(tol) ** 2
            else:
                ok = math.sqrt(float(d2)) < tol * (1 + 1e-9) + 1e-12
            check(ok, "deleted vertex %d is not within tolerance of (%d,%d): %s"
                  % (j, left, right, tag))

    if exact:
        expect = model_survivors(verts, tol, exact_window_ok)
        check(idx == expect, "survivors %r differ from documented greedy result %r: %s"
              % (idx, expect, tag))
    return idx


def check_predicate(points, tol, exact=True):
    snapshot = type(points)(type(v)(v) for v in points)
    got = plot_utils.points_in_tolerance(points, tol)
    check(points == snapshot, "points_in_tolerance mutated its input %r" % (snapshot,))
    check(got is True or got is False, "predicate must return a bool, got %r" % (got,))
    if exact:
        want = exact_window_ok(points, tol)
        check(got == want, "predicate %r != exact oracle %r for %r tol=%r"
              % (got, want, points, tol))
    reference = plot_utils.max_dist_from_n_points(points)
    check(points == snapshot, "max_dist_from_n_points mutated its input %r" % (snapshot,))
    # compare with the reference measurement except in a hair-thin band around the threshold
    if abs(reference - tol) > 1e-9 * max(1.0, abs(reference), abs(tol)):
        check(got == (reference < tol),
              "predicate %r disagrees with reference distance %r (tol %r) for %r"
              % (got, reference, tol, points))
    # reference measurement against exact geometry
    a, b = key(points[0]), key(points[-1])
    want_max = max(exact_dist_sq(key(p), a, b) for p in points[1:-1])
    check(math.isclose(reference, math.sqrt(float(want_max)), rel_tol=1e-9, abs_tol=1e-12),
          "reference distance %r != exact %r for %r" % (reference, float(want_max) ** .5, points))


# ------------------------------------------------------------------ inputs

TOLS_GRID = [0.125, 0.5, 1, 1.0, 1.5, 2, 2.75, 5, 100]
NONPOS_TOLS = [0, 0.0, -0.0, -1, -0.5, -1e300, float("-inf")]


def fresh(points, kind):
    """ distinct vertex objects, of the given container kind """
    if kind == "list":
        return [[p[0], p[1]] for p in points]
    return [tuple([p[0], p[1]]) for p in points]


def named_cases():
    cases = {
        "empty": [],
        "single": [(1, 1)],
        "pair": [(0, 0), (3, 4)],
        "pair_same": [(2, 2), (2, 2)],
        "triple_collinear": [(0, 0), (1, 0), (2, 0)],
        "triple_corner": [(0, 0), (0, 5), (5, 5)],
        "collinear_run": [(i, 0) for i in range(12)],
        "collinear_run_diag": [(i, i) for i in range(9)],
        "collinear_back_and_forth": [(0, 0), (4, 0), (1, 0), (6, 0), (2, 0), (8, 0)],
        "all_same": [(3, 3)] * 7,
        "repeats": [(0, 0), (0, 0), (1, 0), (1, 0), (1, 1), (1, 1), (0, 1), (0, 1)],
        "closed_square": [(0, 0), (4, 0), (4, 4), (0, 4), (0, 0)],
        "closed_triangle_small": [(0, 0), (1, 0), (0, 1), (0, 0)],
        "closed_then_more": [(0, 0), (2, 1), (0, 0), (5, 5), (6, 5), (7, 5)],
        "zero_length_closing": [(1, 1), (1, 2), (2, 2), (2, 1), (1, 1), (1, 1)],
        "sharp_reversal": [(0, 0), (10, 0), (0, 0.5), (10, 1), (0, 1.5), (10, 2)],
        "spike": [(0, 0), (5, 0), (5, 8), (5, 0), (10, 0)],
        "hairpin": [(0, 0), (8, 0), (8, 0.25), (0, 0.25)],
        "staircase": [(i // 2 + i % 2, i // 2) for i in range(14)],
        "zigzag": [(i, (i % 2) * 0.5) for i in range(15)],
        "slow_curve": [(i, (i * i) / 16) for i in range(12)],
        "beyond_end": [(0, 0), (9, 0), (3, 0), (4, 0)],
        "before_start": [(0, 0), (-3, 0), (-1, 1), (4, 0)],
        "negative_coords": [(-4, -4), (-3, -4.5), (-2, -4), (-1, -3.5), (0, -4)],
        "mixed_int_float": [(0, 0.0), (1.0, 0), (2, 0.5), (3.5, 0), (4, 0)],
    }
    return cases


def grid_random_cases(rng, count):
    for _ in range(count):
        n = rng.randint(0, 12)
        span = rng.choice([2, 3, 6, 20])
        step = rng.choice([1, 0.5, 0.25])
        pts = [(rng.randint(-span, span) * step, rng.randint(-span, span) * step)
               for _ in range(n)]
        if n >= 3 and rng.random() < 0.3:
            pts[-1] = pts[0]  # closed path: zero-length closing chord
        if n >= 4 and rng.random() < 0.3:
            k = rng.randrange(1, n)
            pts[k] = pts[k - 1]  # repeated point
        yield pts, rng.choice(TOLS_GRID)


def float_random_cases(rng, count):
    for _ in range(count):
        n = rng.randint(3, 40)
        mode = rng.random()
        if mode < 0.4:  # noisy line
            pts = [(i * 1.0 + rng.uniform(-.2, .2), rng.gauss(0, 0.3)) for i in range(n)]
        elif mode < 0.7:  # circle arc, possibly closed
            r = rng.uniform(1, 50)
            pts = [(r * math.cos(i * 0.2), r * math.sin(i * 0.2)) for i in range(n)]
            if rng.random() < 0.5:
                pts.append(pts[0])
        else:  # random walk with reversals
            x = y = 0.0
            pts = []
            for _i in range(n):
                x += rng.uniform(-3, 3)
                y += rng.uniform(-3, 3)
                pts.append((x, y))
        yield pts, rng.choice([1e-3, 0.01, 0.1, 0.5, 2.0, 10.0, rng.uniform(0.001, 5)])


# ------------------------------------------------------------------ main

def main():
    rng = random.Random(90909)

    # 1. named edge cases x tolerances x vertex container kinds
    for name, pts in named_cases().items():
        for kind in ("tuple", "list"):
            for tol in TOLS_GRID + NONPOS_TOLS:
                check_property(fresh(pts, kind), tol, exact=True, label=name)

    # 2. exhaustive: every path of length <= 4 on a 3x3 grid, and length 5 on a 2x3 grid
    grid9 = [(x, y) for x in range(3) for y in range(3)]
    for n in range(0, 5):
        for pts in itertools.product(grid9, repeat=n):
            for tol in ((0.5, 1, 1.5) if n < 4 else (1, 1.5)):
                check_property(fresh(pts, "tuple"), tol, exact=True, label="exh%d" % n)
    grid6 = [(x, y) for x in range(3) for y in range(2)]
    for pts in itertools.product(grid6, repeat=5):
        check_property(fresh(pts, "tuple"), 0.75, exact=True, label="exh5")
        check_property(fresh(pts, "tuple"), 1.25, exact=True, label="exh5")

    # 3. random paths on dyadic grids (exact agreement with the documented greedy result)
    for pts, tol in grid_random_cases(rng, 1500):
        check_property(fresh(pts, rng.choice(["tuple", "list"])), tol, exact=True, label="grid")
        check_property(fresh(pts, "tuple"), rng.choice(NONPOS_TOLS), exact=True, label="grid0")

    # 4. free floating point paths (property with slack)
    for pts, tol in float_random_cases(rng, 300):
        idx = check_property(fresh(pts, "tuple"), tol, exact=False, label="float")
        check(idx is not None and idx[0] == 0 and idx[-1] == len(pts) - 1, "float ends")

    # 5. infinite tolerance: everything between first and last goes
    for name, pts in named_cases().items():
        verts = fresh(pts, "tuple")
        work, _ = run_supersample(verts, float("inf"))
        if len(verts) <= 2:
            check(len(work) == len(verts) and all(a is b for a, b in zip(work, verts)),
                  "inf tol changed short list " + name)
        else:
            check(len(work) == 2 and work[0] is verts[0] and work[1] is verts[-1],
                  "inf tol should leave only the end points: %s -> %r" % (name, work))

    # 6. idempotence is NOT promised, but a second pass must again satisfy the property
    for pts, tol in grid_random_cases(rng, 200):
        verts = fresh(pts, "tuple")
        work, _ = run_supersample(verts, tol)
        check_property(work, tol, exact=True, label="second-pass")

    # 7. the predicate against the exact oracle and against the reference measurement
    for name, pts in named_cases().items():
        if len(pts) >= 3:
            for tol in TOLS_GRID:
                check_predicate(fresh(pts, "tuple"), tol)
                check_predicate(tuple(fresh(pts, "list")), tol)
                for width in range(3, min(len(pts), 6) + 1):
                    for start in range(0, len(pts) - width + 1):
                        check_predicate(fresh(pts[start:start + width], "tuple"), tol)
    for pts, tol in grid_random_cases(rng, 1500):
        if len(pts) >= 3:
            check_predicate(fresh(pts, "tuple"), tol)
    for pts, tol in float_random_cases(rng, 300):
        check_predicate(fresh(pts, "tuple"), tol, exact=False)
    for n in (3, 4):
        for pts in itertools.product(grid9, repeat=n):
            if n == 4 and (pts[0] > pts[3]):
                continue
            check_predicate(list(pts), 1, exact=True)
            check_predicate(list(pts), 1.5, exact=True)

    # 8. documented precondition of the predicate / reference
    if __debug__:
        for func in (lambda p: plot_utils.points_in_tolerance(p, 1.0),
                     plot_utils.max_dist_from_n_points):
            for short in ([], [(0, 0)], [(0, 0), (1, 1)]):
                try:
                    func(short)
                    check(False, "no AssertionError for %r" % (short,))
                except AssertionError:
                    check(True, "")

    # 9. the very same list object is edited, and only by deletion
    verts = fresh([(0, 0), (1, 0.01), (2, 0), (3, 5), (4, 0), (5, 0.01), (6, 0)], "list")
    alias = verts
    originals = list(verts)
    plot_utils.supersample(verts, 0.5)
    check(alias is verts and [id(v) for v in verts] ==
          [id(originals[i]) for i in (0, 2, 3, 4, 6)],
          "in-place edit of the worked example went wrong: %r" % (verts,))

    if FAILURES:
        print("C09 demo: %d checks, FAILURES:" % CHECKS[0])
        for line in FAILURES:
            print("  -", line[:600])
        return 1
    print("C09 demo: all %d checks passed" % CHECKS[0])
    return 0


if __name__ == "__main__":
    sys.exit(main())
