import os, sys; sys.path.insert(0, os.environ.get('PLOTINK_ROOT', '/tmp/wtf_C08'))
"""
Demo / evidence for property C08 (plotink.plot_utils.clip_segment & friends).

Two independent lines of evidence, both deterministic, no hardware:

 A. PROPERTY CHECK against an exact oracle.  The part of the segment inside the
    rectangle is computed with exact rational arithmetic (Liang-Barsky on
    fractions.Fraction).  The library's answer is then judged against it:
      - accepted  => both returned endpoints lie on the input segment and in
                     the rectangle (to tolerance), orientation kept, and the
                     returned piece covers the exact inside part;
      - accepted while the exact inside part is empty is tolerated only when
        the segment passes within tolerance of the rectangle (precision
        failsafe), rejected only if nothing is inside by more than tolerance;
      - never raises (no ZeroDivisionError), always terminates.
 B. DOCUMENTED-EXPECTATION CHECK: a frozen transcription of the published
    Cohen-Sutherland routine (region codes 1/2/4/8, one boundary per pass,
    failsafe after four clips) must agree bit-for-bit with the library,
    including object identity of the returned segment on trivial
    accept/reject, result types, and non-mutation of the inputs.
"""
import copy
import itertools
import math
import random
from fractions import Fraction

from plotink import plot_utils

FAILURES = []


def fail(msg):
    FAILURES.append(msg)
    if len(FAILURES) <= 25:
        print("FAIL:", msg)


# --------------------------------------------------------------------------
# Frozen transcription of the documented behaviour
# --------------------------------------------------------------------------

def ref_point_in_bounds(point, bounds, tolerance=1e-9):
    x, y = point
    [[x_min, y_min], [x_max, y_max]] = bounds
    if x < x_min - tolerance:
        return False
    if y < y_min - tolerance:
        return False
    if x > x_max + tolerance:
        return False
    if y > y_max + tolerance:
        return False
    return True


def ref_clip_code(x_in, y_in, x_min, x_max, y_min, y_max):
    code = 0
    if x_in < x_min:
        code = 1
    if x_in > x_max:
        code |= 2
    if y_in < y_min:
        code |= 4
    if y_in > y_max:
        code |= 8
    return code


def ref_clip_segment(segment, bounds):
    """Returns (accept, segment, clips_done, exit_kind)."""
    x_1, y_1 = segment[0][0], segment[0][1]
    x_2, y_2 = segment[1][0], segment[1][1]
    x_min, y_min = bounds[0][0], bounds[0][1]
    x_max, y_max = bounds[1][0], bounds[1][1]
    iterations = 0
    while True:
        code_1 = ref_clip_code(x_1, y_1, x_min, x_max, y_min, y_max)
        code_2 = ref_clip_code(x_2, y_2, x_min, x_max, y_min, y_max)
        if code_1 == 0 and code_2 == 0:
            return True, segment, iterations, 'accept'
        if code_1 & code_2:
            return False, segment, iterations, 'reject'
        if iterations > 3:
            return True, segment, iterations, 'failsafe'
        if code_1 != 0:
            code = code_1
        else:
            code = code_2
        if code & 1:
            x_new = x_min
            slope = (y_2 - y_1) / (x_2 - x_1)
            y_new = slope * (x_min - x_1) + y_1
        elif code & 2:
            x_new = x_max
            slope = (y_2 - y_1) / (x_2 - x_1)
            y_new = slope * (x_max - x_1) + y_1
        elif code & 4:
            y_new = y_min
            slope = (x_2 - x_1) / (y_2 - y_1)
            x_new = slope * (y_min - y_1) + x_1
        elif code & 8:
            y_new = y_max
            slope = (x_2 - x_1) / (y_2 - y_1)
            x_new = slope * (y_max - y_1) + x_1
        if code == code_1:
            x_1 = x_new
            y_1 = y_new
        else:
            x_2 = x_new
            y_2 = y_new
        segment = [[x_1, y_1], [x_2, y_2]]
        iterations += 1


# --------------------------------------------------------------------------
# Exact oracle
# --------------------------------------------------------------------------

def exact_inside_interval(segment, bounds):
    """Exact [t0, t1] (Fractions) of the parameter range of P(t)=P1+t(P2-P1),
    0<=t<=1, lying in the closed rectangle; None if empty."""
    (x_1, y_1), (x_2, y_2) = [[Fraction(c) for c in p] for p in segment]
    (x_min, y_min), (x_max, y_max) = [[Fraction(c) for c in p] for p in bounds]
    t_0, t_1 = Fraction(0), Fraction(1)
    for start, delta, low, high in ((x_1, x_2 - x_1, x_min, x_max),
                                    (y_1, y_2 - y_1, y_min, y_max)):
        if delta == 0:
            if start < low or start > high:
                return None
            continue
        t_a = (low - start) / delta
        t_b = (high - start) / delta
        if t_a > t_b:
            t_a, t_b = t_b, t_a
        t_0 = max(t_0, t_a)
        t_1 = min(t_1, t_b)
        if t_0 > t_1:
            return None
    return t_0, t_1


def exact_point(segment, t_par):
    (x_1, y_1), (x_2, y_2) = [[Fraction(c) for c in p] for p in segment]
    return x_1 + t_par * (x_2 - x_1), y_1 + t_par * (y_2 - y_1)


def exact_project(segment, point):
    """(t clamped to [0,1], max-norm distance from point to P(t)), exact."""
    (x_1, y_1), (x_2, y_2) = [[Fraction(c) for c in p] for p in segment]
    p_x, p_y = Fraction(point[0]), Fraction(point[1])
    d_x, d_y = x_2 - x_1, y_2 - y_1
    len_sq = d_x * d_x + d_y * d_y
    if len_sq == 0:
        t_par = Fraction(0)
    else:
        t_par = ((p_x - x_1) * d_x + (p_y - y_1) * d_y) / len_sq
        t_par = min(Fraction(1), max(Fraction(0), t_par))
    q_x, q_y = x_1 + t_par * d_x, y_1 + t_par * d_y
    return t_par, max(abs(q_x - p_x), abs(q_y - p_y))


def exact_rect_distance(point, bounds):
    """Max-norm distance from point to the closed rectangle (0 if inside)."""
    p_x, p_y = Fraction(point[0]), Fraction(point[1])
    (x_min, y_min), (x_max, y_max) = [[Fraction(c) for c in p] for p in bounds]
    return max(x_min - p_x, p_x - x_max, y_min - p_y, p_y - y_max, Fraction(0))


def scale_of(segment, bounds):
    return max(1e-300, max(abs(c) for p in (*segment, *bounds) for c in p))


REL_TOL = Fraction(1, 10 ** 9)    # "tiny relative to the coordinate scale"


def check_property(segment, bounds, accept, out, label):
    tol = REL_TOL * Fraction(scale_of(segment, bounds))
    inside = exact_inside_interval(segment, bounds)

    if not accept:
        # Rejection only when nothing is inside by more than the tolerance:
        # shrink the rectangle by tol and require an empty exact intersection.
        (x_min, y_min), (x_max, y_max) = bounds
        shrunk = [[Fraction(x_min) + tol, Fraction(y_min) + tol],
                  [Fraction(x_max) - tol, Fraction(y_max) - tol]]
        if shrunk[0][0] <= shrunk[1][0] and shrunk[0][1] <= shrunk[1][1]:
            if exact_inside_interval(segment, shrunk) is not None:
                fail("%s rejected although part is well inside: %r %r"
                     % (label, segment, bounds))
        elif inside is not None:
            # rectangle thinner than the tolerance: any inside part is a graze
            pass
        return

    # accepted
    t_out = []
    for k, point in enumerate(out):
        if not all(math.isfinite(c) for c in point):
            fail("%s non-finite output %r" % (label, out))
            return
        t_par, off = exact_project(segment, point)
        t_out.append(t_par)
        if off > tol:
            fail("%s endpoint %d not on input segment (off %g): %r %r -> %r"
                 % (label, k, float(off), segment, bounds, out))
        dist = exact_rect_distance(point, bounds)
        if dist > tol:
            fail("%s endpoint %d outside rectangle by %g: %r %r -> %r"
                 % (label, k, float(dist), segment, bounds, out))
        if not plot_utils.point_in_bounds(point, bounds, float(tol)):
            fail("%s point_in_bounds disagrees for endpoint %d: %r %r -> %r"
                 % (label, k, segment, bounds, out))

    if inside is None:
        # Only legitimate as a graze: the segment must come within tol of the
        # rectangle (already implied by the two checks above being satisfied).
        return

    t_0, t_1 = inside
    first = exact_point(segment, t_0)
    last = exact_point(segment, t_1)
    for k, (want, got) in enumerate(((first, out[0]), (last, out[1]))):
        gap = max(abs(want[0] - Fraction(got[0])), abs(want[1] - Fraction(got[1])))
        if gap > tol:
            fail("%s endpoint %d is not the %s end of the inside part (gap %g):"
                 " %r %r -> %r" % (label, k, ("first", "last")[k], float(gap),
                                   segment, bounds, out))
    # orientation (only meaningful when the inside part has real extent)
    if exact_project(segment, last)[0] - exact_project(segment, first)[0] > 0 and \
            max(abs(last[0] - first[0]), abs(last[1] - first[1])) > 4 * tol:
        if t_out[0] > t_out[1]:
            fail("%s orientation flipped: %r %r -> %r" % (label, segment, bounds, out))


# --------------------------------------------------------------------------
# Running one case through the library
# --------------------------------------------------------------------------

STATS = {'accept': 0, 'reject': 0, 'failsafe': 0, 'clips': [0, 0, 0, 0, 0]}


def same_number(a, b):
    return type(a) is type(b) and (a == b or (a != a and b != b)) and \
        (not isinstance(a, float) or math.copysign(1.0, a) == math.copysign(1.0, b))


def run_case(segment, bounds, label, oracle=True):
    seg_before = copy.deepcopy(segment)
    bounds_before = copy.deepcopy(bounds)
    want_accept, want_seg, clips, kind = ref_clip_segment(segment, bounds)
    STATS[kind] += 1
    STATS['clips'][clips] += 1
    try:
        result = plot_utils.clip_segment(segment, bounds)
    except Exception as exc:  # pylint: disable=broad-except
        fail("%s raised %r for %r %r" % (label, exc, segment, bounds))
        return
    if not (isinstance(result, tuple) and len(result) == 2):
        fail("%s result is not a 2-tuple: %r" % (label, result))
        return
    accept, out = result
    if segment != seg_before or bounds != bounds_before:
        fail("%s inputs were mutated: %r %r" % (label, seg_before, bounds_before))
    if type(accept) is not bool or accept != want_accept:
        fail("%s accept %r, documented %r for %r %r"
             % (label, accept, want_accept, segment, bounds))
    if clips == 0:
        if out is not segment:
            fail("%s untouched segment must be returned as the same object: %r %r"
                 % (label, segment, bounds))
    else:
        if out is segment:
            fail("%s clipped result aliases the input %r" % (label, segment))
        ok = (type(out) is list and len(out) == 2
              and all(type(p) is list and len(p) == 2 for p in out)
              and all(same_number(a, b) for p, q in zip(out, want_seg)
                      for a, b in zip(p, q)))
        if not ok:
            fail("%s result %r, documented %r for %r %r"
                 % (label, out, want_seg, segment, bounds))
    if oracle:
        check_property(segment, bounds, accept, out, label)


# --------------------------------------------------------------------------
# Case generators
# --------------------------------------------------------------------------

def lattice_cases():
    """All integer segments on a small lattice against several rectangles,
    including zero-width, zero-height and single-point rectangles.  Covers
    both-inside, one-inside, crossing one/two edges, through corners, grazing
    along an edge, zero-length, vertical and horizontal segments."""
    coords = range(-1, 5)
    rects = ([[0, 0], [3, 2]], [[1, 0], [1, 3]], [[0, 2], [3, 2]], [[2, 1], [2, 1]])
    for rect in rects:
        for x_1, y_1, x_2, y_2 in itertools.product(coords, repeat=4):
            yield [[x_1, y_1], [x_2, y_2]], [list(rect[0]), list(rect[1])]


def float_lattice_cases():
    coords = (-1.5, 0.0, 0.75, 2.0, 3.25)
    rect = [[0.0, 0.0], [2.0, 2.0]]
    for x_1, y_1, x_2, y_2 in itertools.product(coords, repeat=4):
        yield [[x_1, y_1], [x_2, y_2]], rect


def random_cases(rng, count):
    for _ in range(count):
        scale = 10.0 ** rng.choice((-6, -2, 0, 0, 1, 3, 8))
        x_a, x_b = sorted((rng.uniform(-1, 1) * scale, rng.uniform(-1, 1) * scale))
        y_a, y_b = sorted((rng.uniform(-1, 1) * scale, rng.uniform(-1, 1) * scale))
        style = rng.random()
        if style < 0.1:
            x_b = x_a                      # zero-width rectangle
        elif style < 0.2:
            y_b = y_a                      # zero-height rectangle
        spread = rng.choice((1.0, 1.5, 3.0))

        def coord():
            return rng.uniform(-spread, spread) * scale
        p_1 = [coord(), coord()]
        p_2 = [coord(), coord()]
        style = rng.random()
        if style < 0.1:
            p_2[0] = p_1[0]                # vertical
        elif style < 0.2:
            p_2[1] = p_1[1]                # horizontal
        elif style < 0.25:
            p_2 = list(p_1)                # zero length
        elif style < 0.35:
            p_1[0] = rng.choice((x_a, x_b))  # endpoint exactly on an edge line
        elif style < 0.45:
            p_2[1] = rng.choice((y_a, y_b))
        yield [p_1, p_2], [[x_a, y_a], [x_b, y_b]]


def corner_cases(rng, count):
    """Lines aimed (almost) exactly at the rectangle's corners: the regime in
    which rounding makes a vertex need re-clipping and the iteration failsafe
    is reached."""
    bounds = [[0.1, 0.3], [7.7, 5.3]]
    corners = [(0.1, 0.3), (7.7, 0.3), (0.1, 5.3), (7.7, 5.3)]
    for _ in range(count):
        c_a = rng.choice(corners)
        c_b = rng.choice(corners)
        d_x, d_y = rng.uniform(-1, 1), rng.uniform(-1, 1)
        s_par, t_par = rng.uniform(0.5, 20), rng.uniform(0.5, 20)
        p_1 = [c_a[0] - d_x * s_par, c_a[1] - d_y * s_par]
        if rng.random() < 0.5:
            p_2 = [c_a[0] + d_x * t_par, c_a[1] + d_y * t_par]
        else:
            p_2 = [c_b[0] + d_x * t_par, c_b[1] + d_y * t_par]
        yield [p_1, p_2], bounds


KNOWN_FAILSAFE = (
    [[0.4738828273333322, 2.5081133526557964], [-2.1118799142657156, -12.763134265877694]],
    [[6.417201333938013, 6.385455081089694], [-10.471746970391935, -9.883922898158094]],
    [[14.110953501197129, 14.741332142834874], [-1.0437917476950793, -0.878925940285713]],
    [[9.029658427991205, 4.966186824243726], [-9.812950815556103, -4.880005580048772]],
    [[2.778464477987193, 8.261494200357207], [-1.4183432471198547, -4.213138425184691]],
)


def grazing_cases():
    """Segments one ulp inside / on / one ulp outside each edge and corner."""
    bounds = [[1.0, 2.0], [3.0, 5.0]]
    def around(v):
        return (math.nextafter(v, -math.inf), v, math.nextafter(v, math.inf))
    xs = around(1.0) + around(3.0) + (0.0, 2.0, 4.0)
    ys = around(2.0) + around(5.0) + (1.0, 3.5, 6.0)
    for x_1 in xs:
        for y_1 in ys:
            for x_2, y_2 in ((x_1, 3.5), (2.0, y_1), (2.0, 3.5), (x_1, y_1),
                             (4.0, 6.0), (0.0, 1.0), (4.0, 1.0), (0.0, 6.0)):
                yield [[x_1, y_1], [x_2, y_2]], bounds
                yield [[x_2, y_2], [x_1, y_1]], bounds


# --------------------------------------------------------------------------
# clip_code / point_in_bounds
# --------------------------------------------------------------------------

def check_clip_code():
    values = (-2, -1, 0, 1, 2, 2.5, 3, 4, -0.0, 1e-300, -1e300, 1e300)
    limits = ((0, 3, 0, 2), (1, 1, 2, 2), (-1.0, 2.5, 0.0, 0.0), (0, 3, -2, 4))
    for x_min, x_max, y_min, y_max in limits:
        for x_in, y_in in itertools.product(values, repeat=2):
            got = plot_utils.clip_code(x_in, y_in, x_min, x_max, y_min, y_max)
            want = ref_clip_code(x_in, y_in, x_min, x_max, y_min, y_max)
            if type(got) is not int or got != want:
                fail("clip_code(%r) = %r (%s), documented %r"
                     % ((x_in, y_in, x_min, x_max, y_min, y_max), got,
                        type(got).__name__, want))
            # geometric meaning of the bits
            meaning = ((x_in < x_min) * 1 + (x_in > x_max) * 2
                       + (y_in < y_min) * 4 + (y_in > y_max) * 8)
            if got != meaning:
                fail("clip_code bits wrong for %r" % ((x_in, y_in),))
    # keyword calling convention
    if plot_utils.clip_code(x_in=-1, y_in=9, x_min=0, x_max=3, y_min=0, y_max=2) != 9:
        fail("clip_code keyword call")


def check_point_in_bounds():
    bounds = [[1.0, 2.0], [3.0, 5.0]]
    offsets = (-1.0, -1e-6, -2e-9, -1e-9, -5e-10, -1e-12, 0.0,
               1e-12, 5e-10, 1e-9, 2e-9, 1e-6, 1.0)
    probes = []
    for base_x in (1.0, 2.0, 3.0):
        for base_y in (2.0, 3.5, 5.0):
            for d_x, d_y in itertools.product(offsets, repeat=2):
                probes.append((base_x + d_x, base_y + d_y))
    for point in probes:
        for tol in (None, 0, 1e-13, 1e-9, 1e-3, 2.0):
            args = (list(point), bounds) if tol is None else (list(point), bounds, tol)
            got = plot_utils.point_in_bounds(*args)
            want = ref_point_in_bounds(*args)
            if type(got) is not bool or got != want:
                fail("point_in_bounds%r = %r, documented %r" % (args, got, want))
            eff = 1e-9 if tol is None else tol
            meaning = (1.0 - eff <= point[0] <= 3.0 + eff) and (2.0 - eff <= point[1] <= 5.0 + eff)
            if got != meaning:
                fail("point_in_bounds meaning wrong for %r tol %r" % (point, tol))
    # tuples, keyword tolerance, integer data
    if plot_utils.point_in_bounds((0, 0), ((0, 0), (0, 0)), tolerance=0) is not True:
        fail("point_in_bounds degenerate rectangle / tuples / keyword")
    if plot_utils.point_in_bounds((0, 1), ((0, 0), (0, 0)), tolerance=0) is not False:
        fail("point_in_bounds degenerate rectangle, outside")


# --------------------------------------------------------------------------

def main():
    rng = random.Random(20240808)
    check_clip_code()
    check_point_in_bounds()

    total = 0
    for seg, rect in lattice_cases():
        run_case(seg, rect, "lattice")
        total += 1
    for seg, rect in float_lattice_cases():
        run_case(seg, rect, "float-lattice")
        total += 1
    for seg, rect in grazing_cases():
        run_case(seg, rect, "grazing")
        total += 1
    for seg, rect in random_cases(rng, 4000):
        run_case(seg, rect, "random")
        total += 1
    for seg, rect in corner_cases(rng, 3000):
        run_case(seg, rect, "corner")
        total += 1
    for seg in KNOWN_FAILSAFE:
        run_case(copy.deepcopy(seg), [[0.1, 0.3], [7.7, 5.3]], "known-failsafe")
        total += 1
    # Many more cases judged against the documented routine only (cheap).
    for seg, rect in random_cases(rng, 20000):
        run_case(seg, rect, "random-ref", oracle=False)
        total += 1
    for seg, rect in corner_cases(rng, 30000):
        run_case(seg, rect, "corner-ref", oracle=False)
        total += 1
    # Tuples as input containers
    run_case(((-1.0, 1.0), (5.0, 1.5)), ((0.0, 0.0), (3.0, 2.0)), "tuples")
    total += 1

    print("cases: %d  accept/reject/failsafe exits: %d/%d/%d  clips histogram: %r"
          % (total, STATS['accept'], STATS['reject'], STATS['failsafe'], STATS['clips']))
    # The generators must really exercise every path, else the check is hollow.
    if STATS['failsafe'] < 5 or min(STATS['clips']) < 5:
        fail("test corpus does not reach all paths: %r" % (STATS,))
    if FAILURES:
        print("%d FAILURES" % len(FAILURES))
        return 1
    print("C08 demo: OK")
    return 0


if __name__ == '__main__':
    sys.exit(main())
