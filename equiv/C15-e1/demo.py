import os, sys; sys.path.insert(0, os.environ.get('PLOTINK_ROOT', '/tmp/wte_C15'))
# Property C15 check: firmware version gating uses numeric version order and
# blocks unsupported boards.  Independent oracle: integer-tuple comparison and
# a hand-written model of the identification handshake.  No hardware needed.
import itertools
import logging
import random

logging.disable(logging.CRITICAL)

import serial as pyserial                                   # noqa: E402
from packaging.version import InvalidVersion                 # noqa: E402
from plotink import ebb_serial, ebb3_serial, ebb_motion      # noqa: E402

ROOT = os.path.realpath(os.environ.get('PLOTINK_ROOT', '/tmp/wte_C15'))
for _mod in (ebb_serial, ebb3_serial, ebb_motion):
    assert os.path.realpath(_mod.__file__).startswith(ROOT + os.sep), _mod.__file__

CHECKS = [0]
FAILS = []


def check(cond, *what):
    CHECKS[0] += 1
    if not cond:
        FAILS.append(' '.join(str(w) for w in what))
        if len(FAILS) > 25:
            finish()


def finish():
    if FAILS:
        print("FAIL: %d of %d checks failed" % (len(FAILS), CHECKS[0]))
        for line in FAILS[:25]:
            print("   ", line)
        sys.exit(1)
    print("OK: %d checks passed" % CHECKS[0])
    sys.exit(0)


def vtuple(text):
    return tuple(int(p) for p in text.split('.'))


def banner(ver, pad=''):
    return ("EBBv13_and_above EB Firmware Version " + ver + pad + "\r\n").encode('ascii')


# --------------------------------------------------------------------------
# Part A.  Numeric ordering, both layers, same answers.
# --------------------------------------------------------------------------

class LegacyPort:
    """Fake port for the legacy (ebb_serial / ebb_motion) layer."""

    def __init__(self, version_reply, replies=None, fail_write=False):
        self.version_reply = version_reply      # bytes, or None for silence
        self.replies = replies or {}
        self.fail_write = fail_write
        self.writes = []
        self.queue = []

    def write(self, data):
        self.writes.append(data)
        if self.fail_write:
            raise pyserial.SerialException("write failed")
        self.queue = []
        if data == b'V\r':
            if self.version_reply is not None:
                self.queue.append(self.version_reply)
        elif data in self.replies:
            self.queue.extend(self.replies[data])
        else:
            self.queue.append(b'OK\r\n')

    def readline(self):
        if self.queue:
            return self.queue.pop(0)
        return b''

    def close(self):
        pass


COMPONENTS = [0, 1, 2, 5, 9, 10, 11, 99, 100]
TRIPLES = ['%d.%d.%d' % t for t in itertools.product(COMPONENTS, repeat=3)]

# A1: EBB3 layer, exhaustive over a reduced grid + the classic cases
ebb = ebb3_serial.EBB3()
GRID = ['%d.%d.%d' % t for t in itertools.product([0, 2, 3, 9, 10, 100], repeat=3)]
for have in GRID:
    ebb.parse_version(banner(have).decode('ascii').strip())
    check(ebb.version == have, "EBB3.version", have, ebb.version)
    have_t = vtuple(have)
    for need in GRID:
        got = ebb.min_version(need)
        check(got is (have_t >= vtuple(need)), "EBB3.min_version", have, need, got)

rng = random.Random(150915)
PAIRS = [("2.10.0", "2.9.9"), ("2.9.9", "2.10.0"), ("2.10.0", "2.10.0"),
         ("3.0.2", "3.0.2"), ("3.0.1", "3.0.2"), ("3.0.10", "3.0.2"),
         ("2.5.5", "2.5.5"), ("2.5.10", "2.5.5"), ("2.5.4", "2.5.5"),
         ("10.0.0", "9.99.99"), ("9.99.99", "10.0.0"), ("2.6.0", "2.5.99"),
         ("12.34.56", "12.34.57"), ("12.34.56", "12.34.56"), ("12.34.56", "12.4.100")]
PAIRS += [(rng.choice(TRIPLES), rng.choice(TRIPLES)) for _ in range(3000)]
for _ in range(1500):     # near-boundary pairs: differ in one component by one
    base = [rng.choice(COMPONENTS) for _ in range(3)]
    other = list(base)
    other[rng.randrange(3)] += rng.choice([-1, 1])
    if min(other) < 0:
        continue
    PAIRS.append(('%d.%d.%d' % tuple(base), '%d.%d.%d' % tuple(other)))

# A2: legacy layer and EBB3 layer agree with the oracle and with each other
for have, need in PAIRS:
    expect = vtuple(have) >= vtuple(need)
    pad = rng.choice(['', ' ', '  '])
    port = LegacyPort(banner(have, pad))
    got_legacy = ebb_serial.min_version(port, need)
    check(got_legacy is expect, "ebb_serial.min_version", have, need, got_legacy)
    check(port.writes == [b'V\r'], "legacy min_version writes", port.writes)
    ebb = ebb3_serial.EBB3()
    ebb.parse_version(banner(have, pad).decode('ascii').strip())
    got3 = ebb.min_version(need)
    check(got3 is expect, "EBB3.min_version(pair)", have, need, got3)
    check(got3 is got_legacy, "layers differ", have, need, got3, got_legacy)
    check(ebb.version == have and str(ebb.version_parsed) == have,
          "EBB3 stored version", have, ebb.version, ebb.version_parsed)

# A3: corner cases of the comparison functions
check(ebb_serial.min_version(None, "2.5.5") is None, "legacy None port")
for reply in (None, b'', b'\r\n', b'Hello there\r\n', b'EBB\r\n', b'!8 Err: Unknown command\r\n',
              b'EBB Firmware Version\r\n'):
    port = LegacyPort(reply)
    check(ebb_serial.min_version(port, "2.5.5") is None, "legacy unreadable version", reply)
    check(set(port.writes) == {b'V\r'} and len(port.writes) == 1, "legacy unreadable writes", port.writes)
port = LegacyPort(banner("2.6.0"), fail_write=True)
check(ebb_serial.min_version(port, "2.5.5") is None, "legacy raising port")
# version text is whatever follows the FIRST marker
port = LegacyPort(b"EBB Firmware Version 2.7.0\r\n")
check(ebb_serial.min_version(port, "2.7.0") is True, "legacy simple banner")
try:
    ebb_serial.min_version(LegacyPort(banner("2.6.0")), "not a version")
    check(False, "legacy invalid threshold should raise InvalidVersion")
except InvalidVersion:
    check(True)
try:
    ebb_serial.min_version(LegacyPort(b"EBB Firmware Version 1.0 Firmware Version 2.0\r\n"), "1.0")
    check(False, "legacy doubled marker should raise InvalidVersion")
except InvalidVersion:
    check(True)

ebb = ebb3_serial.EBB3()
check(ebb.min_version("3.0.2") is False, "EBB3 unknown version -> False")
check(ebb.min_version("garbage!") is None, "EBB3 bad threshold, unknown version -> None")
ebb.parse_version("EBBv13 Firmware Version 3.0.2")
check(ebb.min_version("garbage!") is None, "EBB3 bad threshold -> None")
check(ebb.min_version("3.0.2") is True, "EBB3 equal")
for junk in ("", "EBB", "Some device", "EBB Firmware Version", "EBB firmware version 3.0.2"):
    ebb.parse_version("EBBv13 Firmware Version 3.0.2")
    ebb.parse_version(junk)   # forgets the earlier version
    check(ebb.version is None and ebb.version_parsed is None, "EBB3 forget version", junk)
    check(ebb.min_version("0.0.0") is False, "EBB3 junk -> False", junk)
ebb.parse_version("EBB Firmware Version   3.1.4  ")
check(ebb.version == "3.1.4" and ebb.min_version("3.1.4") is True and ebb.min_version("3.1.5") is False,
      "EBB3 strip")
try:
    ebb.parse_version("EBB Firmware Version 1.0 Firmware Version 2.0")
    check(False, "EBB3 doubled marker should raise InvalidVersion")
except InvalidVersion:
    check(True)
# text is stored first, then parsed: the raw text is kept, the parsed value is the previous one
check(ebb.version == "1.0 Firmware Version 2.0", "EBB3 raw version after bad number", ebb.version)
check(str(ebb.version_parsed) == "3.1.4", "EBB3 parsed version after bad number", ebb.version_parsed)


# --------------------------------------------------------------------------
# Part B.  EBB3.connect handshake: full event-log model
# --------------------------------------------------------------------------

PORT = "/dev/ttyFAKE0"
V_PROBE = b'v\r'
NICK = "Gertrude"


class Raise:
    def __init__(self, when):
        self.when = when        # 'write' or 'read'

    def __repr__(self):
        return "Raise(%s)" % self.when


class Ebb3Port:
    def __init__(self, log, script):
        self.log = log
        self.script = list(script)   # one entry per version probe
        self.queue = []
        self.closed = False

    def reset_input_buffer(self):
        self.log.append('reset')
        self.queue = []

    def write(self, data):
        self.log.append(('write', data))
        assert not self.closed
        if data == V_PROBE:
            item = self.script.pop(0) if self.script else b''
            if isinstance(item, Raise):
                if item.when == 'write':
                    raise pyserial.SerialException("write failed")
                self.queue.append(item)
            elif item:
                self.queue.append(item)
        elif data == b'CU,10,1\r':
            self.queue.append(b'OK\r\n')
        elif data == b'QT\r':
            self.queue.append(('QT,' + NICK + '\r\n').encode('ascii'))
        else:
            self.queue.append(b'!8 Err: Unknown command\r\n')

    def readline(self):
        self.log.append('readline')
        assert not self.closed
        if not self.queue:
            return b''
        item = self.queue.pop(0)
        if isinstance(item, Raise):
            raise pyserial.SerialException("read failed")
        return item

    def close(self):
        self.log.append('close')
        self.closed = True


class Harness:
    """Installs a fake serial.Serial and fake comports for the duration."""

    def __init__(self, script, open_raises=False, ports=None):
        self.log = []
        self.script = script
        self.open_raises = open_raises
        self.ports = ports if ports is not None else [(PORT, "EiBotBoard", "USB VID:PID=04D8:FD92")]
        self.made = []

    def _serial(self, *args, **kwargs):
        self.log.append(('open', args, tuple(sorted(kwargs.items()))))
        if self.open_raises:
            raise pyserial.SerialException("could not open port")
        port = Ebb3Port(self.log, self.script)
        self.made.append(port)
        return port

    def __enter__(self):
        self.saved = (pyserial.Serial, ebb3_serial.comports)
        pyserial.Serial = self._serial
        ebb3_serial.comports = lambda: list(self.ports)
        return self

    def __exit__(self, *exc):
        pyserial.Serial, ebb3_serial.comports = self.saved
        return False


OPEN_EVT = ('open', (PORT,), (('timeout', 1.0),))


def model(open_raises, script):
    """Independent model.  Returns dict of expected observations."""
    log = [OPEN_EVT]
    if open_raises:
        return dict(ret=False, log=log, err="Error testing USB connection", port_open=False,
                    version=None, name=None)
    log.append('reset')
    banner_text = None
    for attempt in range(2):
        reply = script[attempt] if attempt < len(script) else b''
        log.append(('write', V_PROBE))
        if isinstance(reply, Raise):
            if reply.when == 'read':
                log.append('readline')
            log.append('close')
            return dict(ret=False, log=log, err="Error testing USB connection", port_open=False,
                        version=None, name=None)
        log.append('readline')
        text = reply.decode('ascii').strip()
        if "EBB" in text:
            banner_text = text
            break
    if banner_text is None:
        log.append('close')
        return dict(ret=False, log=log, err="Failed to connect via USB", port_open=False,
                    version=None, name=None)
    marker = "Firmware Version "
    version = None
    if marker in banner_text:
        version = banner_text[banner_text.index(marker) + len(marker):].strip()
    if version is None or vtuple(version) < (3, 0, 2):
        # Refused: nothing more is sent.
        return dict(ret=False, log=log, err="not supported", port_open=True,
                    version=version, name=None)
    log += [('write', b'CU,10,1\r'), 'readline', 'reset', ('write', b'QT\r'), 'readline']
    return dict(ret=True, log=log, err=None, port_open=True, version=version, name=NICK)


GOOD = ["3.0.2", "3.0.10", "3.1.0", "3.10.0", "4.0.0", "10.0.0", "3.0.100", "12.34.56"]
OLD = ["3.0.1", "3.0.0", "2.10.0", "2.9.9", "2.99.99", "0.0.0", "1.100.100", "2.8.1"]
REPLIES = [banner(v) for v in GOOD] + [banner(v) for v in OLD] + [
    banner("3.0.2", "   "),
    b'',                                          # silent
    b'\r\n',                                      # blank line
    b'Some other gadget v1.2\r\n',                # non-EBB
    b'Acme Firmware Version 9.9.9\r\n',           # non-EBB with a version
    b'ebb Firmware Version 9.9.9\r\n',            # wrong case: not an EBB
    b'EBB\r\n',                                   # EBB without version text
    b'EBBv13 firmware version 3.0.2\r\n',         # marker in wrong case: no version
    b'UBW EBB-like Firmware Version 3.2.0\r\n',   # "EBB" anywhere in line counts
    Raise('write'),
    Raise('read'),
]

n_true = 0
for r1, r2 in itertools.product(REPLIES, repeat=2):
    script = [r1, r2]
    want = model(False, script)
    with Harness(script) as h:
        ebb = ebb3_serial.EBB3()
        got = ebb.connect(caller="demo")
        tag = "connect %r" % (script,)
        check(got is want['ret'], tag, "returned", got, "expected", want['ret'])
        check(h.log == want['log'], tag, "event log", h.log, "expected", want['log'])
        if want['err'] is None:
            check(ebb.err is None, tag, "err should be None:", ebb.err)
            check(ebb.caller == "demo", tag, "caller", ebb.caller)
            n_true += 1
        else:
            check(isinstance(ebb.err, str) and want['err'] in ebb.err, tag, "err", repr(ebb.err))
            check(ebb.caller is None, tag, "caller should stay None")
        if want['err'] == "not supported":
            check(str(want['version']) in ebb.err and "3.0.2" in ebb.err, tag, "message", repr(ebb.err))
        check((ebb.port is not None) is want['port_open'], tag, "port attr", ebb.port)
        check(ebb.version == want['version'], tag, "version", ebb.version, want['version'])
        check(ebb.name == want['name'], tag, "name", ebb.name)
        # Property, stated directly: True <=> no error; refused device gets only probes
        check((got is True) == (ebb.err is None), tag, "True iff no error")
        if got is not True:
            sent = [e[1] for e in h.log if isinstance(e, tuple) and e[0] == 'write']
            check(all(s == V_PROBE for s in sent) and len(sent) <= 2, tag, "extra traffic", sent)
        # A refused / failed board: follow-up commands send nothing
        before = len(h.log)
        if got is not True:
            check(ebb.command("EM,1,1") is False, tag, "command after refusal")
            check(ebb.query("QG") is None, tag, "query after refusal")
            check(len(h.log) == before, tag, "traffic after refusal", h.log[before:])
check(n_true > 50, "sanity: accepted cases", n_true)

# port that cannot be opened
for script in ([banner("3.0.2")], []):
    want = model(True, script)
    with Harness(script, open_raises=True) as h:
        ebb = ebb3_serial.EBB3()
        got = ebb.connect()
        check(got is False and h.log == want['log'], "open raises", got, h.log)
        check(isinstance(ebb.err, str) and want['err'] in ebb.err and PORT in ebb.err, "open raises err", ebb.err)
        check(ebb.port is None and not h.made, "open raises port")

# no device present at all / named device missing / named device found
with Harness([banner("3.0.2")], ports=[]) as h:
    ebb = ebb3_serial.EBB3()
    check(ebb.connect() is False and h.log == [], "no device", h.log)
    check(ebb.err == "Unable to locate device on USB", "no device err", ebb.err)
with Harness([banner("3.0.2")]) as h:
    ebb = ebb3_serial.EBB3()
    check(ebb.connect("NoSuchName") is False and h.log == [], "named missing", h.log)
    check(ebb.err == "Unable to locate NoSuchName on USB", "named missing err", ebb.err)
for ver in GOOD + OLD:
    script = [b'', banner(ver)]         # late reply, named port
    want = model(False, script)
    with Harness(script, ports=[(PORT, "EiBotBoard (Bob)", "USB VID:PID=04D8:FD92 SER=Bob LOCATION=1")]) as h:
        ebb = ebb3_serial.EBB3()
        got = ebb.connect("Bob")
        check(got is want['ret'] and h.log == want['log'], "named late", ver, got, h.log)
        check((ebb.err is None) == (vtuple(ver) >= (3, 0, 2)), "named late err", ver, ebb.err)
        check(ebb.caller is None, "caller default")
        if got:
            # already connected: second connect is a no-op returning True
            before = len(h.log)
            check(ebb.connect() is True and len(h.log) == before, "reconnect no-op")
            check(ebb.min_version("3.0.2") is True, "connected min_version")
            check(ebb.min_version(ver) is True, "connected min_version self")

# Non-SerialException errors are not swallowed by connect (e.g. undecodable bytes)
with Harness([b'\xff\xfe EBB\r\n']) as h:
    ebb = ebb3_serial.EBB3()
    try:
        ebb.connect()
        check(False, "undecodable reply should raise UnicodeDecodeError")
    except UnicodeDecodeError:
        check(True)
    check(h.log == [OPEN_EVT, 'reset', ('write', V_PROBE), 'readline'], "undecodable log", h.log)


# --------------------------------------------------------------------------
# Part C.  Legacy feature gates
# --------------------------------------------------------------------------

GATE_VERSIONS = ["2.2.2", "2.2.3", "2.2.10", "2.10.0", "2.9.9", "2.5.4", "2.5.5", "2.5.6", "2.5.10",
                 "2.5.99", "2.6.0", "2.6.1", "2.4.100", "2.10.1", "1.9.9", "1.99.99", "3.0.0", "10.0.0",
                 "2.1.100", "2.3.0", "0.0.0", "2.05.5", "02.6.0"]
UNREADABLE = [None, b'', b'Hello\r\n', b'EBB\r\n', b'!8 Err: Unknown command\r\n']


def gate_ports():
    """Yield (label, factory, version tuple or None)."""
    for ver in GATE_VERSIONS:
        yield ver, (lambda replies=None, v=ver: LegacyPort(banner(v), replies)), vtuple(ver)
    for reply in UNREADABLE:
        yield repr(reply), (lambda replies=None, r=reply: LegacyPort(r, replies)), None
    yield "raising", (lambda replies=None: LegacyPort(banner("9.9.9"), replies, fail_write=True)), None


for label, make, ver in gate_ports():
    raising = label == "raising"

    def probe_only(port, what):
        check(port.writes == [b'V\r'], what, label, "expected only the version probe, got", port.writes)

    # --- servo_timeout (2.6.0) ---
    for timeout_ms, state in [(60000, None), (0, None), (5000, 1), (5000, 0), (-1, None), ("7", "x"), (1.5, None)]:
        port = make()
        if state is None:
            ret = ebb_motion.servo_timeout(port, timeout_ms)
            cmd = 'SR,%s\r' % (timeout_ms,)
        else:
            ret = ebb_motion.servo_timeout(port, timeout_ms, state)
            cmd = 'SR,%s,%s\r' % (timeout_ms, state)
        check(ret is None, "servo_timeout returns None")
        if ver is not None and ver >= (2, 6, 0):
            check(port.writes == [b'V\r', cmd.encode('ascii')], "servo_timeout", label, port.writes)
        else:
            probe_only(port, "servo_timeout")
    port = make()
    ebb_motion.servo_timeout(port, 100, state=0, verbose=False)
    if ver is not None and ver >= (2, 6, 0):
        check(port.writes == [b'V\r', b'SR,100,0\r'], "servo_timeout kw", label, port.writes)
    else:
        probe_only(port, "servo_timeout kw")

    # --- queryVoltage (2.2.3) ---
    for reply, expect in [(b'0394,0300\r\n', True), (b'0394,0250\r\n', True), (b'0394,0249\r\n', False),
                          (b'0394,0000\r\n', False), (b'0394,1023\r\n', True), (b'garbage\r\n', True),
                          (b'1,251,7\r\n', 'ValueError'), (b'1,-5\r\n', False)]:
        port = make({b'QC\r': [reply, b'OK\r\n']})
        gated = ver is not None and ver >= (2, 2, 3)
        try:
            ret = ebb_motion.queryVoltage(port)
        except ValueError:
            ret = 'ValueError'
        if gated:
            check(port.writes == [b'V\r', b'QC\r'], "queryVoltage", label, port.writes)
            check(ret is expect or ret == expect, "queryVoltage value", label, reply, ret, expect)
        else:
            probe_only(port, "queryVoltage")
            check(ret is True, "queryVoltage ungated -> True", label, ret)

    # --- query_nickname (2.5.5) ---
    gated = ver is not None and ver >= (2, 5, 5)
    for name_reply, verbose in itertools.product([b'Bob\r\n', b'\r\n', b'  \r\n', b' Al ice \r\n'], [True, False, None]):
        port = make({b'QT\r': [name_reply, b'OK\r\n']})
        if verbose is None:
            ret = ebb_serial.query_nickname(port)
            verbose = True
        else:
            ret = ebb_serial.query_nickname(port, verbose)
        raw = name_reply.decode('ascii')
        if gated:
            check(port.writes == [b'V\r', b'QT\r'], "query_nickname", label, port.writes)
            if raw.isspace():
                want = "This AxiDraw does not have a nickname assigned." if verbose else None
            else:
                want = ("AxiDraw nickname: " + raw) if verbose else raw.strip()
            check(ret == want, "query_nickname value", label, repr(ret), repr(want))
        else:
            probe_only(port, "query_nickname")
            if ver is not None and verbose:
                want = "AxiDraw naming requires firmware version 2.5.5 or higher."
            else:
                want = None
            check(ret == want, "query_nickname ungated value", label, verbose, repr(ret), repr(want))

    # --- write_nickname (2.5.5) ---
    for nick in ["Bob", "", "A b c", "x" * 16]:
        port = make()
        ret = ebb_serial.write_nickname(port, nick)
        if gated:
            check(port.writes == [b'V\r', ('ST,' + nick + '\r').encode('ascii')], "write_nickname", label, port.writes)
            check(ret is True, "write_nickname ret", label, ret)
        else:
            probe_only(port, "write_nickname")
            check(ret is None, "write_nickname ungated ret", label, ret)
    port = make()
    ret = ebb_serial.write_nickname(port, None)       # bad argument: swallowed, nothing sent
    probe_only(port, "write_nickname(None)")
    check(ret is (False if gated else None), "write_nickname(None) ret", label, ret)

    # --- reboot (2.5.5) ---
    port = make()
    ret = ebb_serial.reboot(port)
    check(ret is None, "reboot ret")
    if gated:
        check(port.writes == [b'V\r', b'RB\r'], "reboot", label, port.writes)
    else:
        probe_only(port, "reboot")

# port None: nothing happens, documented defaults
check(ebb_motion.servo_timeout(None, 1000) is None, "servo_timeout(None)")
check(ebb_motion.queryVoltage(None) is True, "queryVoltage(None)")
check(ebb_serial.query_nickname(None) is None, "query_nickname(None)")
check(ebb_serial.write_nickname(None, "x") is None, "write_nickname(None)")
check(ebb_serial.reboot(None) is None, "reboot(None)")

finish()
