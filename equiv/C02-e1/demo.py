import os, sys; sys.path.insert(0, os.environ.get('PLOTINK_ROOT', '/tmp/wte_C02'))
# Refactoring 1: shared truncation helper, clear rule as first-non-zero loop with early returns, module constants.
# Demo / evidence for property C02 (T3 jerk move prediction == third-order firmware recurrence).
#
# Independent oracle: pure-integer simulation of the firmware recurrence (tick loop), plus an
# exact big-integer closed form (validated here against the tick loop) for long moves.
# Checks: (position, accumulator) of move_dist_t3, end rate of rate_t3, the three-level "clear"
# rule, accumulator boundary cases, all accel/2 and jerk/6 truncation residues and signs,
# zero-jerk agreement with move_dist_lt, and independence from the ambient mpmath precision.
# Deterministic; no hardware; exits 0 iff every check passes.

import random
import mpmath
from plotink import ebb_calc

TWO31 = 1 << 31
LO, HI = -TWO31, TWO31 - 1
FAILS = []
COUNT = {"pos": 0, "rate": 0, "lt": 0, "prec": 0}


def trunc_div(num, den):
    """Integer division truncated toward zero (den > 0), integers only."""
    quot = abs(num) // den
    return quot if num >= 0 else -quot


def clear_start(rate, accel, jerk):
    """Start value of a cleared accumulator, from the first three recurrence rates."""
    cur_rate = rate - trunc_div(accel, 2) + trunc_div(jerk, 6)
    cur_accel = accel
    for _ in range(3):
        cur_rate += cur_accel
        cur_accel += jerk
        if cur_rate != 0:
            return HI if cur_rate < 0 else 0
    return 0


def oracle_loop(ticks, rate, accel, jerk, accum):
    """Firmware recurrence, tick by tick.  None if outside the signed 32-bit domain."""
    total = clear_start(rate, accel, jerk) if accum == "clear" else accum
    cur_rate = rate - trunc_div(accel, 2) + trunc_div(jerk, 6)
    cur_accel = accel
    if not LO <= cur_accel <= HI:
        return None
    for _ in range(ticks):
        cur_rate += cur_accel
        cur_accel += jerk
        total += cur_rate
        if not (LO <= cur_rate <= HI and LO <= cur_accel <= HI):
            return None
    pos, rem = divmod(total, TWO31)
    return pos, rem, cur_rate


def rate_at(k, rate0, accel, jerk):
    return rate0 + k * accel + jerk * (k * (k - 1) // 2)


def oracle_closed(ticks, rate, accel, jerk, accum):
    """Exact closed form of the same recurrence (big integers only)."""
    rate0 = rate - trunc_div(accel, 2) + trunc_div(jerk, 6)
    if not (LO <= accel <= HI and LO <= accel + ticks * jerk <= HI):
        return None
    cand = {1, ticks}
    if jerk != 0:
        # vertex of rate_at(k): k = 1/2 - accel/jerk
        vertex = (jerk - 2 * accel) // (2 * jerk)
        for k in range(vertex - 2, vertex + 4):
            if 1 <= k <= ticks:
                cand.add(k)
    for k in cand:
        if not LO <= rate_at(k, rate0, accel, jerk) <= HI:
            return None
    total = clear_start(rate, accel, jerk) if accum == "clear" else accum
    total += ticks * rate0 + accel * (ticks * (ticks + 1) // 2) \
        + jerk * ((ticks - 1) * ticks * (ticks + 1) // 6)
    pos, rem = divmod(total, TWO31)
    return pos, rem, rate_at(ticks, rate0, accel, jerk)


def check(ticks, rate, accel, jerk, accum, oracle=oracle_loop, do_rate=True):
    want = oracle(ticks, rate, accel, jerk, accum)
    if want is None:
        return False
    got = ebb_calc.move_dist_t3(ticks, rate, accel, jerk, accum)
    COUNT["pos"] += 1
    ok = (isinstance(got, tuple) and len(got) == 2 and type(got[0]) is int
          and type(got[1]) is int and got == want[:2] and 0 <= got[1] < TWO31)
    if not ok:
        FAILS.append(("move_dist_t3", (ticks, rate, accel, jerk, accum), got, want[:2]))
    if do_rate:
        got_rate = ebb_calc.rate_t3(ticks, rate, accel, jerk)
        COUNT["rate"] += 1
        if not (type(got_rate) is int and got_rate == want[2]):
            FAILS.append(("rate_t3", (ticks, rate, accel, jerk), got_rate, want[2]))
    return True


def main():
    rng = random.Random(20240513)

    # 0. The closed-form oracle agrees with the tick-loop oracle (incl. domain decisions).
    for _ in range(4000):
        ticks = rng.randint(1, 60)
        args = (ticks, rng.randint(-2**31, 2**31), rng.randint(-2**27, 2**27),
                rng.randint(-2**23, 2**23), rng.choice(["clear", rng.randint(0, HI)]))
        assert oracle_loop(*args) == oracle_closed(*args), args

    # 1. Exhaustive small grid: every sign / zero combination, every accel%2 and jerk%6 residue.
    for ticks in (1, 2, 3, 5):
        for rate in range(-3, 4):
            for accel in range(-4, 5):
                for jerk in range(-7, 8):
                    for accum in ("clear", 0, HI):
                        check(ticks, rate, accel, jerk, accum)

    # 2. Three-level clear rule with big magnitudes: force the tick-1 and tick-2 rates to -1/0/+1.
    n_clear = 0
    for jerk in (-1000003, -600000, -7, -6, -5, -3, -1, 0, 1, 3, 5, 6, 7, 600000, 1000003):
        for d2 in (-1, 0, 1):
            accel = d2 - jerk                       # tick-2 rate (if tick-1 rate is 0) == d2
            for d1 in (-1, 0, 1):
                rate = d1 - accel + trunc_div(accel, 2) - trunc_div(jerk, 6)  # tick-1 rate == d1
                for ticks in (1, 2, 3, 4, 25):
                    if check(ticks, rate, accel, jerk, "clear"):
                        n_clear += 1
                    got = ebb_calc.move_dist_t3(ticks, rate, accel, jerk)   # default accum
                    want = oracle_loop(ticks, rate, accel, jerk, "clear")
                    if want is not None and got != want[:2]:
                        FAILS.append(("default-accum", (ticks, rate, accel, jerk), got, want[:2]))
    assert n_clear > 500, n_clear

    # 3. Accumulator / floor boundaries: totals at and around multiples of 2^31, both signs.
    for mult in (-3, -1, 0, 1, 2, 1000):
        for off in (-2, -1, 0, 1, 2):
            total = mult * TWO31 + off
            for accum in (0, 1, HI - 1, HI):
                rate = total - accum
                if LO <= rate <= HI:
                    check(1, rate, 0, 0, accum)
            # multi-tick, constant rate: ticks * rate + accum == total
            for ticks in (2, 4, 1024):
                accum = total % ticks
                rate = (total - accum) // ticks
                if LO <= rate <= HI:
                    check(ticks, rate, 0, 0, accum)
    for rate in (LO, LO + 1, -1, 0, 1, HI - 1, HI):
        for accum in ("clear", 0, HI):
            check(1, rate, 0, 0, accum)
            check(7, rate, 0, 0, accum)

    # 4. All truncation residues and sign combinations with large values (snap and no-snap paths).
    for a_res in range(-3, 4):
        for j_res in range(-13, 14):
            for rate in (-123456789, 0, 987654321):
                accel = 1000 * 2 + a_res
                jerk = 6 * 50 + j_res
                check(200, rate, accel, jerk, "clear")
                check(200, rate, -accel, -jerk, 12345)
                check(173, rate, accel - 2000, jerk - 300, HI)

    # 5. Random moves, tick-loop oracle.
    n_mid = 0
    for _ in range(5000):
        ticks = rng.randint(1, 300)
        jerk = rng.randint(-2**31 // (ticks * ticks), 2**31 // (ticks * ticks)) * rng.choice((0, 1, 1, 2))
        accel = rng.randint(-2**31 // ticks, 2**31 // ticks)
        rate = rng.randint(LO, HI)
        accum = rng.choice(["clear", "clear", 0, HI, rng.randint(0, HI)])
        if check(ticks, rate, accel, jerk, accum):
            n_mid += 1
    assert n_mid > 1500, n_mid

    # 6. Long moves (up to ~16.7 million ticks), exact closed-form oracle.
    n_long = 0
    for _ in range(3000):
        ticks = rng.randint(1, 2 ** rng.randint(8, 24))
        jerk = rng.randint(-2**32 // (ticks * ticks) - 1, 2**32 // (ticks * ticks) + 1)
        accel = rng.randint(-2**31 // ticks - 2, 2**31 // ticks + 2)
        rate = rng.randint(LO, HI)
        accum = rng.choice(["clear", 0, HI, rng.randint(0, HI)])
        if check(ticks, rate, accel, jerk, accum, oracle=oracle_closed):
            n_long += 1
    assert n_long > 800, n_long

    # 7. Zero jerk: coincides with the timed-move (LT) prediction.
    for _ in range(1500):
        ticks = rng.randint(1, 2 ** rng.randint(1, 16))
        accel = rng.randint(-2**31 // ticks, 2**31 // ticks) * rng.choice((0, 1, 1))
        rate = rng.randint(LO, HI) if rng.random() < 0.8 else trunc_div(accel, 2) - accel
        accum = rng.choice(["clear", "clear", 0, HI, rng.randint(0, HI)])
        if oracle_closed(ticks, rate, accel, 0, accum) is None:
            continue
        COUNT["lt"] += 1
        got = ebb_calc.move_dist_t3(ticks, rate, accel, 0, accum)
        ref = ebb_calc.move_dist_lt(rate, accel, ticks, accum)
        if got != ref or got != oracle_closed(ticks, rate, accel, 0, accum)[:2]:
            FAILS.append(("zero-jerk vs LT", (ticks, rate, accel, accum), got, ref))
    assert COUNT["lt"] > 500, COUNT

    # 8. Ambient mpmath precision does not matter (set just before each call).
    cases = []
    while len(cases) < 250:
        ticks = rng.randint(1, 2 ** rng.randint(1, 20))
        args = (ticks, rng.randint(LO, HI), rng.randint(-2**31 // ticks, 2**31 // ticks),
                rng.randint(-2**32 // (ticks * ticks), 2**32 // (ticks * ticks)),
                rng.choice(["clear", rng.randint(0, HI)]))
        if oracle_closed(*args) is not None:
            cases.append(args)
    for dps in (3, 15, 80):
        for args in cases:
            mpmath.mp.dps = dps
            got = ebb_calc.move_dist_t3(*args)
            mpmath.mp.dps = dps
            got_rate = ebb_calc.rate_t3(*args[:4])
            want = oracle_closed(*args)
            COUNT["prec"] += 1
            if got != want[:2] or got_rate != want[2]:
                FAILS.append(("ambient dps %d" % dps, args, (got, got_rate), want))

    # 9. A few documented reference values (from the library's own test table).
    table = [
        (372, 2147054151, -1171655, 3481, "clear", 348, 176993308, 1951994784),
        (69, -1800095000, 26012345, -600999, "clear", -44, 1446999752, -1428293187),
        (35000, 490123456, 125000, -11, 2047483648, 7038, 711891524, -1872246545),
        (3338, 225, -513, -38, "clear", -111, 2106467160, -213351133),
        (100, 0, 0, -400000, "clear", -31, 2052810135, -1980066666),
    ]
    for ticks, rate, accel, jerk, accum, pos, rem, end_rate in table:
        got = ebb_calc.move_dist_t3(ticks, rate, accel, jerk, accum)
        got_rate = ebb_calc.rate_t3(ticks, rate, accel, jerk)
        if got != (pos, rem) or got_rate != end_rate:
            FAILS.append(("table", (ticks, rate, accel, jerk, accum), (got, got_rate),
                          (pos, rem, end_rate)))
    # Degenerate zero-length call keeps its documented results.
    if ebb_calc.move_dist_t3(0, 5, 6, 7) != (0, 0) or ebb_calc.rate_t3(0, 5, 6, 7) != 18:
        FAILS.append(("time==0", None, None, None))

    print("checked:", COUNT, "clear-rule cases:", n_clear, "mid:", n_mid, "long:", n_long)
    if FAILS:
        print("FAILURES: %d" % len(FAILS))
        for item in FAILS[:15]:
            print("  ", item)
        return 1
    print("C02 demo: all checks passed")
    return 0


if __name__ == "__main__":
    sys.exit(main())
