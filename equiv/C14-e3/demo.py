import os, sys; sys.path.insert(0, os.environ.get('PLOTINK_ROOT', '/tmp/wte_C14'))
"""
Property C14 check (R-tree intersection query == brute force; construction terminates).

Oracle: exact rational arithmetic.  Every coordinate is converted to fractions.Fraction
(exact for ints and floats); a stored box [a1,a2]x[b1,b2] and a query [p1,p2]x[q1,q2]
share a point iff  a1<=p2, p1<=a2, b1<=q2, q1<=b2  (closed intervals, touching counts).
A faster float/int version of the same predicate is used for the bulk of the queries and
is itself checked against the exact one on a sample.

Extra evidence, aimed at what a rewrite of the traversal / of the construction loop could
break:
  * queries are also issued on every inner node of the tree (the walk must work from any
    node, must visit all non-pruned descendants, and must never report ids that are not
    stored below that node);
  * the whole tree (extents with their exact repr, leaf contents and order, nesting) is
    compared with a reference construction written in the demo;
  * float collections are tuned so that one box edge lies EXACTLY on the mean centre (the
    split line), so a 1-ulp change in the centre computation changes the tree;
  * chains / heavy overlap / deep trees / duplicates / degenerate (stroke) boxes.
"""
import math
import random
from fractions import Fraction

from plotink import rtree

INF = math.inf
PROBLEMS = []
TALLY = {"trees": 0, "queries": 0, "node_queries": 0, "exact": 0, "on_centre": 0, "max_depth": 0}


def problem(text):
    PROBLEMS.append(text)
    if len(PROBLEMS) <= 10:
        print("FAIL:", text)


def install_watchdog(seconds=60, max_bytes=3 << 30):
    """A construction that never terminates (or grows without bound) is a property failure."""
    import resource
    import signal

    def expired(_signum, _frame):
        print("C14 demo: FAILED (watchdog: did not finish within %d s)" % seconds)
        os._exit(1)
    signal.signal(signal.SIGALRM, expired)
    signal.alarm(seconds)
    try:
        resource.setrlimit(resource.RLIMIT_AS, (max_bytes, max_bytes))
    except (ValueError, OSError):
        pass


# ------------------------------------------------------------------ oracles
def frac(value):
    if value == INF:
        return Fraction(10) ** 400
    if value == -INF:
        return -(Fraction(10) ** 400)
    return Fraction(value)


def brute_exact(boxes, query):
    p_1, q_1, p_2, q_2 = map(frac, query)
    hits = set()
    for ident, box in boxes:
        a_1, b_1, a_2, b_2 = map(frac, box)
        if a_1 <= p_2 and p_1 <= a_2 and b_1 <= q_2 and q_1 <= b_2:
            hits.add(ident)
    return hits


def brute_fast(boxes, query):
    p_1, q_1, p_2, q_2 = query
    return {ident for ident, (a_1, b_1, a_2, b_2) in boxes
            if a_1 <= p_2 and p_1 <= a_2 and b_1 <= q_2 and q_1 <= b_2}


# ------------------------------------------------------------------ reference construction
def mean_centre(boxes):
    total = len(boxes)
    c_x = c_y = 0
    for _, (a_1, b_1, a_2, b_2) in boxes:
        c_x += (a_1 / 2 + a_2 / 2) / total
        c_y += (b_1 / 2 + b_2 / 2) / total
    return c_x, c_y


def model(boxes, depth=0):
    TALLY["max_depth"] = max(TALLY["max_depth"], depth)
    lo_x, lo_y, hi_x, hi_y = INF, INF, -INF, -INF
    for _, (a_1, b_1, a_2, b_2) in boxes:
        lo_x, lo_y = min(lo_x, a_1), min(lo_y, b_1)
        hi_x, hi_y = max(hi_x, a_2), max(hi_y, b_2)
    c_x, c_y = mean_centre(boxes)
    south_west = [e for e in boxes if e[1][0] <= c_x and e[1][1] <= c_y]
    south_east = [e for e in boxes if e[1][2] >= c_x and e[1][1] <= c_y]
    north_west = [e for e in boxes if e[1][0] <= c_x and e[1][3] >= c_y]
    north_east = [e for e in boxes if e[1][2] >= c_x and e[1][3] >= c_y]
    parts = [south_west, south_east, north_west, north_east]
    extent = repr((lo_x, lo_y, hi_x, hi_y))      # repr: also pins 0 vs 0.0 vs -0.0
    if len(boxes) in (len(south_west), len(south_east), len(north_west), len(north_east)):
        return (extent, "leaf", [(i, tuple(b)) for i, b in boxes])
    return (extent, "node", [model(part, depth + 1) for part in parts])


def snapshot(node):
    extent = repr((node.xmin, node.ymin, node.xmax, node.ymax))
    if node.subtrees:
        if node.bboxes:
            problem("a node keeps boxes as well as subtrees")
        return (extent, "node", [snapshot(kid) for kid in node.subtrees])
    return (extent, "leaf", [(i, tuple(b)) for i, b in node.bboxes])


def stored_below(node):
    items = list(node.bboxes)
    for kid in node.subtrees:
        items += stored_below(kid)
    return items


def inner_nodes(node, acc):
    if node.subtrees:
        acc.append(node)
        for kid in node.subtrees:
            inner_nodes(kid, acc)
    return acc


# ------------------------------------------------------------------ checking
def examine(tag, boxes, queries, rng, node_queries=2):
    frozen = [(i, tuple(b)) for i, b in boxes]
    try:
        index = rtree.Index(boxes)
    except RecursionError:
        problem("%s: construction recursed without end on %r" % (tag, boxes[:4]))
        return None
    TALLY["trees"] += 1
    if [(i, tuple(b)) for i, b in boxes] != frozen:
        problem("%s: the input collection was altered" % tag)
    if snapshot(index) != model(boxes):
        problem("%s: built tree differs from the reference construction: %r" % (tag, boxes[:4]))

    for query in queries:
        TALLY["queries"] += 1
        expected = brute_fast(boxes, query)
        if TALLY["queries"] % 9 == 0:
            TALLY["exact"] += 1
            if brute_exact(boxes, query) != expected:
                problem("%s: exact and fast oracle disagree on %r (demo bug)" % (tag, query))
        answer = index.intersection(query)
        if type(answer) is not set:
            problem("%s: intersection returned %s" % (tag, type(answer).__name__))
            answer = set(answer)
        if answer != expected:
            problem("%s: query %r (%d boxes): missing %r, spurious %r"
                    % (tag, query, len(boxes), sorted(map(repr, expected - answer))[:4],
                       sorted(map(repr, answer - expected))[:4]))
        if index.intersection(query) is answer:
            problem("%s: the same set object is handed out twice" % tag)

    # the walk must behave the same when started from any inner node
    inner = inner_nodes(index, [])
    for node in (inner if len(inner) <= node_queries else rng.sample(inner, node_queries)):
        below = stored_below(node)
        for query in queries[:6]:
            TALLY["node_queries"] += 1
            if node.intersection(query) != brute_fast(below, query):
                problem("%s: query %r started at an inner node is wrong" % (tag, query))
    return index


def sane(queries):
    return [q for q in queries if q[0] <= q[2] and q[1] <= q[3]]


def probes_around(boxes, rng, picks):
    """Queries touching / barely missing stored boxes, built from their own coordinates."""
    out = []
    for _, (a_1, b_1, a_2, b_2) in (boxes if len(boxes) <= picks else rng.sample(boxes, picks)):
        reach = 1 + (abs(a_1) + abs(a_2) + abs(b_1) + abs(b_2)) * 1e-5 + (a_2 - a_1) + (b_2 - b_1)
        r_in, l_in = math.nextafter(float(a_2), -INF), math.nextafter(float(a_1), INF)
        r_out, l_out = math.nextafter(float(a_2), INF), math.nextafter(float(a_1), -INF)
        t_out, b_out = math.nextafter(float(b_2), INF), math.nextafter(float(b_1), -INF)
        out += [
            (a_2, b_2, a_2 + reach, b_2 + reach), (a_1 - reach, b_1 - reach, a_1, b_1),
            (a_1 - reach, b_2, a_1, b_2 + reach), (a_2, b_1 - reach, a_2 + reach, b_1),
            (r_out, b_1, a_2 + reach, b_2), (a_1 - reach, b_1, l_out, b_2),
            (a_1, t_out, a_2, b_2 + reach), (a_1, b_1 - reach, a_2, b_out),
            (r_in, b_1, a_2 + reach, b_2), (a_1 - reach, b_1, l_in, b_2),
            (a_1, b_1, a_1, b_1), (a_2, b_2, a_2, b_2), (a_1, b_2, a_1, b_2), (a_2, b_1, a_2, b_1),
            (a_1, b_1, a_2, b_2),
        ]
    return sane(out)


def span(rng, lo, hi, whole, thin_p, cap):
    if whole:
        first, second = rng.randint(lo, hi), rng.randint(lo, hi)
    else:
        first, second = rng.uniform(lo, hi), rng.uniform(lo, hi)
    first, second = min(first, second), max(first, second)
    if cap is not None:
        second = min(second, first + cap)
    if rng.random() < thin_p:
        second = first
    return first, second


def make_box(rng, lo, hi, whole=False, thin_p=0.25, cap=None):
    (a_1, a_2), (b_1, b_2) = span(rng, lo, hi, whole, thin_p, cap), span(rng, lo, hi, whole, thin_p, cap)
    return (a_1, b_1, a_2, b_2)


def pin_edge_to_centre(boxes, rng):
    """Move one edge of one box so that it coincides exactly with the mean centre
    (the box's own midpoint is kept, so the centre barely moves; iterate to a fixed point)."""
    victim = rng.randrange(len(boxes))
    axis = rng.choice([0, 1])                 # 0: x, 1: y
    low_edge = rng.choice([True, False])
    ident, box = boxes[victim]
    mid = box[axis] / 2 + box[axis + 2] / 2
    for _ in range(40):
        centre = mean_centre(boxes)[axis]
        other = 2 * mid - centre
        new = list(boxes[victim][1])
        if low_edge:
            if centre > other:
                return False
            new[axis], new[axis + 2] = centre, other
        else:
            if other > centre:
                return False
            new[axis], new[axis + 2] = other, centre
        boxes[victim] = (ident, tuple(new))
        if mean_centre(boxes)[axis] == centre:
            return True
    return False


def main():
    install_watchdog()
    rng = random.Random(31415926)

    # 1. trivial collections
    examine("empty", [], [(0, 0, 0, 0), (-1, -1, 1, 1), (-INF, -INF, INF, INF)], rng)
    for box in [(0, 0, 0, 0), (0, 0, 5, 0), (0, 0, 0, 5), (-2.5, -1, 4, 3)]:
        examine("one", [("x", box)], probes_around([("x", box)], rng, 1) + [(-9, -9, 9, 9)], rng)

    # 2. all 2-box and many 3-box collections over a small lattice, all lattice queries
    vals = [0, 1, 2]
    spans = [(lo, hi) for lo in vals for hi in vals if lo <= hi]
    lattice = [(x[0], y[0], x[1], y[1]) for x in spans for y in spans]
    for one in lattice:
        for two in lattice:
            examine("two", [(1, one), (2, two)], lattice, rng, node_queries=1)
    for _ in range(500):
        trio = [(k, rng.choice(lattice)) for k in range(3)]
        examine("three", trio, lattice[::2], rng, node_queries=1)

    # 3. zero / signed-zero / int-float mixtures (extent must keep the same representative)
    mixes = [
        [(0, (0, 0, 0, 0)), (1, (0.0, -0.0, 0.0, 0.0)), (2, (-0.0, 0, 1, 1.0))],
        [(0, (-0.0, -0.0, 0, 0)), (1, (0, 0, -0.0 + 0, 0.0)), (2, (1, 1, 1.0, 1))],
        [(0, (1.0, 1, 2, 2.0)), (1, (1, 1.0, 2.0, 2)), (2, (1, 1, 2, 2)), (3, (-1, -1.0, 1, 1))],
    ]
    for mix in mixes:
        examine("zeros", mix, lattice + [(-0.0, -0.0, 0.0, 0.0), (1.0, 1.0, 1.0, 1.0)], rng)

    # 4. duplicates (termination) and heavy overlap
    for copies in (2, 9, 150):
        for box in [(1, 1, 1, 1), (0, 0, 7, 0), (0, 0, 0, 7), (0.25, 0.5, 0.75, 1.5)]:
            boxes = [(k, box) for k in range(copies)]
            examine("same", boxes, probes_around(boxes[:1], rng, 1), rng)
    onion = [(k, (-k * 0.5, -k * 0.25, k * 0.5, k * 0.25)) for k in range(40)]
    examine("onion", onion, probes_around(onion, rng, 6) + [(0, 0, 0, 0)], rng)

    # 5. chains and grids of abutting boxes (shared edges/corners), strokes
    for count in (5, 33, 200):
        chain = [(k, (k, 2 * k, k + 1, 2 * k + 2)) for k in range(count)]
        examine("chain", chain, probes_around(chain, rng, 6) + [(0, 0, count, 2 * count)], rng)
        hbars = [(k, (k, k % 7, k + 3, k % 7)) for k in range(count)]
        vbars = [(("v", k), (k % 5, k, k % 5, k + 2)) for k in range(count)]
        examine("strokes", hbars + vbars, probes_around(hbars + vbars, rng, 6), rng)
    tiles = [((r, c), (c, r, c + 1, r + 1)) for r in range(12) for c in range(12)]
    examine("tiles", tiles, probes_around(tiles, rng, 8) + [(3, 3, 3, 3), (0, 6, 12, 6)], rng)

    # 6. deep trees: geometric spread of tiny boxes (each split peels off a few boxes)
    spread = [(k, (2.0 ** k, 3.0 ** (k / 2), 2.0 ** k * 1.01, 3.0 ** (k / 2) * 1.01)) for k in range(60)]
    examine("spread", spread, probes_around(spread, rng, 10) + [(0, 0, 2.0 ** 61, 3.0 ** 31)], rng, 6)
    spread_neg = [(k, (-c, -d, -a, -b)) for k, (a, b, c, d) in spread]
    examine("spread-neg", spread + [(("n", k), b) for k, b in spread_neg],
            probes_around(spread_neg, rng, 10), rng, 6)

    # 7. random integer collections
    for trial in range(220):
        reach = rng.choice([1, 2, 3, 6, 12, 40])
        boxes = [(k, make_box(rng, -reach, reach, True, rng.choice([0, 0.3, 1]), rng.choice([None, 1, 2])))
                 for k in range(rng.choice([2, 3, 4, 6, 10, 18, 45, 90]))]
        if trial % 6 == 0:
            boxes = [((k % 5, "shared"), b) for k, b in boxes]
        queries = [make_box(rng, -reach - 2, reach + 2, True) for _ in range(18)]
        examine("ints", boxes, queries + probes_around(boxes, rng, 2), rng)

    # 8. random float collections, one edge pinned exactly onto the split line
    for trial in range(200):
        size = rng.choice([1e-3, 1.0, 64.0, 1e7])
        shift = rng.choice([0.0, size * 3, -size * 1e4])
        boxes = [(k, make_box(rng, shift - size, shift + size, False, 0.25, rng.choice([None, size / 8])))
                 for k in range(rng.choice([3, 4, 7, 16, 48, 110]))]
        if pin_edge_to_centre(boxes, rng):
            TALLY["on_centre"] += 1
        queries = [make_box(rng, shift - size, shift + size, False, 0.2) for _ in range(14)]
        examine("floats", boxes, queries + probes_around(boxes, rng, 2) + [boxes[0][1]], rng)

    # 9. a big one
    many = [(k, make_box(rng, 0, 800, False, 0.2, 10)) for k in range(2500)]
    examine("many", many, [make_box(rng, -5, 805, False, 0.1, 70) for _ in range(100)]
            + [(-1, -1, 801, 801), (900, 900, 901, 901)], rng, node_queries=25)

    print("trees %(trees)d, queries %(queries)d (+%(node_queries)d from inner nodes), "
          "exact-oracle checks %(exact)d, collections with an edge exactly on the centre "
          "%(on_centre)d, deepest tree %(max_depth)d" % TALLY)
    if PROBLEMS:
        print("C14 demo: FAILED (%d problems)" % len(PROBLEMS))
        return 1
    if TALLY["queries"] < 50000 or TALLY["on_centre"] < 50 or TALLY["max_depth"] < 8:
        print("C14 demo: FAILED (coverage lower than intended)")
        return 1
    print("C14 demo: OK")
    return 0


if __name__ == "__main__":
    sys.exit(main())
