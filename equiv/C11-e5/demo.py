import os, sys; sys.path.insert(0, os.environ.get('PLOTINK_ROOT', '/tmp/wtf_C11'))
"""
Property C11 check: plot_utils.vb_scale follows the SVG 1.1 preserveAspectRatio rules.

Two independent lines of evidence:
  1. A geometric oracle in exact rational arithmetic (fractions.Fraction): the returned
     (s_x, s_y, o_x, o_y) is interpreted as  page = (user + o) * s  and the image of the
     viewBox rectangle is compared with what SVG 1.1 section 7.8 prescribes.
  2. A golden reference: a straight transcription of the documented algorithm, compared
     for exact equality of repr() (catches int/float, signed-zero and rounding changes).
"""
import itertools
import math
import random
import re
from fractions import Fraction

from plotink import plot_utils

vb_scale = plot_utils.vb_scale
FAILURES = []
CHECKS = [0]


def fail(msg):
    FAILURES.append(msg)
    if len(FAILURES) <= 25:
        print("FAIL:", msg)


def check(cond, msg):
    CHECKS[0] += 1
    if not cond:
        fail(msg)


# ---------------------------------------------------------------- oracle 1: geometry
ALIGN_RE = re.compile(r'^x(min|mid|max)y(min|mid|max)$')


def spec_parse(par):
    """Independent parse of preserveAspectRatio -> (align, meet_or_slice)."""
    if par is None:
        return 'xmidymid', 'meet'
    words = re.findall(r'[^\s,]+', par.lower())
    if words and words[0] == 'defer':
        words.pop(0)
    align = words[0] if words else 'xmidymid'
    mos = words[1] if len(words) > 1 else 'meet'
    return align, mos


def close(a, b, scale):
    return abs(Fraction(a) - Fraction(b)) <= Fraction(1, 10**9) * max(abs(Fraction(scale)), 1)


def geometry_check(vb, par, doc_w, doc_h, label):
    min_x, min_y, w, h = vb
    vb_text = label_vb(vb)
    res = vb_scale(vb_text, par, doc_w, doc_h)
    check(isinstance(res, tuple) and len(res) == 4, "%s: result shape %r" % (label, res))
    s_x, s_y, o_x, o_y = (Fraction(v) for v in res)
    align, mos = spec_parse(par)
    rx = Fraction(doc_w) / Fraction(w)
    ry = Fraction(doc_h) / Fraction(h)
    big = max(abs(Fraction(v)) for v in (min_x, min_y, w, h, doc_w, doc_h)) * max(rx, ry, 1)
    # image of the viewBox rectangle on the page
    left = (Fraction(min_x) + o_x) * s_x
    right = (Fraction(min_x) + Fraction(w) + o_x) * s_x
    top = (Fraction(min_y) + o_y) * s_y
    bottom = (Fraction(min_y) + Fraction(h) + o_y) * s_y
    if align == 'none':
        check(close(s_x, rx, rx) and close(s_y, ry, ry), "%s: none scale %r" % (label, res))
        check(close(left, 0, big) and close(right, doc_w, big), "%s: none x-fill %r" % (label, res))
        check(close(top, 0, big) and close(bottom, doc_h, big), "%s: none y-fill %r" % (label, res))
        return
    m = ALIGN_RE.match(align)
    assert m, align
    want = min(rx, ry) if mos == 'meet' else max(rx, ry)
    check(res[0] == res[1], "%s: scale not uniform %r" % (label, res))
    check(close(s_x, want, want), "%s: scale %r, want %r" % (label, res[0], float(want)))
    for name, lo, hi, page in (('x', left, right, doc_w), ('y', top, bottom, doc_h)):
        how = m.group(1) if name == 'x' else m.group(2)
        if how == 'min':
            ok = close(lo, 0, big)
        elif how == 'max':
            ok = close(hi, page, big)
        else:
            ok = close((lo + hi) / 2, Fraction(page) / 2, big)
        check(ok, "%s: %s-%s alignment wrong: image [%s, %s] page %s" %
              (label, name, how, float(lo), float(hi), page))
        # size of the image along this axis
        check(close(hi - lo, want * Fraction(w if name == 'x' else h), big),
              "%s: image size on %s" % (label, name))


def label_vb(vb):
    return "%r %r %r %r" % tuple(vb)


# ---------------------------------------------------------------- oracle 2: golden
def golden(v_b, p_a_r, doc_width, doc_height):
    if v_b is None:
        return 1, 1, 0, 0
    arr = v_b.strip().replace(',', ' ').split()
    if len(arr) < 4:
        return 1, 1, 0, 0
    min_x = float(arr[0]); min_y = float(arr[1]); width = float(arr[2]); height = float(arr[3])
    if width <= 0 or height <= 0:
        return 1, 1, 0, 0
    d_w = float(doc_width); d_h = float(doc_height)
    if d_w <= 0 or d_h <= 0:
        return 1, 1, 0, 0
    ar_doc = d_h / d_w
    ar_vb = height / width
    align = "xmidymid"; mos = "meet"
    if p_a_r is not None:
        par = p_a_r.strip().replace(',', ' ').lower().split()
        if len(par) > 0:
            if par[0] == "defer":
                if len(par) > 1:
                    align = par[1]
                    if len(par) > 2:
                        mos = par[2]
            else:
                align = par[0]
                if len(par) > 1:
                    mos = par[1]
    if align == "none":
        return d_w / width, d_h / height, -min_x, -min_y
    if ((ar_doc >= ar_vb) and mos == "meet") or ((ar_doc < ar_vb) and mos == "slice"):
        s = d_w / width
        excess = ar_doc * width - height
        if align in ("xminymin", "xmidymin", "xmaxymin"):
            o_y = -min_y
        elif align in ("xminymax", "xmidymax", "xmaxymax"):
            o_y = -min_y + excess
        else:
            o_y = -min_y + excess / 2
        return s, s, -min_x, o_y
    s = d_h / height
    excess = height / ar_doc - width
    if align in ("xminymin", "xminymid", "xminymax"):
        o_x = -min_x
    elif align in ("xmaxymin", "xmaxymid", "xmaxymax"):
        o_x = -min_x + excess
    else:
        o_x = -min_x + excess / 2
    return s, s, o_x, -min_y


def outcome(func, *args):
    try:
        res = func(*args)
        return ('ok', type(res).__name__, repr(res))
    except Exception as exc:  # pylint: disable=broad-except
        return ('exc', type(exc).__name__)


def golden_check(v_b, p_a_r, d_w, d_h):
    got = outcome(vb_scale, v_b, p_a_r, d_w, d_h)
    exp = outcome(golden, v_b, p_a_r, d_w, d_h)
    check(got == exp, "golden mismatch vb=%r par=%r doc=(%r,%r): got %r want %r" %
          (v_b, p_a_r, d_w, d_h, got, exp))


# ---------------------------------------------------------------- the domain
ALIGNS = ['xMinYMin', 'xMidYMin', 'xMaxYMin', 'xMinYMid', 'xMidYMid', 'xMaxYMid',
          'xMinYMax', 'xMidYMax', 'xMaxYMax', 'none']


def par_variants():
    out = [None, '', '   ', 'defer', ' defer ', 'DEFER']
    for a in ALIGNS:
        out.append(a)
        out.append('defer ' + a)
        for mos in ('meet', 'slice'):
            out.append('%s %s' % (a, mos))
            out.append('defer %s %s' % (a, mos))
            out.append('  %s\t %s \n' % (a.upper(), mos.upper()))
            out.append('Defer   %s   %s' % (a.lower(), mos.capitalize()))
    return out


VIEWBOXES = [
    (0, 0, 100, 100), (0, 0, 200, 100), (0, 0, 100, 200), (10, 20, 300, 150),
    (-50, -25, 80, 120), (-7.5, 3.25, 0.5, 0.125), (1000, -2000, 1056, 816),
    (0.0, 0.0, 11.0, 8.5), (-0.0, -0.0, 3.0, 7.0), (5, 5, 1e-3, 2e-3), (1e5, 1e5, 1e6, 3e5),
]
DOCS = [(100, 100), (200, 100), (100, 200), (1056, 816), (816, 1056), (8.5, 11), (0.25, 4),
        (300, 150), (33, 77)]

PARS = par_variants()

# 1. geometric oracle + golden over the full cross product
for vb, (dw, dh), par in itertools.product(VIEWBOXES, DOCS, PARS):
    geometry_check(vb, par, dw, dh, "vb=%r doc=%r par=%r" % (vb, (dw, dh), par))
    golden_check(label_vb(vb), par, dw, dh)

# 2. randomised sweep (deterministic seed), incl. equal-aspect-ratio boundary cases
rng = random.Random(110011)
for i in range(3000):
    w = rng.choice([1, 2, 3, 7.5, 100, 816, 1056, rng.uniform(0.01, 5000)])
    h = rng.choice([1, 2, 3, 7.5, 100, 816, 1056, rng.uniform(0.01, 5000)])
    vb = (rng.choice([0, -0.0, rng.uniform(-1000, 1000)]), rng.choice([0, rng.uniform(-1000, 1000)]), w, h)
    if i % 3 == 0:
        k = rng.choice([0.5, 1, 2, 3, 96])   # same aspect ratio as the viewBox: ar_doc == ar_vb
        dw, dh = w * k, h * k
    else:
        dw = rng.choice([1, 100, 816, 1056, rng.uniform(0.01, 5000)])
        dh = rng.choice([1, 100, 816, 1056, rng.uniform(0.01, 5000)])
    par = rng.choice(PARS)
    geometry_check(vb, par, dw, dh, "rand#%d vb=%r doc=%r par=%r" % (i, vb, (dw, dh), par))
    golden_check(label_vb(vb), par, dw, dh)
    sep = rng.choice([',', ', ', ' , ', '\t', '  '])
    vb_text = ' ' + sep.join(repr(v) for v in vb) + ' '
    check(outcome(vb_scale, vb_text, par, dw, dh) == outcome(vb_scale, label_vb(vb), par, dw, dh),
          "separator variant changed the result: %r" % vb_text)
    golden_check(vb_text, par, dw, dh)

# 3. identity transform for missing / malformed viewBox and non-positive sizes
IDENT = ('ok', 'tuple', '(1, 1, 0, 0)')
for par in (None, 'none', 'xMinYMax slice', 'defer xMaxYMin meet'):
    for bad_vb in (None, '', '   ', '0', '0 0', '0 0 100', '0,0,100', ', ,', '0 0 0 100', '0 0 100 0',
                   '0 0 -100 100', '0 0 100 -100', '0 0 -1 -1', '0 0 0 0', '0 0 -0.0 5'):
        check(outcome(vb_scale, bad_vb, par, 100, 100) == IDENT, "bad viewBox %r not identity" % (bad_vb,))
        # doc size must not even be looked at when the viewBox is unusable
        check(outcome(vb_scale, bad_vb, par, 'junk', None) == IDENT, "bad viewBox %r + junk doc" % (bad_vb,))
    for dw, dh in ((0, 100), (100, 0), (0, 0), (-1, 100), (100, -1), (-5, -5), (-0.0, 10), ('0', '10')):
        check(outcome(vb_scale, '0 0 100 100', par, dw, dh) == IDENT, "bad doc size %r" % ((dw, dh),))

# 4. odds and ends compared with the golden transcription only (types, extra tokens,
#    string-valued sizes, unknown keywords, error behaviour)
EXTRA = [
    ('0 0 100 50 99 98', 'xMinYMin', 200, 200), ('0,0,100,50', 'xMaxYMax,slice', '200', '300.5'),
    ('1e2 -1e1 1E2 5e1', 'xmidymax', 50, 75), ('0 0 100 50', 'bogus', 200, 200),
    ('0 0 100 50', 'bogus slice', 200, 50), ('0 0 100 50', 'xMinYMin bogus', 200, 200),
    ('0 0 100 50', 'xMinYMin bogus', 200, 50), ('0 0 100 50', 'defer defer meet', 200, 200),
    ('0 0 100 50', 'xMinYFoo slice', 30, 200), ('0 0 100 50', 'xFooYMax meet', 30, 200),
    ('0 0 100 50', 'xMinYMin meet extra', 30, 200), ('0 0 100 50', 'defer xMinYMin slice extra', 3, 2),
    ('0 0 100 50', 'meet', 200, 200), ('0 0 100 50', 'slice', 200, 200),
    ('a b c d', None, 10, 10), ('0 0 x 10', None, 10, 10), ('0 0 10 10', None, 'w', 10),
    ('0 0 10 10', None, 10, 'h'), ('0 0 10 10', None, None, 10), ('0 0 -3 10', None, 'w', 10),
    ('0 0 10 10', 'xMinYMin', 1e308, 1e-308), ('0 0 10 10', 'xMaxYMax slice', 1e-308, 1e308),
    ('0 0 10 10', 'none', 1e-320, 1e308), ('0 0 1e308 1e-308', 'xMaxYMax', 5, 5),
    ('0 0 nan 10', 'xMaxYMax', 5, 5), ('0 0 10 10', 'xMaxYMax', float('nan'), 5),
    ('0 0 inf 10', 'xMidYMid slice', 5, 5), ('0 0 10 10', 'xMinYMid', float('inf'), 5),
]
for v_b, par, dw, dh in EXTRA:
    golden_check(v_b, par, dw, dh)

# 5. a few hand-computed anchors (documented expectation, SVG 1.1 fig. "PreserveAspectRatio")
def expect(v_b, par, dw, dh, want):
    got = vb_scale(v_b, par, dw, dh)
    check(all(math.isclose(g, w_, rel_tol=1e-12, abs_tol=1e-12) for g, w_ in zip(got, want)) and len(got) == 4,
          "anchor vb=%r par=%r: got %r want %r" % (v_b, par, got, want))

expect('0 0 100 50', None, 200, 200, (2, 2, 0, 25))              # meet, centred in y
expect('0 0 100 50', 'xMidYMin', 200, 200, (2, 2, 0, 0))
expect('0 0 100 50', 'xMidYMax', 200, 200, (2, 2, 0, 50))
expect('0 0 100 50', 'xMinYMid slice', 200, 200, (4, 4, 0, 0))
expect('0 0 100 50', 'xMidYMid slice', 200, 200, (4, 4, -25, 0))
expect('0 0 100 50', 'xMaxYMid slice', 200, 200, (4, 4, -50, 0))
expect('10 20 50 100', 'xMaxYMin meet', 200, 200, (2, 2, 40, -20))
expect('10 20 50 100', 'xMinYMax slice', 200, 200, (4, 4, -10, -70))
expect('10 20 50 100', 'none', 200, 300, (4, 3, -10, -20))
expect('0 0 100 100', 'defer xMaxYMax slice', 50, 50, (0.5, 0.5, 0, 0))

print("checks run:", CHECKS[0], "failures:", len(FAILURES))
sys.exit(1 if FAILURES else 0)
