import os, sys; sys.path.insert(0, os.environ.get('PLOTINK_ROOT', '/tmp/wte_C20'))
# Demo / check for property C20 (text_utils.xml_escape, text_utils.format_hms).
# Deterministic, no hardware, no network.  Exit status 0 iff every check passes.
import itertools
import math
import random
import re
import xml.etree.ElementTree as ET
from decimal import Decimal, ROUND_HALF_EVEN
from fractions import Fraction
from xml.sax.saxutils import escape as sax_escape

from plotink import text_utils

FAILS = []
COUNT = [0]


def check(cond, msg):
    COUNT[0] += 1
    if not cond:
        FAILS.append(msg)
        if len(FAILS) > 20:
            finish()


def finish():
    if FAILS:
        print("FAIL (%d checks, %d failures)" % (COUNT[0], len(FAILS)))
        for line in FAILS[:20]:
            print("  ", line)
        sys.exit(1)
    print("OK: %d checks passed" % COUNT[0])
    sys.exit(0)


# ----------------------------------------------------------------------------
# Part 1: xml_escape
# ----------------------------------------------------------------------------
ENTITY_RE = re.compile(r'&(?:amp|lt|gt|quot|apos);')
SPECIALS = '&<>"\''


def expected_content(text):
    # XML 1.0 end-of-line normalisation (2.11)
    return text.replace('\r\n', '\n').replace('\r', '\n')


def expected_attr(text):
    # end-of-line normalisation followed by attribute-value normalisation (3.3.3)
    return re.sub('[\t\n]', ' ', expected_content(text))


def check_xml(text):
    esc = text_utils.xml_escape(text)
    check(isinstance(esc, str), "xml_escape(%r) not a str" % (text,))
    # independent oracle: the standard library escaper with the two quote entities
    oracle = sax_escape(text, {'"': '&quot;', "'": '&apos;'})
    check(esc == oracle, "xml_escape(%r) = %r, oracle %r" % (text, esc, oracle))
    # no special character outside an entity
    stripped = ENTITY_RE.sub('', esc)
    check(not any(c in stripped for c in SPECIALS),
          "special char outside entity: %r -> %r" % (text, esc))
    # round trip through a standard parser: content, "attr", 'attr'
    doc = '<r d="' + esc + '" s=\'' + esc + '\'>' + esc + '</r>'
    try:
        root = ET.fromstring(doc.encode('utf-8'))
    except ET.ParseError as err:
        check(False, "parse error for %r -> %r: %s" % (text, esc, err))
        return
    check((root.text or '') == expected_content(text),
          "content round trip %r -> %r" % (text, root.text))
    check(root.get('d') == expected_attr(text),
          "dq attribute round trip %r -> %r" % (text, root.get('d')))
    check(root.get('s') == expected_attr(text),
          "sq attribute round trip %r -> %r" % (text, root.get('s')))
    check(len(root) == 0 and len(root.attrib) == 2,
          "markup injected by %r" % (text,))


# documented examples
check(text_utils.xml_escape("Hello&Goodbye") == "Hello&amp;Goodbye", "doc example &")
check(text_utils.xml_escape("<test>") == "&lt;test&gt;", "doc example <>")
check(text_utils.xml_escape("The sun's out today") == "The sun&apos;s out today", "doc '")
check(text_utils.xml_escape('"Lemon Pie"') == "&quot;Lemon Pie&quot;", 'doc "')
check(text_utils.xml_escape("") == "", "empty string")
check(text_utils.xml_escape("&amp;") == "&amp;amp;", "pre-escaped text is escaped again")
check(text_utils.xml_escape("&lt;&#38;&apos;") == "&amp;lt;&amp;#38;&amp;apos;", "pre-escaped 2")

# exhaustive: every string of length <= 4 over an alphabet of the specials and friends
ALPHA = ['&', '<', '>', '"', "'", ';', 'a', '#']
for n in range(0, 5):
    for tup in itertools.product(ALPHA, repeat=n):
        check_xml(''.join(tup))

# every XML-legal character of the BMP (in blocks), each next to specials
legal = [0x9, 0xA, 0xD] + list(range(0x20, 0xD800)) + list(range(0xE000, 0xFFFE))
for i in range(0, len(legal), 512):
    block = ''.join(chr(c) for c in legal[i:i + 512])
    check_xml(block)
    check_xml('&' + block + '<' + block[::-1] + '"\'>')
for c in [0x9, 0xA, 0xD] + list(range(0x20, 0x100)):
    check_xml(chr(c))
    check_xml('<' + chr(c) + '&' + chr(c))
# astral plane samples
rng = random.Random(20)
astral = ''.join(chr(rng.randrange(0x10000, 0x110000)) for _ in range(500))
check_xml(astral + '\U00010000\U0010FFFF')

# random strings incl. pre-escaped fragments, mixed quotes, CDATA terminators
FRAGS = ['&', '<', '>', '"', "'", '&amp;', '&lt;', '&gt;', '&quot;', '&apos;', '&#38;',
         '&#x26;', ']]>', '<![CDATA[', '<!--', '-->', '<?x?>', '</r>', '<r a="1">', ' ',
         '\t', '\n', '\r', '\r\n', 'abc', 'x', ';', '&&', '""', "''", '\'"', '"\'',
         'é', '€', '퟿', '', '�', '\U0001F600', 'amp;', '&amp']
for _ in range(6000):
    k = rng.randrange(0, 12)
    check_xml(''.join(rng.choice(FRAGS) for _ in range(k)))

# escaping is a homomorphism for this character-wise mapping
for _ in range(500):
    a = ''.join(rng.choice(FRAGS) for _ in range(rng.randrange(0, 6)))
    b = ''.join(rng.choice(FRAGS) for _ in range(rng.randrange(0, 6)))
    check(text_utils.xml_escape(a + b) == text_utils.xml_escape(a) + text_utils.xml_escape(b),
          "xml_escape not character-wise for %r + %r" % (a, b))


# ----------------------------------------------------------------------------
# Part 2: format_hms
# ----------------------------------------------------------------------------
HALF = Fraction(1, 2)


def nearest_second(value):
    """Exact round-half-even of a float/int, computed with rationals."""
    frac = Fraction(value)
    low = math.floor(frac)
    rem = frac - low
    if rem < HALF:
        return low
    if rem > HALF:
        return low + 1
    return low if low % 2 == 0 else low + 1


def oracle_hms(seconds):
    if seconds < 10:
        quant = Decimal(seconds).quantize(Decimal('0.001'), rounding=ROUND_HALF_EVEN)
        return "%s Seconds" % quant
    total = nearest_second(seconds)
    if total < 60:
        return "%02d Seconds" % total
    if total < 3600:
        return "%d:%02d (Minutes, seconds)" % (total // 60, total % 60)
    return "%d:%02d:%02d (Hours, minutes, seconds)" % (
        total // 3600, (total // 60) % 60, total % 60)


RE_MS = re.compile(r'^(\d+)\.(\d{3}) Seconds$')
RE_S = re.compile(r'^(\d\d) Seconds$')
RE_M = re.compile(r'^([1-9]\d?):(\d\d) \(Minutes, seconds\)$')
RE_H = re.compile(r'^([1-9]\d*):(\d\d):(\d\d) \(Hours, minutes, seconds\)$')


def check_text(seconds, text, label):
    """Check the property statement directly on the output text."""
    if seconds < 10:
        mat = RE_MS.match(text)
        check(mat is not None, "%s: not millisecond form: %r" % (label, text))
        if mat:
            shown = Fraction(int(mat.group(1)) * 1000 + int(mat.group(2)), 1000)
            check(abs(shown - Fraction(seconds)) <= Fraction(1, 2000),
                  "%s: %r not within 0.5 ms" % (label, text))
        return
    total = nearest_second(seconds)
    if total < 60:
        mat = RE_S.match(text)
        check(mat is not None and int(mat.group(1)) == total,
              "%s: expected ss form of %d, got %r" % (label, total, text))
    elif total < 3600:
        mat = RE_M.match(text)
        ok = mat is not None
        if ok:
            mins, secs = int(mat.group(1)), int(mat.group(2))
            ok = 0 <= secs <= 59 and 1 <= mins <= 59 and mins * 60 + secs == total
        check(ok, "%s: expected m:ss form of %d, got %r" % (label, total, text))
    else:
        mat = RE_H.match(text)
        ok = mat is not None
        if ok:
            hrs, mins, secs = (int(mat.group(i)) for i in (1, 2, 3))
            ok = (0 <= secs <= 59 and 0 <= mins <= 59 and hrs >= 1
                  and hrs * 3600 + mins * 60 + secs == total)
        check(ok, "%s: expected h:mm:ss form of %d, got %r" % (label, total, text))


def check_seconds(value):
    got = text_utils.format_hms(value)
    check(isinstance(got, str), "format_hms(%r) not str" % (value,))
    check(got == oracle_hms(value),
          "format_hms(%r) = %r, oracle %r" % (value, got, oracle_hms(value)))
    check_text(value, got, "format_hms(%r)" % (value,))
    for flag in (False, 0, None):
        check(text_utils.format_hms(value, flag) == got,
              "format_hms(%r, %r) differs from default" % (value, flag))
    check(text_utils.format_hms(value, milliseconds=False) == got,
          "format_hms(%r, milliseconds=False) differs" % (value,))


def check_millis(value):
    secs = value / 1000.0
    got = text_utils.format_hms(value, True)
    check(got == text_utils.format_hms(secs),
          "format_hms(%r, True) = %r but seconds form gives %r"
          % (value, got, text_utils.format_hms(secs)))
    check(got == oracle_hms(secs),
          "format_hms(%r, True) = %r, oracle %r" % (value, got, oracle_hms(secs)))
    check_text(secs, got, "format_hms(%r, True)" % (value,))
    check(text_utils.format_hms(value, milliseconds=True) == got,
          "keyword milliseconds=True differs for %r" % (value,))
    check(text_utils.format_hms(value, 1) == got, "truthy flag 1 differs for %r" % (value,))


# documented / test-suite expectations
DOC = [
    ((3600,), "1:00:00 (Hours, minutes, seconds)"),
    ((3600.00, True), "3.600 Seconds"),
    ((12345.67890, True), "12 Seconds"),
    ((12345.67890,), "3:25:46 (Hours, minutes, seconds)"),
    ((1.23456,), "1.235 Seconds"),
    ((65,), "1:05 (Minutes, seconds)"),
    ((3500,), "58:20 (Minutes, seconds)"),
    ((9.999,), "9.999 Seconds"),
    ((9999, True), "9.999 Seconds"),
    ((10.0001,), "10 Seconds"),
    ((10.49,), "10 Seconds"),
    ((10.51,), "11 Seconds"),
    ((179.999,), "3:00 (Minutes, seconds)"),
    ((179.49,), "2:59 (Minutes, seconds)"),
    ((3599.6,), "1:00:00 (Hours, minutes, seconds)"),
    ((0,), "0.000 Seconds"),
    ((0.0,), "0.000 Seconds"),
    ((10,), "10 Seconds"),
    ((59.4,), "59 Seconds"),
    ((59.5,), "1:00 (Minutes, seconds)"),
    ((60,), "1:00 (Minutes, seconds)"),
    ((3599.4,), "59:59 (Minutes, seconds)"),
    ((3599.5,), "1:00:00 (Hours, minutes, seconds)"),
    ((10000000,), "2777:46:40 (Hours, minutes, seconds)"),
    ((10000000000, True), "2777:46:40 (Hours, minutes, seconds)"),
    ((10.5,), "10 Seconds"),
    ((11.5,), "12 Seconds"),
]
for args, want in DOC:
    got = text_utils.format_hms(*args)
    check(got == want, "format_hms%r = %r, want %r" % (args, got, want))

# every integer second up to 3 hours and a spread above, as int and float
for n in itertools.chain(range(0, 3 * 3600 + 5), range(10800, 10 ** 7 + 1, 9973),
                         [86399, 86400, 359999, 360000, 9999999, 10 ** 7]):
    check_seconds(n)
    check_seconds(float(n))
# every integer millisecond up to 70 s, and around the form boundaries
for n in itertools.chain(range(0, 70001), range(3590000, 3610001, 7),
                         range(35990000, 36010000, 997)):
    check_millis(n)

# ties (k + 0.5) and their floating-point neighbours: round-half-even must be kept
TIES = list(range(0, 400)) + list(range(3500, 3700)) + list(range(7100, 7300)) + \
    [35999, 36000, 86399, 86400, 359999, 360000, 9999998, 9999999]
for k in TIES:
    tie = k + 0.5
    for val in (tie, math.nextafter(tie, 0.0), math.nextafter(tie, math.inf)):
        check_seconds(val)
        check_millis(val * 1000.0)
        check_millis(float(k * 1000 + 500))
        check_millis(k * 1000 + 500)

# boundaries of the branches and their neighbours
for edge in (0.0005, 0.0015, 0.0025, 1.0005, 9.9985, 9.9995, 10.0, 59.0, 60.0, 61.0,
             119.5, 120.0, 599.5, 600.0, 3540.0, 3599.0, 3600.0, 3601.0, 3659.5, 3660.0,
             7199.5, 7200.0, 35999.5, 36000.0, 359999.5, 360000.0, 1.0e7):
    val = edge
    for _ in range(4):
        check_seconds(val)
        check_millis(val * 1000.0)
        val = math.nextafter(val, 0.0)
    val = edge
    for _ in range(4):
        val = math.nextafter(val, math.inf)
        if val <= 1.0e7:
            check_seconds(val)
            check_millis(val * 1000.0)

# random durations over the whole domain, several scales
for _ in range(20000):
    scale = rng.choice([10.0, 20.0, 70.0, 4000.0, 40000.0, 1.0e7])
    val = rng.random() * scale
    check_seconds(val)
    check_millis(rng.random() * scale * 1000.0)
    check_millis(rng.randrange(0, int(scale * 1000) + 1))

# the input objects are not modified / function is pure
val = 4000.25
check(text_utils.format_hms(val) == text_utils.format_hms(val) and val == 4000.25, "purity")

finish()
