import os, sys; sys.path.insert(0, os.environ.get('PLOTINK_ROOT', '/tmp/wtf_C07'))
# Property C07 check: legacy serial primitives ebb_serial.query / ebb_serial.command.
#   - request written exactly once, never raises on timeouts / error replies / serial faults
#   - query returns text: the data line of *that* request, or '' when nothing arrived
#   - consecutive requests against a conforming board stay aligned (exact read consumption)
#   - no port / no text -> does nothing
# The expectations come from an independent event-by-event simulation of the documented
# protocol (ORACLE below), not from the library code.
import logging
import random
import re

from plotink import ebb_serial

serial = ebb_serial.serial
LOGGER_NAME = 'plotink.ebb_serial'
NO_OK_KEYS = {"a", "i", "mr", "pi", "qm", "qg", "v"}   # documented single-line queries
READ_BUDGET = 101                                        # first read + 100 retries

CHECKS = 0


def check(cond, msg):
    global CHECKS
    CHECKS += 1
    if not cond:
        print("FAIL:", msg)
        sys.exit(1)


# ---------------------------------------------------------------- log capture
class Capture(logging.Handler):
    def __init__(self):
        logging.Handler.__init__(self, level=logging.DEBUG)
        self.items = []

    def emit(self, record):
        exc = record.exc_info[1] if record.exc_info else None
        self.items.append((record.levelno, record.getMessage(), exc))

    def drain(self):
        items, self.items = self.items, []
        return items


CAP = Capture()
_lg = logging.getLogger(LOGGER_NAME)
_lg.setLevel(logging.DEBUG)
_lg.propagate = False
_lg.addHandler(CAP)
check(ebb_serial.logger is _lg, "module logger is the plotink.ebb_serial logger")


# ---------------------------------------------------------------- fake device
class FakePort(object):
    '''Scripted port. Script events: bytes (a line, b'' = timeout) or an exception instance.'''

    def __init__(self, script, write_fault=None):
        self.script = list(script)
        self.reads = 0
        self.writes = []
        self.write_fault = write_fault
        self.trace = []

    def write(self, data):
        self.trace.append('w')
        self.writes.append(data)
        if self.write_fault is not None:
            fault, self.write_fault = self.write_fault, None
            raise fault
        return len(data)

    def readline(self):
        self.trace.append('r')
        idx = self.reads
        self.reads += 1
        if idx >= len(self.script):
            return b''
        event = self.script[idx]
        if isinstance(event, BaseException):
            raise event
        return event


# ---------------------------------------------------------------- oracle
def key_of(cmd):
    return re.match(r'[^,]*', cmd).group(0).strip().lower()


def oracle_take(script, pos):
    '''Consume reads until a non-empty line, a fault, or the budget is spent.'''
    for _ in range(READ_BUDGET):
        event = script[pos] if pos < len(script) else b''
        pos += 1
        if isinstance(event, BaseException):
            return None, pos, event
        if event != b'':
            return event, pos, None
    return b'', pos, None


def unexpected_msg(cmd, text):
    return ('Unexpected response from EBB.\n    Command: %s\n    Response: %s'
            % (cmd.strip(), text.strip()))


def oracle_query(cmd, script, pos, write_fault, verbose):
    '''-> (returned text, new read position, expected log list)'''
    loud = logging.ERROR if verbose else logging.INFO
    logs = []
    text = ''
    fault = write_fault
    if fault is None:
        line, pos, fault = oracle_take(script, pos)
        if fault is None:
            text = line.decode('ascii')
            if key_of(cmd) not in NO_OK_KEYS:
                _, pos, fault = oracle_take(script, pos)
    if fault is not None:
        logs.append((loud, "Error reading serial data", None))
        logs.append((logging.INFO, "Error context:", fault))
    if 'Err:' in text:
        logs.append((loud, unexpected_msg(cmd, text), None))
    return text, pos, logs


def oracle_command(cmd, script, pos, write_fault, verbose):
    loud = logging.ERROR if verbose else logging.INFO
    logs = []
    fault = write_fault
    line = None
    if fault is None:
        line, pos, fault = oracle_take(script, pos)
    if fault is not None:
        if cmd.strip().lower() != 'rb':
            logs.append((loud, 'Failed after command: ' + cmd, None))
            logs.append((logging.INFO, "Error context:", fault))
    else:
        text = line.decode('ascii')
        if text.strip()[:2] != 'OK':
            if text == '':
                logs.append((loud, 'EBB Serial Timeout after command: ' + cmd, None))
            else:
                logs.append((loud, unexpected_msg(cmd, text), None))
    return pos, logs


# ---------------------------------------------------------------- drivers
def run_query(port, cmd, verbose, label, write_fault=None):
    start = port.reads
    n_writes = len(port.writes)
    port.write_fault = write_fault
    port.trace = []
    CAP.drain()
    exp_text, exp_pos, exp_logs = oracle_query(cmd, port.script, start, write_fault, verbose)
    try:
        if verbose is None:
            got = ebb_serial.query(port, cmd)      # default verbose=True
        else:
            got = ebb_serial.query(port, cmd, verbose)
    except Exception as err:  # property: never raises
        check(False, "%s: query raised %r" % (label, err))
    logs = CAP.drain()
    check(port.writes[n_writes:] == [cmd.encode('ascii')],
          "%s: query must write the request exactly once, got %r" % (label, port.writes[n_writes:]))
    check(port.trace[:1] == ['w'] and 'w' not in port.trace[1:],
          "%s: write must precede all reads" % label)
    check(type(got) is str, "%s: query must return text, got %r" % (label, got))
    check(got == exp_text, "%s: query returned %r expected %r" % (label, got, exp_text))
    check(port.reads == exp_pos,
          "%s: query consumed %d reads, expected %d" % (label, port.reads - start, exp_pos - start))
    check(logs == exp_logs, "%s: query logs %r expected %r" % (label, logs, exp_logs))
    return got


def run_command(port, cmd, verbose, label, write_fault=None):
    start = port.reads
    n_writes = len(port.writes)
    port.write_fault = write_fault
    port.trace = []
    CAP.drain()
    exp_pos, exp_logs = oracle_command(cmd, port.script, start, write_fault, verbose)
    try:
        if verbose is None:
            got = ebb_serial.command(port, cmd)
        else:
            got = ebb_serial.command(port, cmd, verbose)
    except Exception as err:
        check(False, "%s: command raised %r" % (label, err))
    logs = CAP.drain()
    check(got is None, "%s: command returns nothing" % label)
    check(port.writes[n_writes:] == [cmd.encode('ascii')],
          "%s: command must write the request exactly once, got %r" % (label, port.writes[n_writes:]))
    check(port.trace[:1] == ['w'] and 'w' not in port.trace[1:],
          "%s: write must precede all reads" % label)
    check(port.reads == exp_pos,
          "%s: command consumed %d reads, expected %d" % (label, port.reads - start, exp_pos - start))
    check(logs == exp_logs, "%s: command logs %r expected %r" % (label, logs, exp_logs))


def make_faults():
    return [serial.SerialException("boom"), serial.SerialTimeoutException("wto"),
            IOError("io"), RuntimeError("rt"), OSError(5, "os"),
            ConnectionResetError("reset"), TimeoutError("to"), RecursionError("deep")]


OK_QUERIES = ['QB\r', 'QP\r', 'QS\r', 'QC\r', 'QL\r', 'QE\r', 'QT\r', 'QR\r', 'ES\r', 'qb\r',
              'QN\r', 'I2\r', 'VV\r', 'QMX\r', 'Q,M\r', 'PD,B,3\r', '\r', '']
NO_OK_QUERIES = ['A\r', 'I\r', 'MR\r', 'PI,B,3\r', 'QM\r', 'QG\r', 'V\r',
                 'v\r', ' V \r', 'qm\r', 'Qg\r', 'pi,c,1\r', ' mr ,1\r', 'a', 'I\n', 'V,,\r']
COMMANDS = ['SM,100,10,10\r', 'SP,1\r', 'EM,1,1\r', 'SC,4,12000\r', 'TP\r', 'RB\r', 'rb', ' Rb \r\n',
            'RB,1\r', 'XM,5,1,1\r']
PADS = [0, 1, 2, 50, 99, 100, 101, 102, 150, 205]


# ---------------------------------------------------------------- 1. no port / no text
for fn in (ebb_serial.query, ebb_serial.command):
    for verbose in (True, False):
        CAP.drain()
        idle = FakePort([b'X\r\n', b'OK\r\n'])
        check(fn(None, 'QB\r', verbose) is None, "no port -> None")
        check(fn(idle, None, verbose) is None, "no text -> None")
        check(fn(None, None, verbose) is None, "neither -> None")
        check(fn(None, 'QB\r') is None and fn(idle, None) is None, "default verbose")
        check(idle.writes == [] and idle.reads == 0, "no text -> port untouched")
        check(CAP.drain() == [], "nothing logged for a null request")

# ---------------------------------------------------------------- 2. conforming replies, all paddings
for cmd in OK_QUERIES:
    for pad1 in PADS:
        for pad2 in (PADS if cmd in ('QB\r', 'qb\r', '') else (0, 1, 100, 101)):
            script = [b''] * pad1 + [b'1,2\r\n'] + [b''] * pad2 + [b'OK\r\n', b'NEXT\r\n']
            port = FakePort(script)
            got = run_query(port, cmd, True, "okq %r pad %d/%d" % (cmd, pad1, pad2))
            if pad1 <= 100 and pad2 <= 100:
                check(got == '1,2\r\n', "conforming OK-query returns its data line")
                check(port.reads == pad1 + pad2 + 2, "conforming OK-query consumes data+OK exactly")

for cmd in NO_OK_QUERIES:
    for pad1 in PADS:
        script = [b''] * pad1 + [b'EBBv13 2.8.1\r\n', b'NEXT\r\n', b'OK\r\n']
        port = FakePort(script)
        got = run_query(port, cmd, False, "nokq %r pad %d" % (cmd, pad1))
        if pad1 <= 100:
            check(got == 'EBBv13 2.8.1\r\n', "no-OK query returns its single line")
            check(port.reads == pad1 + 1, "no-OK query must not eat the next line")
        else:
            check(got == '', "nothing arrived -> empty string")
            check(port.reads == 101, "101 reads then give up")

for cmd in COMMANDS:
    for pad1 in PADS:
        for verbose in (True, False, None):
            for reply in (b'OK\r\n', b'  OK\r\n', b'OKAY\r\n', b'ok\r\n', b'\r\n', b' \r\n',
                          b'!8 Err: Unknown command\r\n', b'KO\r\n'):
                port = FakePort([b''] * pad1 + [reply, b'NEXT\r\n'])
                label = "cmd %r pad %d reply %r verbose %r" % (cmd, pad1, reply, verbose)
                if verbose is None:
                    # omitted argument must behave like verbose=True
                    CAP.drain()
                    check(ebb_serial.command(port, cmd) is None, label)
                    default_logs = CAP.drain()
                    exp_pos, exp_logs = oracle_command(cmd, port.script, 0, None, True)
                    check(default_logs == exp_logs, label + ": default verbosity is loud")
                    check(port.writes == [cmd.encode('ascii')], label + ": one write")
                    check(port.reads == exp_pos, label + ": reads")
                else:
                    run_command(port, cmd, verbose, label)
                if pad1 <= 100:
                    check(port.reads == pad1 + 1, label + ": command consumes exactly its reply")

# default verbosity of query (argument omitted) is loud
for text in (b'!8 Err: bad\r\n', b'fine\r\n'):
    port = FakePort([text, b'OK\r\n'])
    CAP.drain()
    check(ebb_serial.query(port, 'QB\r') == text.decode('ascii'), "query default verbose value")
    check(CAP.drain() == oracle_query('QB\r', port.script, 0, None, True)[2], "query default verbose logs")
    port = FakePort([serial.SerialException("x")])
    CAP.drain()
    check(ebb_serial.query(port, 'QB\r') == '', "fault -> ''")
    check([l[:2] for l in CAP.drain()] == [(logging.ERROR, "Error reading serial data"),
                                           (logging.INFO, "Error context:")], "default loud fault log")

# ---------------------------------------------------------------- 3. silence and error replies
for verbose in (True, False):
    for cmd in OK_QUERIES[:4] + NO_OK_QUERIES[:8]:
        port = FakePort([])
        got = run_query(port, cmd, verbose, "silent %r" % cmd)
        check(got == '', "silent board -> ''")
        check(port.reads == (101 if key_of(cmd) in NO_OK_KEYS else 202), "silent read budget")
        for pad1 in (0, 3, 100):
            for tail in ([b'OK\r\n'], [], [b'', b'OK\r\n']):
                port = FakePort([b''] * pad1 + [b'!8 Err: Unknown command\r\n'] + tail + [b'Z\r\n'])
                got = run_query(port, cmd, verbose, "errline %r" % cmd)
                check(got == '!8 Err: Unknown command\r\n', "error reply is returned as text")
    for cmd in COMMANDS:
        run_command(FakePort([]), cmd, verbose, "silent cmd %r" % cmd)

# ---------------------------------------------------------------- 4. faults at every stage
n_fault_cases = 0
for verbose in (True, False):
    for cmd in ['QB\r', 'QP\r', 'V\r', 'QM\r', 'pi,b,1\r', 'QG\r', 'RB\r', 'rb']:
        for f_index in range(len(make_faults())):
            # write fault
            port = FakePort([b'D\r\n', b'OK\r\n'])
            got = run_query(port, cmd, verbose, "wfault q %r" % cmd, write_fault=make_faults()[f_index])
            check(got == '' and port.reads == 0, "write fault -> '' and no reads")
            port = FakePort([b'OK\r\n'])
            run_command(port, cmd, verbose, "wfault c %r" % cmd, write_fault=make_faults()[f_index])
            check(port.reads == 0, "write fault -> no reads (command)")
            # read fault while waiting for the data line
            for at in (0, 1, 2, 57, 99, 100, 101):
                script = [b''] * at + [make_faults()[f_index], b'D\r\n', b'OK\r\n']
                got = run_query(FakePort(script), cmd, verbose, "rfault q %r at %d" % (cmd, at))
                if at <= 100:
                    check(got == '', "fault before data -> ''")
                run_command(FakePort(script), cmd, verbose, "rfault c %r at %d" % (cmd, at))
                n_fault_cases += 2
            # read fault while skipping the trailing OK: the data line must survive
            for at in (0, 1, 2, 57, 99, 100, 101):
                for lead in (0, 4, 100):
                    script = [b''] * lead + [b'7,7\r\n'] + [b''] * at + [make_faults()[f_index], b'OK\r\n']
                    port = FakePort(script)
                    got = run_query(port, cmd, verbose, "okfault q %r at %d" % (cmd, at))
                    check(got == '7,7\r\n', "fault in OK skip keeps the data line")
                    n_fault_cases += 1
            # data line that is itself an error line + fault in the skip
            script = [b'!5 Err: x\r\n', make_faults()[f_index]]
            run_query(FakePort(script), cmd, verbose, "err+fault %r" % cmd)

# ---------------------------------------------------------------- 5. aligned sessions on a conforming board
rng = random.Random(70707)
for session in range(150):
    n_req = rng.randint(1, 12)
    script = []
    plan = []
    for i in range(n_req):
        kind = rng.choice('qnc')
        pads = lambda: [b''] * rng.choice([0, 0, 0, 1, 2, 5, 37, 99, 100])
        if kind == 'q':
            cmd = rng.choice(OK_QUERIES[:14])
            data = ('%d,%d\r\n' % (i, rng.randint(0, 9999))).encode('ascii')
            script += pads() + [data] + pads() + [b'OK\r\n']
        elif kind == 'n':
            cmd = rng.choice(NO_OK_QUERIES)
            data = ('%d:%d\r\n' % (i, rng.randint(0, 9999))).encode('ascii')
            script += pads() + [data]
        else:
            cmd = rng.choice(COMMANDS)
            data = None
            script += pads() + [b'OK\r\n']
        plan.append((kind, cmd, data, len(script)))
    port = FakePort(script)
    for i, (kind, cmd, data, end) in enumerate(plan):
        verbose = rng.choice([True, False])
        CAP.drain()
        if kind == 'c':
            check(ebb_serial.command(port, cmd, verbose) is None, "command returns None")
        else:
            got = ebb_serial.query(port, cmd, verbose)
            check(got == data.decode('ascii'),
                  "session %d req %d %r: got %r wanted %r (misaligned)" % (session, i, cmd, got, data))
        check(CAP.drain() == [], "conforming exchange logs nothing")
        check(port.reads == end, "session %d req %d: stream position %d != %d" % (session, i, port.reads, end))
        check(len(port.writes) == i + 1 and port.writes[-1] == cmd.encode('ascii'), "one write per request")

# ---------------------------------------------------------------- 6. fuzz: arbitrary event streams vs oracle
EVENTS = [b'', b'', b'', b'OK\r\n', b'OK\r\n', b'12,34\r\n', b'!8 Err: Unknown command\r\n',
          b'\r\n', b'Err:\r\n', b' OK \r\n', 'FAULT']
for trial in range(1500):
    length = rng.randint(0, 40)
    script = []
    for _ in range(length):
        ev = rng.choice(EVENTS)
        if ev == 'FAULT':
            ev = rng.choice(make_faults())
        if ev == b'' and rng.random() < 0.15:
            script += [b''] * rng.choice([98, 99, 100, 101, 102])
        script.append(ev)
    port = FakePort(script)
    for step in range(rng.randint(1, 8)):
        verbose = rng.choice([True, False])
        wf = rng.choice(make_faults()) if rng.random() < 0.08 else None
        if rng.random() < 0.6:
            run_query(port, rng.choice(OK_QUERIES + NO_OK_QUERIES), verbose,
                      "fuzz %d.%d" % (trial, step), write_fault=wf)
        else:
            run_command(port, rng.choice(COMMANDS), verbose, "fuzz %d.%d" % (trial, step), write_fault=wf)

check(n_fault_cases > 1000, "fault matrix actually ran")
print("C07 demo OK: %d checks" % CHECKS)
sys.exit(0)
