import os, sys; sys.path.insert(0, os.environ.get('PLOTINK_ROOT', '/tmp/wte_C07'))
# Property C07 check: legacy serial primitives ebb_serial.query / ebb_serial.command
#   - write the request exactly once, never raise, query returns text,
#   - replies stay aligned over sequences against a conforming board,
#   - nothing happens without a port or without a request text.
# Checked against an independent oracle (index arithmetic over the scripted reply
# stream) including exact number of reads consumed and the log records emitted.
import logging
import random

import serial
from plotink import ebb_serial

FAILURES = []
CHECKS = [0]


def check(cond, *context):
    CHECKS[0] += 1
    if not cond:
        FAILURES.append(context)
        if len(FAILURES) <= 15:
            print("FAIL:", *context)


# ------------------------------------------------------------------ log capture
class Capture(logging.Handler):
    def __init__(self):
        logging.Handler.__init__(self, level=logging.DEBUG)
        self.records = []

    def emit(self, record):
        exc = record.exc_info[1] if record.exc_info else None
        self.records.append((record.levelno, record.getMessage(), exc))

    def take(self):
        out, self.records = self.records, []
        return out


CAP = Capture()
LOG = logging.getLogger('plotink.ebb_serial')
LOG.handlers[:] = [CAP]
LOG.setLevel(logging.DEBUG)
LOG.propagate = False
check(ebb_serial.logger is LOG, "module logger identity")


# ------------------------------------------------------------------ fake ports
class ScriptPort(object):
    '''Serial port stub: readline() plays a script of bytes / exceptions, then
    times out (b'') forever.  Anything but write/readline is a failure.'''

    def __init__(self, script, write_exc=None):
        self.script = list(script)
        self.write_exc = write_exc
        self.writes = []
        self.reads = 0

    def write(self, data):
        self.writes.append(data)
        if self.write_exc is not None:
            raise self.write_exc
        return len(data)

    def readline(self):
        idx = self.reads
        self.reads += 1
        item = self.script[idx] if idx < len(self.script) else b''
        if isinstance(item, BaseException):
            raise item
        return item

    def __getattr__(self, name):
        raise AssertionError("unexpected port attribute used: " + name)


class UntouchablePort(object):
    def __getattr__(self, name):
        raise AssertionError("port touched although request is void: " + name)


NO_OK = ("a", "i", "mr", "pi", "qm", "qg", "v")
ERR, INF = logging.ERROR, logging.INFO


def level(verbose):
    return ERR if verbose else INF


# ------------------------------------------------------------------ oracle
def first_event(script, start, limit=101):
    '''What a reader that tolerates an initial read plus 100 retries sees.'''
    for off in range(limit):
        idx = start + off
        item = script[idx] if idx < len(script) else b''
        if isinstance(item, BaseException):
            return 'exc', item, off + 1
        if item != b'':
            return 'line', item, off + 1
    return 'timeout', b'', limit


def unexpected_msg(cmd, resp):
    return ('Unexpected response from EBB.\n    Command: ' + cmd.strip() +
            '\n    Response: ' + resp.strip())


def oracle_query(script, write_exc, cmd, verbose):
    resp, reads, fault = '', 0, write_exc
    if fault is None:
        kind, val, n = first_event(script, 0)
        reads = n
        if kind == 'exc':
            fault = val
        else:
            resp = val.decode('ascii')
            head = cmd.split(',')[0].strip().lower()
            if head not in NO_OK:
                kind, val, n = first_event(script, reads)
                reads += n
                if kind == 'exc':
                    fault = val
    logs = []
    if fault is not None:
        logs.append((level(verbose), "Error reading serial data", None))
        logs.append((INF, "Error context:", fault))
    if 'Err:' in resp:
        logs.append((level(verbose), unexpected_msg(cmd, resp), None))
    return resp, reads, logs


def oracle_command(script, write_exc, cmd, verbose):
    reads, fault, resp = 0, write_exc, ''
    if fault is None:
        kind, val, reads = first_event(script, 0)
        if kind == 'exc':
            fault = val
        else:
            resp = val.decode('ascii')
    logs = []
    if fault is not None:
        if cmd.strip().lower() != 'rb':
            logs.append((level(verbose), 'Failed after command: ' + cmd, None))
            logs.append((INF, "Error context:", fault))
    elif resp.strip()[:2] == 'OK':
        pass
    elif resp != '':
        logs.append((level(verbose), unexpected_msg(cmd, resp), None))
    else:
        logs.append((level(verbose), 'EBB Serial Timeout after command: ' + cmd, None))
    return reads, logs


def call(func, port, cmd, verbose):
    '''verbose None -> use the default argument'''
    CAP.take()
    try:
        if verbose is None:
            res = func(port, cmd)
        else:
            res = func(port, cmd, verbose)
    except BaseException as exc:  # property: never raises
        return ('RAISED', exc), CAP.take()
    return ('OK', res), CAP.take()


def run_query_case(script, write_exc, cmd, verbose, tag):
    port = ScriptPort(script, write_exc)
    (status, res), logs = call(ebb_serial.query, port, cmd, verbose)
    eff_verbose = True if verbose is None else verbose
    exp_resp, exp_reads, exp_logs = oracle_query(script, write_exc, cmd, eff_verbose)
    ctx = (tag, repr(cmd), verbose, write_exc)
    check(status == 'OK', "query raised", res, *ctx)
    if status != 'OK':
        return
    check(port.writes == [cmd.encode('ascii')], "query writes", port.writes, *ctx)
    check(type(res) is str, "query result type", type(res), *ctx)
    check(res == exp_resp, "query result", repr(res), repr(exp_resp), *ctx)
    check(port.reads == exp_reads, "query reads", port.reads, exp_reads, *ctx)
    check(logs == exp_logs, "query logs", logs, exp_logs, *ctx)


def run_command_case(script, write_exc, cmd, verbose, tag):
    port = ScriptPort(script, write_exc)
    (status, res), logs = call(ebb_serial.command, port, cmd, verbose)
    eff_verbose = True if verbose is None else verbose
    exp_reads, exp_logs = oracle_command(script, write_exc, cmd, eff_verbose)
    ctx = (tag, repr(cmd), verbose, write_exc)
    check(status == 'OK', "command raised", res, *ctx)
    if status != 'OK':
        return
    check(res is None, "command result", res, *ctx)
    check(port.writes == [cmd.encode('ascii')], "command writes", port.writes, *ctx)
    check(port.reads == exp_reads, "command reads", port.reads, exp_reads, *ctx)
    check(logs == exp_logs, "command logs", logs, exp_logs, *ctx)


def faults():
    return [serial.SerialException("ser"), IOError("io"), RuntimeError("rt"),
            OSError(5, "os"), serial.SerialTimeoutException("wto")]


# ------------------------------------------------------------------ part B: exhaustive single requests with faults
def part_single_requests():
    query_cmds = ["QM\r", "V\r", "QG\r", "A\r", "I\r", "MR\r", "PI,B,3\r", " qM ,1\r",
                  "v", "QB\r", "QS\r", "QMX\r", "VR\r", "QC\r", "AC,1\r", "S2,0,4\r"]
    empties1 = [0, 1, 2, 99, 100, 101, 140]
    empties2 = [0, 1, 99, 100, 101]
    firsts = [b'0,0,0\r\n', b'!8 Err: Unknown command\r\n', b'\r\n', b'OK\r\n', None] + faults()[:4]
    seconds = [b'OK\r\n', b'\r\n', None, serial.SerialException("ser2"), OSError(6, "os2")]
    n = 0
    for cmd in query_cmds:
        for e1 in empties1:
            for first in firsts:
                for e2 in empties2:
                    for second in seconds:
                        script = [b''] * e1
                        if first is not None:
                            script.append(first)
                        script += [b''] * e2
                        if second is not None:
                            script.append(second)
                        script.append(b'EXTRA\r\n')  # must never be over-read silently
                        verbose = (True, False, None)[n % 3]
                        n += 1
                        run_query_case(script, None, cmd, verbose, ("Bq", e1, first, e2, second))
        for wexc in faults():
            for verbose in (True, False, None):
                run_query_case([b'1\r\n', b'OK\r\n'], wexc, cmd, verbose, ("Bq-write",))

    command_cmds = ["SP,1\r", "RB\r", " rb ", "RB,1\r", "EM,1,1\r", "V\r", "XM,1000,0,0\r", "rb"]
    replies = [b'OK\r\n', b'  OK', b'OKAY\r\n', b'\r\n', b' ', b'!8 Err: bad\r\n', b'NOK\r\n',
               b'O', b'ok\r\n', None] + faults()
    for cmd in command_cmds:
        for e1 in empties1:
            for reply in replies:
                for verbose in (True, False, None):
                    script = [b''] * e1
                    if reply is not None:
                        script.append(reply)
                    script.append(b'EXTRA\r\n')
                    run_command_case(script, None, cmd, verbose, ("Bc", e1, reply))
        for wexc in faults():
            for verbose in (True, False, None):
                run_command_case([b'OK\r\n'], wexc, cmd, verbose, ("Bc-write",))


# ------------------------------------------------------------------ part A: aligned sequences against a device model
class Board(object):
    '''Conforming legacy board: a request written to it queues its reply lines,
    each preceded by a number of empty reads (slow board / short timeout).'''

    def __init__(self, rng):
        self.rng = rng
        self.queue = []
        self.writes = []
        self.serial_no = 0
        self.plan = None  # (kind, data) for the next request

    def gaps(self):
        return [b''] * self.rng.choice([0, 0, 0, 1, 2, 5, 50, 99, 100])

    def write(self, data):
        self.writes.append(data)
        kind, data_line = self.plan
        if kind == 'query-ok':
            self.queue += self.gaps() + [data_line] + self.gaps() + [b'OK\r\n']
        elif kind == 'query-nook':
            self.queue += self.gaps() + [data_line]
        elif kind == 'command':
            self.queue += self.gaps() + [data_line]
        return len(data)

    def readline(self):
        if self.queue:
            return self.queue.pop(0)
        return b''

    def __getattr__(self, name):
        raise AssertionError("unexpected port attribute used: " + name)


def part_sequences():
    rng = random.Random(70707)
    ok_queries = ["QB\r", "QS\r", "QC\r", "QL\r", "QP\r", "QT\r", "QN\r", "QE\r"]
    nook_queries = ["QM\r", "V\r", "QG\r", "A\r", "I\r", "MR\r", "PI,C,1\r", "v\r", "qm\r"]
    commands = ["SP,1\r", "EM,1,1\r", "SM,10,5,5\r", "TP\r", "SC,4,100\r"]
    for seq in range(150):
        board = Board(rng)
        n_written = 0
        for step in range(12):
            kind = rng.choice(['query-ok', 'query-nook', 'command'])
            board.serial_no += 1
            verbose = rng.choice([True, False, None])
            erroneous = rng.random() < 0.15
            if kind == 'command':
                cmd = rng.choice(commands)
                line = b'!8 Err: no %d\r\n' % board.serial_no if erroneous else b'OK\r\n'
                board.plan = (kind, line)
                (status, res), logs = call(ebb_serial.command, board, cmd, verbose)
                check(status == 'OK' and res is None, "seq command result", status, res)
                lvl = level(True if verbose is None else verbose)
                exp = [(lvl, unexpected_msg(cmd, line.decode()), None)] if erroneous else []
                check(logs == exp, "seq command logs", logs, exp)
            else:
                cmd = rng.choice(ok_queries if kind == 'query-ok' else nook_queries)
                if erroneous:
                    line = b'!8 Err: no %d\r\n' % board.serial_no
                else:
                    line = b'%d,%d\r\n' % (board.serial_no, rng.randrange(1000))
                board.plan = (kind, line)
                (status, res), logs = call(ebb_serial.query, board, cmd, verbose)
                check(status == 'OK', "seq query raised", res)
                check(res == line.decode('ascii'), "seq query misaligned", seq, step, cmd, res, line)
                lvl = level(True if verbose is None else verbose)
                exp = [(lvl, unexpected_msg(cmd, line.decode()), None)] if erroneous else []
                check(logs == exp, "seq query logs", logs, exp)
            n_written += 1
            check(len(board.writes) == n_written and board.writes[-1] == cmd.encode('ascii'),
                  "seq single write", seq, step, cmd, board.writes[-3:])
            check(board.queue == [], "seq reply left over / stolen", seq, step, cmd, board.queue)


# ------------------------------------------------------------------ part C: void requests
def part_void():
    for verbose in (True, False, None):
        for func in (ebb_serial.query, ebb_serial.command):
            for port, cmd in ((None, "QM\r"), (UntouchablePort(), None), (None, None)):
                (status, res), logs = call(func, port, cmd, verbose)
                check(status == 'OK' and res is None, "void request result", func.__name__, status, res)
                check(logs == [], "void request logs", logs)
    # keyword form of the verbose argument
    port = ScriptPort([b'7\r\n', b'OK\r\n'])
    check(ebb_serial.query(port_name=port, cmd="QB\r", verbose=False) == '7\r\n', "kw query")
    check(port.reads == 2 and port.writes == [b'QB\r'], "kw query io")
    port = ScriptPort([])
    check(ebb_serial.command(port_name=port, cmd="SP,1\r", verbose=False) is None, "kw command")
    check(CAP.take() == [(INF, 'EBB Serial Timeout after command: SP,1\r', None)], "kw command log")
    check(port.reads == 101 and port.writes == [b'SP,1\r'], "kw command io", port.reads)


part_void()
part_sequences()
part_single_requests()

print("checks: %d  failures: %d" % (CHECKS[0], len(FAILURES)))
sys.exit(1 if FAILURES else 0)
