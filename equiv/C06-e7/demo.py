import os, sys; sys.path.insert(0, os.environ.get('PLOTINK_ROOT', '/tmp/e3_C06'))
"""
Demo / check for property C06:
  Motion/configuration helpers emit exactly the documented EBB command text.

Every helper of the legacy layer (plotink.ebb_motion, function style) and of the
EBB3 layer (plotink.ebb3_motion.EBBMotionWrap) is driven against a fake serial
port that acknowledges every command; the bytes written are compared with an
oracle written here directly from the EBB command documentation.

Exit status 0: property holds on everything that was tried.  1: a mismatch.
"""
import itertools
import logging

logging.disable(logging.CRITICAL)

from plotink import ebb_motion, ebb_serial, ebb3_motion   # noqa: E402

FAILURES = []
CHECKS = [0]


def check(cond, message):
    CHECKS[0] += 1
    if not cond:
        FAILURES.append(message)
        if len(FAILURES) <= 25:
            print('FAIL: ' + message)


# ---------------------------------------------------------------------------
# Fake ports
# ---------------------------------------------------------------------------

class LegacyPort:
    """ Fake pyserial port for the legacy layer: every command is answered "OK",
        the version query with a 2.8.1 firmware banner. """
    def __init__(self, version='2.8.1'):
        self.sent = []
        self._pending = []
        self.version = version

    def write(self, data):
        text = data.decode('ascii')
        self.sent.append(text)
        name = text.split(',')[0].strip().upper()
        if name == 'V':
            self._pending = [('EBBv13_and_above EB Firmware Version '
                              + self.version + '\r\n').encode('ascii')]
        else:
            self._pending = [b'OK\r\n']
        return len(data)

    def readline(self):
        if self._pending:
            return self._pending.pop(0)
        return b'OK\r\n'

    def commands(self):
        """ Everything written, except version queries """
        return [item for item in self.sent if item != 'V\r']


class EBB3Port:
    """ Fake pyserial port for the EBB3 layer: every command is echoed by name
        (firmware 3 "future syntax"); queries are answered from a table. """
    def __init__(self, answers=None):
        self.sent = []
        self._pending = []
        self.answers = dict(answers or {})

    def write(self, data):
        text = data.decode('ascii')
        self.sent.append(text)
        body = text.strip()
        if len(body) == 1 or body[1:2] == ',':
            name = body[0]
        else:
            name = body[0:2]
        if body in self.answers:
            reply = self.answers[body]
        elif name in self.answers:
            reply = self.answers[name]
        else:
            reply = name
        if reply is None:
            self._pending = []
        else:
            self._pending = [(reply + '\r\n').encode('ascii')]
        return len(data)

    def readline(self):
        if self._pending:
            return self._pending.pop(0)
        return b''


def new_ebb3(answers=None):
    ebb = ebb3_motion.EBBMotionWrap()
    ebb.port = EBB3Port(answers)
    return ebb


def legacy_run(func, *args, **kwargs):
    port = LegacyPort()
    func(port, *args, **kwargs)
    return port.commands()


def ebb3_run(method, *args, **kwargs):
    ebb = new_ebb3(kwargs.pop('answers', None))
    result = getattr(ebb, method)(*args, **kwargs)
    check(ebb.err is None, f'{method}{args}: unexpected error {ebb.err!r}')
    return ebb.port.sent, result


def cr(*commands):
    return [c + '\r' for c in commands]


def join(*parts):
    """ The oracle's formatter: documented fields, joined with commas. """
    return ','.join(str(p) for p in parts)


# ---------------------------------------------------------------------------
# Value sets (firmware ranges, zero, negatives)
# ---------------------------------------------------------------------------

STEPS = [0, 1, -1, 2, -7, 255, -1000, 32767, -32768, 8388607, -8388607,
         2147483647, -2147483647]
DURATIONS = [0, 1, 2, 7, 749, 750, 751, 1000, 65535, 16777215]
RATES = [0, 1, 2, 1000, 25000, 65535, 2147483647, -1, -2147483647]
ACCELS = [0, 1, -1, 400, -400, 2147483647, -2147483647]
SERVO = [0, 1, 2, 7500, 12000, 16000, 28000, 65535]
PINS = [0, 1, 2, 3, 4, 7]
CLEAR = [None, 0, 1, 2, 3]


# ---------------------------------------------------------------------------
# 1. XY / AB / absolute moves
# ---------------------------------------------------------------------------

def test_moves():
    for dx, dy, dur in itertools.product(STEPS, STEPS, DURATIONS):
        want = cr(join('SM', dur, dy, dx))       # duration, axis-1/Y, axis-2/X
        got_l = legacy_run(ebb_motion.doXYMove, dx, dy, dur)
        got_3, _ = ebb3_run('xy_move', dx, dy, dur)
        check(got_l == want, f'doXYMove({dx},{dy},{dur}) sent {got_l}, want {want}')
        check(got_3 == want, f'xy_move({dx},{dy},{dur}) sent {got_3}, want {want}')

    for d_a, d_b, dur in itertools.product(STEPS[:9], STEPS[:9], DURATIONS):
        want = cr(join('XM', dur, d_a, d_b))
        got = legacy_run(ebb_motion.doABMove, d_a, d_b, dur)
        check(got == want, f'doABMove({d_a},{d_b},{dur}) sent {got}, want {want}')

    positions = [None, 0, 1, -1, 1234, -4294967, 4294967]
    for rate, pos1, pos2 in itertools.product([0, 2, 1000, 25000], positions, positions):
        if pos1 is not None and pos2 is not None:
            want = cr(join('HM', rate, pos1, pos2))
        else:
            want = cr(join('HM', rate))
        got_l = legacy_run(ebb_motion.doAbsMove, rate, pos1, pos2)
        got_3, _ = ebb3_run('abs_move', rate, pos1, pos2)
        check(got_l == want, f'doAbsMove({rate},{pos1},{pos2}) sent {got_l}, want {want}')
        check(got_3 == want, f'abs_move({rate},{pos1},{pos2}) sent {got_3}, want {want}')
    # optional arguments absent altogether
    check(legacy_run(ebb_motion.doAbsMove, 1000) == cr('HM,1000'), 'doAbsMove(rate only)')
    check(ebb3_run('abs_move', 1000)[0] == cr('HM,1000'), 'abs_move(rate only)')
    check(legacy_run(ebb_motion.doAbsMove, 1000, 0, 0) == cr('HM,1000,0,0'),
          'doAbsMove to (0,0) must keep both zero coordinates')
    check(ebb3_run('abs_move', 1000, 0, 0)[0] == cr('HM,1000,0,0'),
          'abs_move to (0,0) must keep both zero coordinates')


# ---------------------------------------------------------------------------
# 2. Low-level move (legacy layer only)
# ---------------------------------------------------------------------------

def test_low_level_move():
    small_rates = [0, 1, 65535, -1]
    small_steps = [0, 1, -1, 5000]
    small_accel = [0, 1, -400]
    for r_1, s_1, a_1, r_2, s_2, a_2 in itertools.product(
            small_rates, small_steps, small_accel, small_rates, small_steps, small_accel):
        axis1_still = (s_1 == 0) or (r_1 == 0 and a_1 == 0)
        axis2_still = (s_2 == 0) or (r_2 == 0 and a_2 == 0)
        for clear in (None, 0, 3):
            if axis1_still and axis2_still:
                want = []
            elif clear is None:
                want = cr(join('LM', r_1, s_1, a_1, r_2, s_2, a_2))
            else:
                want = cr(join('LM', r_1, s_1, a_1, r_2, s_2, a_2, clear))
            got = legacy_run(ebb_motion.doLowLevelMove, r_1, s_1, a_1, r_2, s_2, a_2, clear)
            check(got == want,
                  f'doLowLevelMove({r_1},{s_1},{a_1},{r_2},{s_2},{a_2},{clear}) '
                  f'sent {got}, want {want}')
    for r_1, a_1, clear in itertools.product(RATES, ACCELS, CLEAR):
        args = (r_1, 77, a_1, 0, 0, 0)
        if r_1 == 0 and a_1 == 0:
            want = []
        elif clear is None:
            want = cr(join('LM', *args))
        else:
            want = cr(join('LM', *args, clear))
        got = legacy_run(ebb_motion.doLowLevelMove, *args, clear)
        check(got == want, f'doLowLevelMove{args + (clear,)} sent {got}, want {want}')
    got = legacy_run(ebb_motion.doLowLevelMove, 10, 20, 30, 40, 50, 60)
    check(got == cr('LM,10,20,30,40,50,60'), 'doLowLevelMove without clear')


# ---------------------------------------------------------------------------
# 3. Timed pause
# ---------------------------------------------------------------------------

def parse_pause(sent, label):
    """ Each element must be "SM,<d>,0,0\r"; return the list of d """
    out = []
    for item in sent:
        fields = item.split(',')
        good = (item.endswith('\r') and len(fields) == 4 and fields[0] == 'SM'
                and fields[2] == '0' and fields[3] == '0\r' and fields[1].isdigit())
        check(good, f'{label}: {item!r} is not a zero-move SM command')
        if not good:
            return None
        out.append(int(fields[1]))
    return out


def test_timed_pause():
    values = list(range(-20, 3100)) + [
        3749, 3750, 3751, 7499, 7500, 7501, 9999, 10000, 12345, 59999, 60000,
        65535, 65536, 74999, 75000, 75001, 100000, 123457, -750, -751, -100000]
    for n_ms in values:
        got_l = legacy_run(ebb_motion.doTimedPause, n_ms)
        got_3, _ = ebb3_run('timed_pause', n_ms)
        check(got_l == got_3, f'timed pause {n_ms}: layers differ: {got_l} / {got_3}')
        for label, sent in (('doTimedPause', got_l), ('timed_pause', got_3)):
            if n_ms <= 0:
                check(sent == [], f'{label}({n_ms}) must send nothing, sent {sent}')
                continue
            chunks = parse_pause(sent, f'{label}({n_ms})')
            if chunks is None:
                continue
            check(all(1 <= c <= 750 for c in chunks),
                  f'{label}({n_ms}): chunk outside 1..750: {chunks[:6]}')
            check(sum(chunks) == n_ms,
                  f'{label}({n_ms}): chunks sum to {sum(chunks)}')
            check(len(chunks) >= 1, f'{label}({n_ms}): nothing sent')
    # spot values against the literal documented text
    check(legacy_run(ebb_motion.doTimedPause, 1) == cr('SM,1,0,0'), 'doTimedPause(1)')
    check(ebb3_run('timed_pause', 1)[0] == cr('SM,1,0,0'), 'timed_pause(1)')
    check(legacy_run(ebb_motion.doTimedPause, 750) == cr('SM,750,0,0'), 'doTimedPause(750)')
    check(ebb3_run('timed_pause', 750)[0] == cr('SM,750,0,0'), 'timed_pause(750)')
    check(legacy_run(ebb_motion.doTimedPause, 751, verbose=False)
          == cr('SM,750,0,0', 'SM,1,0,0'), 'doTimedPause(751)')
    check(ebb3_run('timed_pause', 751)[0] == cr('SM,750,0,0', 'SM,1,0,0'), 'timed_pause(751)')


# ---------------------------------------------------------------------------
# 4. Motors
# ---------------------------------------------------------------------------

def clamp05(value):
    """ Oracle: documented resolution range is 0..5 """
    if value < 0:
        return 0
    if value > 5:
        return 5
    return value


QE_TO_EM = {0: 0, 1: 5, 2: 4, 4: 3, 8: 2, 16: 1}    # from the QE / EM documentation


def oracle_motors_enable(res_1, res_2, qe_1, qe_2):
    """ Documented command sequence for enabling motors at (res_1, res_2),
        while the board reports QE,<qe_1>,<qe_2>. """
    c_1, c_2 = clamp05(res_1), clamp05(res_2)
    out = []
    if (c_1 == 0) != (c_2 == 0):
        out.append('CU,50,0')               # allow a single motor to be enabled
    if c_1 == 0 and c_2 != 0:
        out.append('QE')
        in_use = QE_TO_EM[qe_1] if qe_1 != 0 else QE_TO_EM[qe_2]
        if in_use != c_2:
            out.append(join('EM', c_2, c_2))    # set global resolution scale first
    out.append(join('EM', c_1, c_2))
    return cr(*out)


def test_motors():
    check(legacy_run(ebb_motion.sendDisableMotors) == cr('EM,0,0'), 'sendDisableMotors')
    check(ebb3_run('motors_disable')[0] == cr('EM,0,0'), 'motors_disable')

    for res in list(range(-12, 20)) + [-1000, 255, 1000, 65535, -2147483647, 2147483647]:
        want = cr(join('EM', clamp05(res), clamp05(res)))
        got_l = legacy_run(ebb_motion.sendEnableMotors, res)
        check(got_l == want, f'sendEnableMotors({res}) sent {got_l}, want {want}')
        got_l = legacy_run(ebb_motion.sendEnableMotors, res, False)
        check(got_l == want, f'sendEnableMotors({res}, False) sent {got_l}, want {want}')
        got_3, _ = ebb3_run('motors_enable', res, res, answers={'QE': 'QE,0,0'})
        check(got_3 == want, f'motors_enable({res},{res}) sent {got_3}, want {want}')

    qe_values = [0, 1, 2, 4, 8, 16]
    res_values = list(range(-3, 9)) + [-100, 100]
    for res_1, res_2 in itertools.product(res_values, res_values):
        for qe_1, qe_2 in itertools.product(qe_values, qe_values):
            want = oracle_motors_enable(res_1, res_2, qe_1, qe_2)
            got, _ = ebb3_run('motors_enable', res_1, res_2,
                              answers={'QE': f'QE,{qe_1},{qe_2}'})
            check(got == want,
                  f'motors_enable({res_1},{res_2}) with QE,{qe_1},{qe_2} '
                  f'sent {got}, want {want}')

    # the QE decode itself
    for qe_1, qe_2 in itertools.product(qe_values, qe_values):
        sent, result = ebb3_run('motors_query_enabled', answers={'QE': f'QE,{qe_1},{qe_2}'})
        check(sent == cr('QE'), f'motors_query_enabled sent {sent}')
        check(result == (QE_TO_EM[qe_1], QE_TO_EM[qe_2]) and isinstance(result, tuple),
              f'motors_query_enabled on QE,{qe_1},{qe_2} returned {result!r}')

    # a failed QE read ends the request: nothing is sent after the query
    for res_2 in (1, 3, 5, 9):
        for reply in ('!8 Err: bad', None):
            ebb = new_ebb3({'QE': reply})
            ebb.motors_enable(0, res_2)
            check(ebb.port.sent == cr('CU,50,0', 'QE'),
                  f'motors_enable(0,{res_2}) after failed QE sent {ebb.port.sent}')
            check(ebb.err is not None, 'failed QE must be recorded as an error')
            check(ebb.motors_query_enabled() is None, 'motors_query_enabled after error')


# ---------------------------------------------------------------------------
# 5. Pen, servo, I/O, variables
# ---------------------------------------------------------------------------

def test_pen_and_io():
    delays = [0, 1, 2, 100, 500, 65535, -1]
    for delay, pin in itertools.product(delays, [None] + PINS):
        for state, legacy, method in ((0, ebb_motion.sendPenDown, 'pen_lower'),
                                      (1, ebb_motion.sendPenUp, 'pen_raise')):
            if pin is None:
                want = cr(join('SP', state, delay))
            else:
                want = cr(join('SP', state, delay, pin))
            got_l = legacy_run(legacy, delay, pin)
            got_3, _ = ebb3_run(method, delay, pin)
            check(got_l == want, f'{legacy.__name__}({delay},{pin}) sent {got_l}, want {want}')
            check(got_3 == want, f'{method}({delay},{pin}) sent {got_3}, want {want}')
    check(legacy_run(ebb_motion.sendPenDown, 0) == cr('SP,0,0'), 'sendPenDown(0)')
    check(legacy_run(ebb_motion.sendPenUp, 0) == cr('SP,1,0'), 'sendPenUp(0)')
    check(ebb3_run('pen_lower', 0)[0] == cr('SP,0,0'), 'pen_lower(0)')
    check(ebb3_run('pen_raise', 0)[0] == cr('SP,1,0'), 'pen_raise(0)')

    check(legacy_run(ebb_motion.TogglePen) == cr('TP'), 'TogglePen')

    for value in SERVO:
        for code, legacy, method in ((5, ebb_motion.setPenDownPos, 'pen_pos_down'),
                                     (4, ebb_motion.setPenUpPos, 'pen_pos_up'),
                                     (12, ebb_motion.setPenDownRate, 'pen_rate_down'),
                                     (11, ebb_motion.setPenUpRate, 'pen_rate_up')):
            want = cr(join('SC', code, value))
            got_l = legacy_run(legacy, value)
            got_3, _ = ebb3_run(method, value)
            check(got_l == want, f'{legacy.__name__}({value}) sent {got_l}, want {want}')
            check(got_3 == want, f'{method}({value}) sent {got_3}, want {want}')

    for pin, state in itertools.product(PINS, [0, 1]):
        want = cr(join('PO', 'B', pin, state), join('PD', 'B', pin, 0))
        got_l = legacy_run(ebb_motion.PBOutConfig, pin, state)
        got_3, _ = ebb3_run('dio_b_config', pin, state, 0)
        check(got_l == want, f'PBOutConfig({pin},{state}) sent {got_l}, want {want}')
        check(got_3 == want, f'dio_b_config({pin},{state},0) sent {got_3}, want {want}')
        want_in = cr(join('PO', 'B', pin, state), join('PD', 'B', pin, 1))
        got_3, _ = ebb3_run('dio_b_config', pin, state, 1)
        check(got_3 == want_in, f'dio_b_config({pin},{state},1) sent {got_3}, want {want_in}')

        want = cr(join('PO', 'B', pin, state))
        got_l = legacy_run(ebb_motion.PBOutValue, pin, state)
        got_3, _ = ebb3_run('dio_b_set', pin, state)
        check(got_l == want, f'PBOutValue({pin},{state}) sent {got_l}, want {want}')
        check(got_3 == want, f'dio_b_set({pin},{state}) sent {got_3}, want {want}')

        sent, value = ebb3_run('dio_b_read', pin, answers={'PI': f'PI,{state}'})
        check(sent == cr(join('PI', 'B', pin)), f'dio_b_read({pin}) sent {sent}')
        check(value is bool(state), f'dio_b_read({pin}) returned {value!r}')

    for timeout, state in itertools.product([0, 1, 1000, 60000, 4294967295], [None, 0, 1]):
        if state is None:
            want = cr(join('SR', timeout))
        else:
            want = cr(join('SR', timeout, state))
        got_l = legacy_run(ebb_motion.servo_timeout, timeout, state)
        got_3, _ = ebb3_run('servo_timeout', timeout, state)
        check(got_l == want, f'legacy servo_timeout({timeout},{state}) sent {got_l}, want {want}')
        check(got_3 == want, f'EBB3 servo_timeout({timeout},{state}) sent {got_3}, want {want}')
    check(legacy_run(ebb_motion.servo_timeout, 0) == cr('SR,0'), 'legacy servo_timeout(0)')
    check(ebb3_run('servo_timeout', 0)[0] == cr('SR,0'), 'EBB3 servo_timeout(0)')

    for value in (0, 1, 127, 255):
        got_l = legacy_run(ebb_motion.setEBBLV, value)
        check(got_l == cr(join('SL', value)), f'setEBBLV({value}) sent {got_l}')
        for index in (0, 1, 15, 31):
            sent, okay = ebb3_run('var_write', value, index)
            check(sent == cr(join('SL', value, index)) and okay is True,
                  f'var_write({value},{index}) sent {sent} -> {okay!r}')
            sent, back = ebb3_run('var_read', index, answers={'QL': f'QL,{value}'})
            check(sent == cr(join('QL', index)) and back == value,
                  f'var_read({index}) sent {sent} -> {back!r}')

    check(ebb3_run('clear_steps')[0] == cr('CS'), 'clear_steps')
    check(ebb3_run('clear_accumulators')[0] == cr('T3,1,0,0,0,0,0,0,3'), 'clear_accumulators')
    sent, steps = ebb3_run('query_steps', answers={'QS': 'QS,-12,3400'})
    check(sent == cr('QS') and steps == (-12, 3400), f'query_steps sent {sent} -> {steps!r}')
    sent, volts = ebb3_run('query_voltage', answers={'QC': 'QC,0394,0300'})
    check(sent == cr('QC') and volts is True, f'query_voltage sent {sent} -> {volts!r}')
    sent, pair = ebb3_run('query_current', answers={'QC': 'QC,0394,0300'})
    check(sent == cr('QC') and pair == (394, 300), f'query_current sent {sent} -> {pair!r}')


# ---------------------------------------------------------------------------
# 6. No port: nothing is sent.  (EBB3: also nothing once an error is recorded.)
# ---------------------------------------------------------------------------

def test_no_port():
    calls = []
    saved = (ebb_serial.command, ebb_serial.query)

    def spy_command(port_name, cmd, verbose=True):
        calls.append(('command', cmd))
        return saved[0](port_name, cmd, verbose)

    def spy_query(port_name, cmd, verbose=True):
        calls.append(('query', cmd))
        return saved[1](port_name, cmd, verbose)

    ebb_serial.command, ebb_serial.query = spy_command, spy_query
    try:
        ebb_motion.doABMove(None, 1, 2, 3)
        ebb_motion.doTimedPause(None, 2000)
        ebb_motion.doLowLevelMove(None, 1, 2, 3, 4, 5, 6, 1)
        ebb_motion.doXYMove(None, 1, 2, 3)
        ebb_motion.doAbsMove(None, 1000, 0, 0)
        ebb_motion.sendDisableMotors(None)
        for res in (-1, 0, 1, 5, 6):
            ebb_motion.sendEnableMotors(None, res)
        ebb_motion.sendPenDown(None, 100, 0)
        ebb_motion.sendPenUp(None, 100)
        ebb_motion.PBOutConfig(None, 3, 0)
        ebb_motion.PBOutValue(None, 3, 1)
        ebb_motion.TogglePen(None)
        ebb_motion.setPenDownPos(None, 12000)
        ebb_motion.setPenDownRate(None, 400)
        ebb_motion.setPenUpPos(None, 16000)
        ebb_motion.setPenUpRate(None, 400)
        ebb_motion.setEBBLV(None, 3)
        ebb_motion.servo_timeout(None, 60000, 1)
    finally:
        ebb_serial.command, ebb_serial.query = saved
    check(calls == [], f'legacy helpers with no port transmitted {calls[:5]}')

    class Spy(ebb3_motion.EBBMotionWrap):
        """ Records every attempt to transmit """
        def __init__(self):
            ebb3_motion.EBBMotionWrap.__init__(self)
            self.attempts = []

        def command(self, cmd):
            self.attempts.append(cmd)
            return ebb3_motion.EBBMotionWrap.command(self, cmd)

        def query(self, qry):
            self.attempts.append(qry)
            return ebb3_motion.EBBMotionWrap.query(self, qry)

    def drive(ebb):
        ebb.timed_pause(2000)
        ebb.xy_move(1, 2, 3)
        ebb.abs_move(1000, 0, 0)
        ebb.motors_disable()
        for res_1, res_2 in itertools.product((-1, 0, 1, 5, 6), repeat=2):
            ebb.motors_enable(res_1, res_2)
        check(ebb.motors_query_enabled() is None, 'motors_query_enabled without a port')
        ebb.clear_steps()
        ebb.clear_accumulators()
        ebb.pen_lower(100, 0)
        ebb.pen_raise(100)
        ebb.dio_b_config(3, 0, 0)
        ebb.dio_b_set(3, 1)
        ebb.dio_b_read(3)
        ebb.pen_pos_down(12000)
        ebb.pen_pos_up(16000)
        ebb.pen_rate_down(400)
        ebb.pen_rate_up(400)
        ebb.servo_timeout(60000, 1)
        ebb.var_write(1, 2)
        ebb.var_read(2)

    ebb = Spy()
    drive(ebb)
    check(ebb.attempts == [], f'EBB3 helpers with no port transmitted {ebb.attempts[:5]}')

    ebb = Spy()
    ebb.port = EBB3Port()
    ebb.err = 'earlier fatal error'
    drive(ebb)
    check(ebb.port.sent == [], f'EBB3 helpers after an error wrote {ebb.port.sent[:5]}')


def main():
    test_moves()
    test_low_level_move()
    test_timed_pause()
    test_motors()
    test_pen_and_io()
    test_no_port()
    if FAILURES:
        print(f'C06 demo: {len(FAILURES)} of {CHECKS[0]} checks FAILED')
        return 1
    print(f'C06 demo: all {CHECKS[0]} checks passed')
    return 0


if __name__ == '__main__':
    sys.exit(main())
