import os, sys; sys.path.insert(0, os.environ.get('PLOTINK_ROOT', '/tmp/wtf_C14'))
# Demo / check for property C14: R-tree intersection query equals brute force.
#
# Oracle: a brute-force scan with the closed-interval overlap definition
# ("shares at least one point, touching counts"), written independently of the library.
# A watchdog alarm turns a non-terminating construction into a failure.

import copy
import itertools
import math
import random
import signal

from plotink import rtree

FAILURES = []


def check(cond, msg):
    if not cond:
        FAILURES.append(msg)
        if len(FAILURES) > 20:
            finish()


def finish():
    if FAILURES:
        for line in FAILURES[:20]:
            print("FAIL:", line)
        sys.exit(1)
    print("C14 demo OK: %d collections, %d queries checked" % (N_COLLECTIONS, N_QUERIES))
    sys.exit(0)


def _timeout(_signum, _frame):
    print("FAIL: watchdog expired - construction or query did not terminate")
    os._exit(2)


signal.signal(signal.SIGALRM, _timeout)
signal.alarm(120)

N_COLLECTIONS = 0
N_QUERIES = 0


# ---------------------------------------------------------------- oracle
def shares_a_point(box, query):
    """Closed rectangles intersect iff their projections intersect on both axes."""
    bx0, by0, bx1, by1 = box
    qx0, qy0, qx1, qy1 = query
    x_overlap = max(bx0, qx0) <= min(bx1, qx1)
    y_overlap = max(by0, qy0) <= min(by1, qy1)
    return x_overlap and y_overlap


def brute(items, query):
    return set(ident for ident, box in items if shares_a_point(box, query))


# ---------------------------------------------------------------- structure walk
def walk(node, depth=0):
    yield node, depth
    for sub in node.subtrees:
        for pair in walk(sub, depth + 1):
            yield pair


def check_structure(label, items, index):
    """Extents are the exact hull of the node's boxes; every box is reachable."""
    if items:
        check(index.xmin == min(b[0] for _, b in items), label + ": root xmin")
        check(index.ymin == min(b[1] for _, b in items), label + ": root ymin")
        check(index.xmax == max(b[2] for _, b in items), label + ": root xmax")
        check(index.ymax == max(b[3] for _, b in items), label + ": root ymax")
    else:
        check((index.xmin, index.ymin, index.xmax, index.ymax)
              == (math.inf, math.inf, -math.inf, -math.inf), label + ": empty extents")
    reachable = set()
    for node, depth in walk(index):
        check(depth <= 200, label + ": suspicious depth")
        check(not (node.bboxes and node.subtrees), label + ": node stores both")
        check(len(node.subtrees) in (0, 4), label + ": subtree count")
        for ident, box in node.bboxes:
            reachable.add((ident, tuple(box)))
            check(node.xmin <= box[0] and node.ymin <= box[1]
                  and node.xmax >= box[2] and node.ymax >= box[3], label + ": box outside extent")
    check(reachable == set((i, tuple(b)) for i, b in items), label + ": stored boxes differ")


# ---------------------------------------------------------------- queries
def queries_for(items, rng):
    xs = sorted(set(v for _, b in items for v in (b[0], b[2]))) or [0]
    ys = sorted(set(v for _, b in items for v in (b[1], b[3]))) or [0]
    lo_x, hi_x, lo_y, hi_y = xs[0], xs[-1], ys[0], ys[-1]
    span_x = (hi_x - lo_x) or 1
    span_y = (hi_y - lo_y) or 1
    out = [
        (lo_x, lo_y, hi_x, hi_y),                       # whole hull
        (-math.inf, -math.inf, math.inf, math.inf),     # whole plane
        (hi_x, hi_y, hi_x + 1, hi_y + 1),               # touches the far corner only
        (lo_x - 1, lo_y - 1, lo_x, lo_y),               # touches the near corner only
        (hi_x + 1, lo_y, hi_x + 2, hi_y),               # just outside
        (lo_x, hi_y + 0.5, hi_x, hi_y + 1),             # just above
        (lo_x - 2, lo_y - 2, lo_x - 1, lo_y - 1),       # far away
    ]
    # the mean centre (the split point of the root) as point, cross-hair and quadrants
    if items:
        c_x = sum((b[0] + b[2]) / 2.0 for _, b in items) / len(items)
        c_y = sum((b[1] + b[3]) / 2.0 for _, b in items) / len(items)
        out += [(c_x, c_y, c_x, c_y), (lo_x, c_y, hi_x, c_y), (c_x, lo_y, c_x, hi_y),
                (lo_x, lo_y, c_x, c_y), (c_x, c_y, hi_x, hi_y),
                (c_x, lo_y, hi_x, c_y), (lo_x, c_y, c_x, hi_y)]
    # queries built from box coordinates: exact touching on edges and corners
    for _ in range(25):
        x_a, x_b = sorted((rng.choice(xs), rng.choice(xs)))
        y_a, y_b = sorted((rng.choice(ys), rng.choice(ys)))
        out.append((x_a, y_a, x_b, y_b))
    # degenerate queries: points and segments on box coordinates
    for _ in range(10):
        x_a, y_a = rng.choice(xs), rng.choice(ys)
        out.append((x_a, y_a, x_a, y_a))
        out.append((x_a, lo_y, x_a, hi_y))
        out.append((lo_x, y_a, hi_x, y_a))
    # a copy of some boxes, and boxes nudged by one ulp either way
    for _, b in items[:8]:
        out.append(tuple(b))
        right = sorted((math.nextafter(b[2], math.inf), math.nextafter(b[2], math.inf) + 1))
        left = sorted((b[0] - 1, math.nextafter(b[0], -math.inf)))
        out.append((right[0], b[1], right[1], b[3]))      # one ulp right of the box
        out.append((left[0], b[1], left[1], b[3]))        # one ulp left of the box
    # arbitrary float queries around the hull
    for _ in range(25):
        x_a, x_b = sorted(lo_x - 0.3 * span_x + rng.random() * 1.6 * span_x for _ in range(2))
        y_a, y_b = sorted(lo_y - 0.3 * span_y + rng.random() * 1.6 * span_y for _ in range(2))
        out.append((x_a, y_a, x_b, y_b))
    return out


def run_collection(label, items, rng):
    global N_COLLECTIONS, N_QUERIES
    N_COLLECTIONS += 1
    snapshot = copy.deepcopy(items)
    index = rtree.Index(items)                    # must terminate (watchdog / RecursionError)
    check(items == snapshot, label + ": construction mutated its input")
    check_structure(label, items, index)
    for query in queries_for(items, rng):
        N_QUERIES += 1
        got = index.intersection(query)
        want = brute(items, query)
        check(type(got) is set, label + ": result is not a set")
        if got != want:
            check(False, "%s: query %r missed %r extra %r"
                  % (label, query, sorted(want - got, key=repr)[:5], sorted(got - want, key=repr)[:5]))
        again = index.intersection(query)
        check(again == want and again is not got, label + ": repeated query differs / aliases")
    check(items == snapshot, label + ": querying mutated the input")


# ---------------------------------------------------------------- collections
def rand_int_boxes(rng, count, grid, degenerate_share):
    items = []
    for ident in range(count):
        x_a, x_b = sorted((rng.randint(0, grid), rng.randint(0, grid)))
        y_a, y_b = sorted((rng.randint(0, grid), rng.randint(0, grid)))
        roll = rng.random()
        if roll < degenerate_share / 3:
            x_b = x_a                                 # vertical stroke
        elif roll < 2 * degenerate_share / 3:
            y_b = y_a                                 # horizontal stroke
        elif roll < degenerate_share:
            x_b, y_b = x_a, y_a                       # a dot
        items.append((ident, (x_a, y_a, x_b, y_b)))
    return items


def rand_float_boxes(rng, count, scale):
    items = []
    for ident in range(count):
        x_a, x_b = sorted((rng.uniform(-scale, scale), rng.uniform(-scale, scale)))
        y_a, y_b = sorted((rng.uniform(-scale, scale), rng.uniform(-scale, scale)))
        items.append((ident, (x_a, y_a, x_b, y_b)))
    return items


def main():
    rng = random.Random(140014)

    fixed = {
        "empty": [],
        "single": [(7, (1, 2, 3, 4))],
        "single point": [("p", (0.5, 0.5, 0.5, 0.5))],
        "two disjoint": [(0, (0, 0, 1, 1)), (1, (5, 5, 6, 6))],
        "two touching corner": [(0, (0, 0, 1, 1)), (1, (1, 1, 2, 2))],
        "two sharing edge": [(0, (0, 0, 1, 1)), (1, (1, 0, 2, 1))],
        "identical x40": [(k, (2, 3, 4, 5)) for k in range(40)],
        "identical points x40": [(k, (1.25, -3.5, 1.25, -3.5)) for k in range(40)],
        "nested": [(k, (-k, -k, k, k)) for k in range(30)],
        "nested off-centre": [(k, (0, 0, k, k)) for k in range(30)],
        "diagonal dots": [(k, (k, k, k, k)) for k in range(33)],
        "horizontal strokes": [(k, (k % 5, k, k % 5 + 7, k)) for k in range(40)],
        "vertical strokes": [(k, (k, k % 4, k, k % 4 + 9)) for k in range(40)],
        "cross-hair on centre": [("h", (-4, 0, 4, 0)), ("v", (0, -4, 0, 4)),
                                  ("a", (-4, -4, -1, -1)), ("b", (1, 1, 4, 4)),
                                  ("c", (-4, 1, -1, 4)), ("d", (1, -4, 4, -1))],
        "tiles sharing edges": [((c, r), (c, r, c + 1, r + 1)) for c in range(8) for r in range(8)],
        "boxes ending on split line": [(k, (-1 - k % 3, -2, 0, 2)) for k in range(6)]
                                      + [(10 + k, (0, -2, 1 + k % 3, 2)) for k in range(6)],
        "symmetric about origin": [(k, (s * 3 - 1, t * 3 - 1, s * 3 + 1, t * 3 + 1))
                                   for k, (s, t) in enumerate(itertools.product((-1, 0, 1), repeat=2))],
        "duplicate ids": [(k % 3, (k, 0, k + 1, 1)) for k in range(12)],
        "huge and tiny": [(0, (-1e300, -1e300, 1e300, 1e300)), (1, (1e-300, 1e-300, 2e-300, 2e-300)),
                          (2, (0, 0, 0, 0)), (3, (5, 5, 6, 6)), (4, (-6, -6, -5, -5))],
        "mixed int float": [(0, (0, 0, 1, 1)), (1, (0.0, 0.5, 2, 2.5)), (2, (3, 3, 3, 3.0)),
                            (3, (-1.5, -1, 0, 0)), (4, (1, 1, 1, 1))],
        "lists as boxes": [(k, [k, 2 * k, k + 2, 2 * k + 1]) for k in range(15)],
        "far from origin": [(k, (1e9 + k, 1e9 - k, 1e9 + k + 1.5, 1e9 - k + 0.5)) for k in range(25)],
    }
    for label, items in fixed.items():
        run_collection(label, items, rng)

    # small exhaustive family: every multiset of 3 boxes from a tiny pool, incl. degenerate ones
    pool = [(0, 0, 0, 0), (0, 0, 1, 1), (1, 1, 2, 2), (0, 1, 2, 1), (1, 0, 1, 2), (2, 2, 2, 2), (0, 0, 2, 2)]
    for combo in itertools.combinations_with_replacement(pool, 3):
        run_collection("exhaustive %r" % (combo,), list(enumerate(combo)), rng)

    for trial in range(60):
        count = rng.choice((1, 2, 3, 5, 8, 13, 30, 80))
        grid = rng.choice((1, 2, 4, 10, 50))
        share = rng.choice((0.0, 0.3, 0.8, 1.0))
        run_collection("rand int #%d n=%d grid=%d" % (trial, count, grid),
                       rand_int_boxes(rng, count, grid, share), rng)

    for trial in range(30):
        count = rng.choice((1, 4, 9, 40, 90))
        run_collection("rand float #%d n=%d" % (trial, count),
                       rand_float_boxes(rng, count, rng.choice((1.0, 1e-3, 1e6))), rng)

    large = []
    for ident in range(600):                          # many small boxes, as in a real drawing
        x_a, y_a = rng.randint(0, 300), rng.randint(0, 300)
        large.append((ident, (x_a, y_a, x_a + rng.randint(0, 12), y_a + rng.randint(0, 12))))
    run_collection("large", large, rng)
    finish()


main()
