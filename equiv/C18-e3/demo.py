import os, sys; sys.path.insert(0, os.environ.get('PLOTINK_ROOT', '/tmp/wte_C18'))
"""
Check property C18 (travel-limit helpers) of plotink.plot_utils.

Part A: exact oracle.  All values are dyadic rationals (multiples of 1/8, small),
        so every float addition/subtraction in the library is exact and the
        documented expectation can be evaluated with fractions.Fraction.
Part B: reference model (a verbatim copy of the documented behaviour) compared on
        pseudo-random floats / ints / mixed types, including result *type* and
        signed zeros, so that any slip in tie handling is seen.
Part C: point_in_bounds: default tolerance, argument shapes, agreement with the
        tolerant checker per coordinate.
Deterministic, no hardware.
"""
import itertools
import math
import random
from fractions import Fraction as F

from plotink import plot_utils as pu

failures = []
checks = 0


def fail(msg):
    failures.append(msg)
    if len(failures) > 20:
        report()


def report():
    for f in failures:
        print("FAIL:", f)
    print("checks:", checks, "failures:", len(failures))
    sys.exit(1 if failures else 0)


def same(a, b):
    """Strict sameness: type, value and sign of zero."""
    if type(a) is not type(b):
        return False
    if isinstance(a, float):
        if math.isnan(a) or math.isnan(b):
            return math.isnan(a) and math.isnan(b)
        return a == b and math.copysign(1.0, a) == math.copysign(1.0, b)
    return a == b


# ---------------------------------------------------------------- Part A
eighths = [F(n, 8) for n in range(-24, 25)]          # -3 .. 3 step 1/8
bound_vals = [F(n, 4) for n in range(-8, 9)]         # -2 .. 2 step 1/4
tols = [F(0), F(1, 8), F(1, 4), F(1, 2), F(1), F(5, 2)]


def to_num(fr, mode):
    """Render an exact Fraction as float, or int when integral and mode says so."""
    if mode == 'int' and fr.denominator == 1:
        return int(fr)
    if mode == 'frac':
        return fr
    return float(fr)


def expected_clamp(v, lo, hi):
    if v > hi:
        return hi
    if v < lo:
        return lo
    return v


for mode in ('float', 'int', 'frac'):
    for lo_f, hi_f in itertools.product(bound_vals, bound_vals):
        if lo_f > hi_f:
            continue
        lo, hi = to_num(lo_f, mode), to_num(hi_f, mode)
        for v_f in eighths:
            v = to_num(v_f, mode)
            exp = expected_clamp(v_f, lo_f, hi_f)
            outside = v_f < lo_f or v_f > hi_f

            # plain clamp
            r = pu.constrainLimits(v, lo, hi)
            checks += 1
            if not (r == exp and lo <= r <= hi):
                fail("constrainLimits(%r,%r,%r) -> %r, expected %r" % (v, lo, hi, r, exp))

            # clamp with flag
            res = pu.checkLimits(v, lo, hi)
            checks += 1
            if not (isinstance(res, tuple) and len(res) == 2):
                fail("checkLimits(%r,%r,%r) returned %r" % (v, lo, hi, res))
                continue
            r, flag = res
            if not (r == exp and lo <= r <= hi):
                fail("checkLimits(%r,%r,%r) value %r, expected %r" % (v, lo, hi, r, exp))
            if flag is not outside:
                fail("checkLimits(%r,%r,%r) flag %r, expected %r" % (v, lo, hi, flag, outside))
            if not outside and r is not v:
                fail("checkLimits(%r,%r,%r) did not return the value itself" % (v, lo, hi))

            # clamp with tolerance band
            for t_f in tols:
                t = to_num(t_f, mode)
                res = pu.checkLimitsTol(v, lo, hi, t)
                checks += 1
                if not (isinstance(res, tuple) and len(res) == 2):
                    fail("checkLimitsTol(%r,%r,%r,%r) returned %r" % (v, lo, hi, t, res))
                    continue
                r, flag = res
                far = v_f > hi_f + t_f or v_f < lo_f - t_f
                if not (r == exp and lo <= r <= hi):
                    fail("checkLimitsTol(%r,%r,%r,%r) value %r, expected %r" % (v, lo, hi, t, r, exp))
                if flag is not far:
                    fail("checkLimitsTol(%r,%r,%r,%r) flag %r, expected %r" % (v, lo, hi, t, flag, far))
                if not outside and r is not v:
                    fail("checkLimitsTol(%r,%r,%r,%r) did not return the value itself" % (v, lo, hi, t))

# 2-D test against the exact oracle and against the tolerant checker per coordinate
pt_vals = [F(n, 8) for n in range(-20, 21, 3)] + [F(-1), F(1), F(0), F(3, 2), F(-3, 2)]
rects = [(F(-1), F(-1, 2), F(1), F(3, 2)), (F(0), F(0), F(0), F(0)),
         (F(-2), F(1), F(-2), F(2)), (F(-1, 4), F(-2), F(5, 4), F(-1))]
for mode in ('float', 'int', 'frac'):
    for (x0f, y0f, x1f, y1f) in rects:
        x0, y0, x1, y1 = (to_num(q, mode) for q in (x0f, y0f, x1f, y1f))
        for t_f in tols:
            t = to_num(t_f, mode)
            for xf, yf in itertools.product(pt_vals, pt_vals):
                x, y = to_num(xf, mode), to_num(yf, mode)
                exp = (x0f - t_f <= xf <= x1f + t_f) and (y0f - t_f <= yf <= y1f + t_f)
                got = pu.point_in_bounds([x, y], [[x0, y0], [x1, y1]], t)
                checks += 1
                if got is not exp:
                    fail("point_in_bounds(%r,%r,tol=%r) -> %r, expected %r"
                         % ([x, y], [[x0, y0], [x1, y1]], t, got, exp))
                per_axis = not (pu.checkLimitsTol(x, x0, x1, t)[1] or pu.checkLimitsTol(y, y0, y1, t)[1])
                if got is not per_axis:
                    fail("point_in_bounds disagrees with checkLimitsTol per axis at %r %r tol %r"
                         % ([x, y], [[x0, y0], [x1, y1]], t))


# ---------------------------------------------------------------- Part B
def ref_checkLimits(value, lower_bound, upper_bound):
    if value > upper_bound:
        return upper_bound, True
    if value < lower_bound:
        return lower_bound, True
    return value, False


def ref_checkLimitsTol(value, lower_bound, upper_bound, tolerance):
    if value > upper_bound:
        if value > (upper_bound + tolerance):
            return upper_bound, True
        return upper_bound, False
    if value < lower_bound:
        if value < (lower_bound - tolerance):
            return lower_bound, True
        return lower_bound, False
    return value, False


def ref_point_in_bounds(point, bounds, tolerance=1e-9):
    x, y = point
    [[x_min, y_min], [x_max, y_max]] = bounds
    if x < x_min - tolerance:
        return False
    if y < y_min - tolerance:
        return False
    if x > x_max + tolerance:
        return False
    if y > y_max + tolerance:
        return False
    return True


def ref_constrainLimits(value, lower_bound, upper_bound):
    return max(lower_bound, min(upper_bound, value))


def same_pair(a, b):
    return (isinstance(a, tuple) and len(a) == 2 and same(a[0], b[0])
            and type(a[1]) is bool and a[1] is b[1])


# Note: integers above 2**53 mixed with float tolerances are left out (int+float
# rounding can land below the bound; outside the sensible numeric domain).
rng = random.Random(180018)
special = [0.0, -0.0, 0, 1, -1, 1.0, -1.0, 2, 2.0, 0.1, 0.2, 0.30000000000000004, 0.3,
           1e-9, -1e-9, 2e-9, 1e-12, 1e300, -1e300, float('inf'), float('-inf'),
           5e-324, -5e-324, 2 ** 53, float(2 ** 53), True, False,
           11.0, 8.5, 17.0, 430.0, 297.0, 300.0, 218.0]


def pick():
    k = rng.random()
    if k < 0.35:
        return rng.choice(special)
    if k < 0.55:
        return rng.randint(-5, 5)
    if k < 0.8:
        return round(rng.uniform(-3, 3), rng.choice([0, 1, 2, 6]))
    return rng.uniform(-1e3, 1e3)


def pick_tol():
    return rng.choice([0, 0.0, 1e-9, 1e-12, 0.1, 0.5, 1, 1.0, 2, 1e-3, 1e3, 5e-324, float('inf'),
                       abs(rng.uniform(0, 2))])


n_b = 0
while n_b < 60000:
    a, b, v = pick(), pick(), pick()
    lo, hi = (a, b) if a <= b else (b, a)
    if rng.random() < 0.1:
        hi = lo                                  # degenerate range
    if rng.random() < 0.15:
        v = rng.choice([lo, hi])                 # exactly on a bound
    t = pick_tol()
    if rng.random() < 0.15 and not any(isinstance(q, float) and math.isinf(q) for q in (lo, hi, t)):
        v = rng.choice([hi + t, lo - t])         # exactly on the tolerance edge
    n_b += 1

    g, e = pu.constrainLimits(v, lo, hi), ref_constrainLimits(v, lo, hi)
    checks += 1
    if not same(g, e):
        fail("constrainLimits(%r,%r,%r) -> %r, reference %r" % (v, lo, hi, g, e))
    if not (lo <= g <= hi):
        fail("constrainLimits(%r,%r,%r) -> %r is out of range" % (v, lo, hi, g))

    g, e = pu.checkLimits(v, lo, hi), ref_checkLimits(v, lo, hi)
    checks += 1
    if not same_pair(g, e):
        fail("checkLimits(%r,%r,%r) -> %r, reference %r" % (v, lo, hi, g, e))
    elif not (lo <= g[0] <= hi) or g[1] is not (v < lo or v > hi):
        fail("checkLimits(%r,%r,%r) -> %r violates the property" % (v, lo, hi, g))

    g, e = pu.checkLimitsTol(v, lo, hi, t), ref_checkLimitsTol(v, lo, hi, t)
    checks += 1
    if not same_pair(g, e):
        fail("checkLimitsTol(%r,%r,%r,%r) -> %r, reference %r" % (v, lo, hi, t, g, e))
    elif not (lo <= g[0] <= hi) or g[1] is not (v < lo - t or v > hi + t):
        fail("checkLimitsTol(%r,%r,%r,%r) -> %r violates the property" % (v, lo, hi, t, g))

    # 2-D
    c, d, w = pick(), pick(), pick()
    lo2, hi2 = (c, d) if c <= d else (d, c)
    if rng.random() < 0.2:
        w = rng.choice([lo2, hi2])
    for point in ([v, w], (v, w), [w, v]):
        if point[0] is v:
            bounds = [[lo, lo2], [hi, hi2]]
        else:
            bounds = [[lo2, lo], [hi2, hi]]
        if rng.random() < 0.5:
            bounds = (tuple(bounds[0]), tuple(bounds[1]))
        g, e = pu.point_in_bounds(point, bounds, t), ref_point_in_bounds(point, bounds, t)
        checks += 1
        if type(g) is not bool or g is not e:
            fail("point_in_bounds(%r,%r,%r) -> %r, reference %r" % (point, bounds, t, g, e))
        px, py = point
        (bx0, by0), (bx1, by1) = bounds
        per_axis = not (pu.checkLimitsTol(px, bx0, bx1, t)[1] or pu.checkLimitsTol(py, by0, by1, t)[1])
        if g is not per_axis:
            fail("point_in_bounds(%r,%r,%r) -> %r but per-axis tolerant checker says %r"
                 % (point, bounds, t, g, per_axis))
        g, e = pu.point_in_bounds(point, bounds), ref_point_in_bounds(point, bounds)
        checks += 1
        if type(g) is not bool or g is not e:
            fail("point_in_bounds(%r,%r) default tol -> %r, reference %r" % (point, bounds, g, e))

# ---------------------------------------------------------------- Part C
B = [[0, 0], [11.0, 8.5]]
expect = [
    ([0, 0], True), ([11.0, 8.5], True), ([5, 5], True),
    ([1e-9 * -1, 0], True), ([-2e-9, 0], False), ([0, -2e-9], False), ([0, -1e-9], True),
    ([11.0 + 5e-10, 8.5], True), ([11.0 + 1e-8, 8.5], False), ([11.0, 8.5 + 1e-8], False),
    ([11.0, 8.5 + 5e-10], True), ([-1, 4], False), ([12, 4], False), ([4, -1], False), ([4, 9], False),
    ([-1, -1], False), ([12, 9], False), ([-1, 9], False), ([12, -1], False),
]
for p, e in expect:
    checks += 1
    g = pu.point_in_bounds(p, B)
    if g is not e:
        fail("point_in_bounds(%r, %r) default tolerance -> %r, expected %r" % (p, B, g, e))
    g = pu.point_in_bounds(tuple(p), B, tolerance=1e-9)
    if g is not e:
        fail("point_in_bounds(%r, %r, tolerance=1e-9) -> %r, expected %r" % (p, B, g, e))
checks += 1
if pu.point_in_bounds([12, 9.5], B, 1) is not True or pu.point_in_bounds([12.5, 9.5], B, tolerance=1) is not False:
    fail("point_in_bounds with tolerance 1 wrong")

# keyword-argument call forms keep working
checks += 1
if pu.checkLimits(value=5, lower_bound=0, upper_bound=3) != (3, True):
    fail("checkLimits keyword call")
if pu.checkLimitsTol(value=-5, lower_bound=0, upper_bound=3, tolerance=5) != (0, False):
    fail("checkLimitsTol keyword call")
if pu.constrainLimits(value=-5, lower_bound=0, upper_bound=3) != 0:
    fail("constrainLimits keyword call")
if pu.point_in_bounds(point=[1, 1], bounds=[[0, 0], [1, 1]]) is not True:
    fail("point_in_bounds keyword call")
# malformed points are still rejected
for bad in ([1], [1, 2, 3]):
    checks += 1
    try:
        pu.point_in_bounds(bad, B)
        fail("point_in_bounds accepted malformed point %r" % (bad,))
    except ValueError:
        pass

report()
