import os, sys; sys.path.insert(0, os.environ.get('PLOTINK_ROOT', '/tmp/wtf_C18'))
"""
Property C18 demo: travel-limit helpers of plotink.plot_utils
  checkLimits, checkLimitsTol, constrainLimits, point_in_bounds

Part A: exact oracle (Fraction arithmetic) on a grid of exactly representable
        values, covering bounds, tolerance edges and degenerate ranges.
Part B: differential check against a frozen reference copy of the documented
        behaviour on random / adversarial floats, ints and mixed types,
        comparing value, flag, flag type and *which object* is handed back.
Part C: point_in_bounds agrees with checkLimitsTol per coordinate.
"""
import itertools
import math
import random
from fractions import Fraction

from plotink import plot_utils as pu

FAILS = []


def fail(msg):
    FAILS.append(msg)
    if len(FAILS) <= 20:
        print("FAIL:", msg)


# ---------------------------------------------------------------- reference
def ref_checkLimits(value, lower_bound, upper_bound):
    if value > upper_bound:
        return upper_bound, True
    if value < lower_bound:
        return lower_bound, True
    return value, False


def ref_checkLimitsTol(value, lower_bound, upper_bound, tolerance):
    if value > upper_bound:
        if value > (upper_bound + tolerance):
            return upper_bound, True
        return upper_bound, False
    if value < lower_bound:
        if value < (lower_bound - tolerance):
            return lower_bound, True
        return lower_bound, False
    return value, False


def ref_constrainLimits(value, lower_bound, upper_bound):
    return max(lower_bound, min(upper_bound, value))


def ref_point_in_bounds(point, bounds, tolerance=1e-9):
    x, y = point
    [[x_min, y_min], [x_max, y_max]] = bounds
    if x < x_min - tolerance:
        return False
    if y < y_min - tolerance:
        return False
    if x > x_max + tolerance:
        return False
    if y > y_max + tolerance:
        return False
    return True


def which(obj, named):
    """Name of the input object that `obj` is (identity), else its type/repr."""
    for name, candidate in named:
        if obj is candidate:
            return name
    return "other:%s:%r" % (type(obj).__name__, obj)


def describe_pair(result, named):
    if type(result) is not tuple or len(result) != 2:
        return "not-a-2-tuple:%r" % (result,)
    val, flag = result
    return (which(val, named), type(val).__name__, repr(val), type(flag).__name__, repr(flag))


# ---------------------------------------------------------------- part A
def part_a():
    n = 0
    grid = [Fraction(k, 4) for k in range(-12, 13)]          # -3 .. 3 step 1/4
    tols = [Fraction(0), Fraction(1, 4), Fraction(1, 2), Fraction(1), Fraction(2)]
    for conv in (float, Fraction):
        for lo_f, hi_f in itertools.combinations_with_replacement(grid[::2], 2):
            for v_f in grid:
                v, lo, hi = conv(v_f), conv(lo_f), conv(hi_f)
                inside = lo_f <= v_f <= hi_f
                nearest = v_f if inside else (hi_f if v_f > hi_f else lo_f)

                # plain clamp
                c = pu.constrainLimits(v, lo, hi)
                n += 1
                if not (c == nearest and lo <= c <= hi and type(c) is type(v)):
                    fail("constrainLimits(%r,%r,%r) -> %r" % (v, lo, hi, c))
                if inside and lo_f < v_f < hi_f and c is not v:
                    fail("constrainLimits strictly inside does not return value itself")

                # clamp with flag
                r = pu.checkLimits(v, lo, hi)
                n += 1
                ok = (type(r) is tuple and len(r) == 2 and r[0] == nearest
                      and lo <= r[0] <= hi and r[1] is (not inside))
                if ok and inside:
                    ok = r[0] is v
                elif ok:
                    ok = r[0] is (hi if v_f > hi_f else lo)
                if not ok:
                    fail("checkLimits(%r,%r,%r) -> %r" % (v, lo, hi, r))

                # clamp with tolerance band
                for t_f in tols:
                    t = conv(t_f)
                    far = (v_f > hi_f + t_f) or (v_f < lo_f - t_f)
                    r = pu.checkLimitsTol(v, lo, hi, t)
                    n += 1
                    ok = (type(r) is tuple and len(r) == 2 and r[0] == nearest
                          and lo <= r[0] <= hi and r[1] is far)
                    if ok and inside:
                        ok = r[0] is v
                    elif ok:
                        ok = r[0] is (hi if v_f > hi_f else lo)
                    if not ok:
                        fail("checkLimitsTol(%r,%r,%r,%r) -> %r" % (v, lo, hi, t, r))

    # 2-D test against the exact oracle (coarser grid to stay fast)
    coarse = [Fraction(k, 2) for k in range(-4, 5)]
    rects = [(a, b) for a, b in itertools.combinations_with_replacement(coarse[::2], 2)]
    for (x0, x1), (y0, y1) in itertools.product(rects, rects):
        for t_f in (Fraction(0), Fraction(1, 2), Fraction(1)):
            for px, py in itertools.product(coarse, coarse):
                want = (x0 - t_f <= px <= x1 + t_f) and (y0 - t_f <= py <= y1 + t_f)
                got = pu.point_in_bounds([float(px), float(py)],
                                         [[float(x0), float(y0)], [float(x1), float(y1)]],
                                         float(t_f))
                n += 1
                if got is not want:
                    fail("point_in_bounds(%r,%r | %r..%r,%r..%r | %r) -> %r"
                         % (px, py, x0, x1, y0, y1, t_f, got))
    return n


# ---------------------------------------------------------------- part B
def neighbours(x):
    if isinstance(x, float) and math.isfinite(x):
        return [math.nextafter(x, -math.inf), x, math.nextafter(x, math.inf)]
    return [x]


def part_b():
    n = 0
    rng = random.Random(18018)
    cases = []

    # random floats, with values placed on / next to every edge of interest
    for _ in range(1500):
        a, b = sorted((rng.uniform(-500, 500), rng.uniform(-500, 500)))
        if rng.random() < 0.15:
            b = a                                   # degenerate range
        tol = rng.choice([0, 0.0, 1e-12, 1e-9, 1e-3, 0.1, 1, 2.5, rng.uniform(0, 50)])
        seeds = [a, b, a - tol, b + tol, (a + b) / 2, rng.uniform(-600, 600)]
        vals = []
        for s in seeds:
            vals.extend(neighbours(s))
        for v in vals:
            cases.append((v, a, b, tol))

    # special values and mixed int / float / Fraction inputs
    specials = [0, 0.0, -0.0, 1, 1.0, -1, -1.0, 5, 5.0, 10, 10.0, 2 ** 70, -2 ** 70,
                float(2 ** 53), 2 ** 53 + 1, 1e308, -1e308, 5e-324, -5e-324,
                math.inf, -math.inf, Fraction(1, 3), Fraction(-7, 2), True, False]
    for v, a, b in itertools.product(specials, repeat=3):
        if a <= b:
            for tol in (0, 0.5, 1, Fraction(1, 8)):
                cases.append((v, a, b, tol))

    # outside the property's domain, but cheap to compare with the reference:
    # NaN values, reversed ranges, negative tolerances
    odd = [math.nan, -2.0, -1, 0, 0.5, 1, 2.0, 3]
    for v, a, b in itertools.product(odd, repeat=3):
        for tol in (0, 0.5, -0.5, -2):
            cases.append((v, a, b, tol))

    for v, a, b, tol in cases:
        # fresh, distinct objects so that identity tells us what was returned
        named = (("value", v), ("lower", a), ("upper", b))
        got = describe_pair(pu.checkLimits(v, a, b), named)
        want = describe_pair(ref_checkLimits(v, a, b), named)
        n += 1
        if got != want:
            fail("checkLimits(%r,%r,%r): %r != %r" % (v, a, b, got, want))

        got = describe_pair(pu.checkLimitsTol(v, a, b, tol), named)
        want = describe_pair(ref_checkLimitsTol(v, a, b, tol), named)
        n += 1
        if got != want:
            fail("checkLimitsTol(%r,%r,%r,%r): %r != %r" % (v, a, b, tol, got, want))

        g = pu.constrainLimits(v, a, b)
        w = ref_constrainLimits(v, a, b)
        n += 1
        if (which(g, named), type(g), repr(g)) != (which(w, named), type(w), repr(w)):
            fail("constrainLimits(%r,%r,%r): %r != %r" % (v, a, b, g, w))

        # in-domain sanity independent of the reference
        in_domain = (not any(isinstance(q, float) and math.isnan(q) for q in (v, a, b))
                     and a <= b and tol >= 0)
        if in_domain:
            for res in (pu.checkLimits(v, a, b)[0], pu.checkLimitsTol(v, a, b, tol)[0], g):
                if not a <= res <= b:
                    fail("result %r outside [%r, %r] for value %r" % (res, a, b, v))
                if a <= v <= b and res != v:
                    fail("in-range value %r altered to %r" % (v, res))
            if pu.checkLimits(v, a, b)[1] is not (not a <= v <= b):
                fail("checkLimits flag wrong for %r in [%r,%r]" % (v, a, b))
            if tol == 0 and pu.checkLimitsTol(v, a, b, tol)[1] is not pu.checkLimits(v, a, b)[1]:
                fail("zero tolerance disagrees with plain checker for %r" % (v,))
    return n


# ---------------------------------------------------------------- part C
def part_c():
    n = 0
    rng = random.Random(99)
    for _ in range(4000):
        x0, x1 = sorted((rng.uniform(-50, 50), rng.uniform(-50, 50)))
        y0, y1 = sorted((rng.uniform(-50, 50), rng.uniform(-50, 50)))
        if rng.random() < 0.1:
            x1 = x0
        if rng.random() < 0.1:
            y1 = y0
        tol = rng.choice([None, 0, 1e-13, 1e-9, 1e-3, 0.5, 3.0])
        eff = 1e-9 if tol is None else tol
        xs = neighbours(x0) + neighbours(x1) + neighbours(x0 - eff) + neighbours(x1 + eff) \
            + [rng.uniform(-60, 60)]
        ys = neighbours(y0) + neighbours(y1) + neighbours(y0 - eff) + neighbours(y1 + eff) \
            + [rng.uniform(-60, 60)]
        for _ in range(12):
            px, py = rng.choice(xs), rng.choice(ys)
            make = rng.choice([list, tuple])
            point = make((px, py))
            bounds = make((make((x0, y0)), make((x1, y1))))
            if tol is None:
                got = pu.point_in_bounds(point, bounds)
                want_ref = ref_point_in_bounds(point, bounds)
            else:
                got = pu.point_in_bounds(point, bounds, tol)
                want_ref = ref_point_in_bounds(point, bounds, tol)
            flag_x = pu.checkLimitsTol(px, x0, x1, eff)[1]
            flag_y = pu.checkLimitsTol(py, y0, y1, eff)[1]
            n += 1
            if type(got) is not bool:
                fail("point_in_bounds returned non-bool %r" % (got,))
            if got is not (not (flag_x or flag_y)):
                fail("point_in_bounds(%r,%r,%r)=%r but checkLimitsTol flags %r,%r"
                     % (point, bounds, tol, got, flag_x, flag_y))
            if got is not want_ref:
                fail("point_in_bounds(%r,%r,%r)=%r, reference %r"
                     % (point, bounds, tol, got, want_ref))

    # keyword use of the optional tolerance and documented example values
    b = [[0.0, 0.0], [10.0, 5.0]]
    checks = [
        (pu.point_in_bounds([10.0 + 5e-10, 5.0], b), True),
        (pu.point_in_bounds([10.0 + 5e-10, 5.0], b, tolerance=0), False),
        (pu.point_in_bounds([-0.001, 2.0], b, tolerance=0.001), True),
        (pu.point_in_bounds([-0.0011, 2.0], b, tolerance=0.001), False),
        (pu.point_in_bounds([3.0, 5.0 + 2e-9], b), False),
        (pu.point_in_bounds((0.0, 0.0), ((0.0, 0.0), (0.0, 0.0)), 0), True),
        (pu.point_in_bounds([math.nan, 1.0], b), ref_point_in_bounds([math.nan, 1.0], b)),
    ]
    for i, (got, want) in enumerate(checks):
        n += 1
        if got is not want:
            fail("point_in_bounds fixed check #%d: %r != %r" % (i, got, want))

    # malformed arguments must still be rejected the same way
    for bad_point, bad_bounds in (([1.0], b), ([1.0, 2.0, 3.0], b),
                                  ([1.0, 2.0], [[0.0, 0.0]]),
                                  ([1.0, 2.0], [[0.0, 0.0, 0.0], [1.0, 1.0]]),
                                  ([1.0, 2.0], [[0.0, 0.0], [1.0]])):
        n += 1
        try:
            pu.point_in_bounds(bad_point, bad_bounds)
        except ValueError:
            pass
        else:
            fail("point_in_bounds accepted malformed input %r %r" % (bad_point, bad_bounds))
    return n


def main():
    total = part_a() + part_b() + part_c()
    if FAILS:
        print("C18 demo: %d FAILURES out of %d checks" % (len(FAILS), total))
        return 1
    print("C18 demo: OK (%d checks)" % total)
    return 0


if __name__ == "__main__":
    sys.exit(main())
