'''Known-bad fixture for C04 (never imported or run; parsed by the checker's canary only).'''
serial = from_dependency_import('serial')


class EBB3:
    def __init__(self):
        self.port = None
        self.err = None

    def record_error(self, message):
        self.err = message                      # BAD (D1): later message replaces the first

    def disconnect(self):
        if self.port is not None:
            self.port.close()
        self.port = None

    def command(self, cmd):
        if (self.port is None) or (self.err is not None) or (cmd is None):
            return False
        try:
            self.port.write((cmd.strip() + '\r').encode('ascii'))
            response = self.port.readline().decode('ascii').strip()
            if not response.startswith(cmd[0]):
                self.record_error('unexpected: ' + response)
                self.port.write('R\r'.encode('ascii'))   # BAD (D4): transmits after the error
        except serial.SerialException:
            self.record_error('usb error')
        return self.err is None

    def query(self, qry):
        if self.port is None:                   # BAD (D2): err not tested
            return None
        self.port.write((qry.strip() + '\r').encode('ascii'))
        return self.port.readline().decode('ascii').strip()

    def reboot(self):
        if self.port is None:                   # BAD (D2): err not tested
            return False
        self.port.write('RB\r'.encode('ascii'))
        return True

    def set_name(self, name):
        self.command('ST,' + name)
        return True                             # BAD (D3): success value although blocked


def force_send(ebb, text):
    ebb.port.write(text.encode('ascii'))        # BAD (D5): side door
    ebb.err = None                              # BAD (D5): side door
