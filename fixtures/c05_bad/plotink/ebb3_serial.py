'''Known-bad fixture for C05 (never imported or run; parsed by the checker's canary only).'''
serial = from_dependency_import('serial')


class EBB3:
    def __init__(self):
        self.port = None
        self.err = None

    def record_error(self, message):
        if self.err is None:
            self.err = message

    def disconnect(self):
        self.port = None

    def command(self, cmd):
        if (self.port is None) or (self.err is not None) or (cmd is None):
            return False
        cmd = cmd.strip()
        if len(cmd) == 1:
            cmd_name = cmd[0]
        else:
            cmd_name = cmd[0:2]                 # BAD (D3): one letter + arguments not handled
        response = ''
        try:
            self.port.write((cmd + '\r\n').encode('ascii'))      # BAD (D1): not exactly one CR
            response = self.port.readline().decode('ascii').strip()
            n_retry_count = 0
            while len(response) == 0 and n_retry_count < 5:      # BAD (D2): bound
                self.port.write((cmd + '\r').encode('ascii'))    # BAD (D1): resend inside the loop
                response = self.port.readline().decode('ascii').strip()
                n_retry_count += 1
            if response.startswith(cmd_name):   # BAD (D4): polarity
                self.record_error('unexpected')
        except RuntimeError:                    # BAD (D5): SerialException escapes
            self.record_error('usb')
        return bool(self.err is None)

    def query(self, qry):
        if (self.port is None) or (self.err is not None) or (qry is None):
            return None
        qry = qry.strip()
        if len(qry) == 1:
            qry_name = qry[0]
        elif qry[1] == ',':
            qry_name = qry[0]
        else:
            qry_name = qry[0:2]
        response = ''
        try:
            self.port.write((qry + '\r').encode('ascii'))
            response = self.port.readline().decode('ascii').strip()
            n_retry_count = 0
            while len(response) == 0 and n_retry_count < 25:
                response = self.port.readline().decode('ascii').strip()
                n_retry_count += 1
        except (serial.SerialException, IOError, RuntimeError, OSError):
            self.record_error('usb')
            return None
        if ('Err:' in response) or (not response.startswith(qry_name)):
            self.record_error('bad reply')
            return None
        return response[len(qry_name):]

    def set_name(self, name):
        self.command('ST,' + name)
        return True                             # BAD (D6): error recorded, success reported

    def read_pair(self):
        if (self.port is None) or (self.err is not None):
            return None
        return self.query('QS').split(',')      # BAD (D7): failed query dereferenced
