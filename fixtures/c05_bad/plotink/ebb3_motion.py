'''Known-bad fixture for C05 (parsed only).'''
from . import ebb3_serial


class EBBMotionWrap(ebb3_serial.EBB3):
    def xy_move(self, delta_x, delta_y, duration):
        self.command(f'SM,{duration},{delta_y},{delta_x}')
