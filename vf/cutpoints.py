"""Cut-point decomposition of a function with (possibly nested) `while` loops.

The function is never iterated.  Its loop heads are *cut points*: interpretation starts at the
function entry or at a loop head - there with a template state (an inductive-invariant candidate)
- and stops at the next loop head or at an exit.  Every such straight piece is a *segment* with
its path condition, effects and the state it arrives with.  Any property of the form "every step
of the loop does X" is then an obligation on the finite set of segments, whatever the loop shape
(`while True` with breaks, `while i < n`, nested scan loops, helpers).

Loop-carried locals are inferred by agreement: a local keeps its symbolic value at a head only if
every segment arriving there re-establishes the same value relative to the *current* index and
the *current* version of the mutated container (see `Versioned`); otherwise it is STALE.  The
inference only ever weakens a template, so it terminates.

Nothing here is specific to a property; C10 is the first client.
"""
import ast
import re
from dataclasses import dataclass

from .interp import (Interp, Hooks, Outcome, Opaque, Str, Slot, Tup, DictV, Const, Cmp, IsNone,
                     Truthy, In, NotC, AndC, OrC, Pred, State, Effect, Bound, NONE)
from .poly import Sym, Poly
from .model import AnalysisError

MUTATORS = {'insert', 'append', 'extend', 'pop', 'remove', 'clear', 'sort', 'reverse',
            '__setitem__', '__delitem__'}


@dataclass
class Segment:
    src: object            # 'entry' or the ast.While node the segment starts at
    kind: str              # 'arrive' | 'return' | 'raise'
    dest: object           # ast.While node for 'arrive', returned value / exception otherwise
    state: State


# ---------------------------------------------------------------------- value mapping
def map_value(v, f_label, f_var):
    """Rebuild an abstract value with opaque labels mapped through f_label and Sym variable
    names through f_var (which returns a Sym or None for 'unchanged')."""
    def go(x):
        if isinstance(x, Sym):
            mapping = {}
            for a in x.all_atoms():
                if a[0] == 'v':
                    r = f_var(a[1])
                    if r is not None:
                        mapping[a] = r
            return x.subs(mapping) if mapping else x
        if isinstance(x, Opaque):
            return Opaque(f_label(x.label), tuple(go(a) for a in x.args), x.ty)
        if isinstance(x, Tup):
            return Tup(tuple(go(a) for a in x.items), x.kind)
        if isinstance(x, DictV):
            return DictV(tuple((go(k), go(w)) for k, w in x.items))
        if isinstance(x, Str):
            return Str(tuple(p if isinstance(p, str) else Slot(go(p.value), p.spec)
                             for p in x.parts))
        if isinstance(x, Cmp):
            return Cmp(x.op, go(x.a), go(x.b))
        if isinstance(x, (IsNone, Truthy)):
            return type(x)(go(x.v))
        if isinstance(x, In):
            return In(go(x.item), go(x.container))
        if isinstance(x, NotC):
            return NotC(go(x.c))
        if isinstance(x, (AndC, OrC)):
            return type(x)(tuple(go(a) for a in x.items))
        if isinstance(x, Pred):
            return Pred(x.name, tuple(go(a) for a in x.args))
        if isinstance(x, tuple):
            return tuple(go(a) for a in x)
        return x
    return go(v)


def labels_of(v):
    """All opaque labels and Sym variable names mentioned by an abstract value."""
    out = set()
    map_value(v, lambda l: (out.add(l), l)[1], lambda n: (out.add(n), None)[1])
    return out


# ---------------------------------------------------------------------- container versions
class Versioned:
    """An opaque mutable container whose reads are versioned: every store through it (or through
    one of its items) rebinds the names holding it to the next version, so a value read before a
    store is distinguishable from the same expression read after it."""

    def __init__(self, label, ty='list'):
        self.label = label
        self.ty = ty
        self.rx = re.compile(re.escape(label) + r'~(\w+)')

    def at(self, k):
        return Opaque(self.label if k == 0 else '%s~%d' % (self.label, k), (), self.ty)

    def version_of(self, v):
        if isinstance(v, Opaque) and not v.args:
            if v.label == self.label:
                return 0
            m = self.rx.fullmatch(v.label)
            if m and m.group(1).isdigit():
                return int(m.group(1))
        return None

    def root_version(self, obj):
        """Version of the container an object was read from: s_p~k, s_p~k[..], s_p~k[..][..]"""
        seen = 0
        while isinstance(obj, Opaque) and seen < 8:
            k = self.version_of(obj)
            if k is not None:
                return k
            if obj.label in ('item', 'slice') and obj.args:
                obj = obj.args[0]
                seen += 1
                continue
            break
        return None

    def current(self, st):
        ks = [self.version_of(v) for v in st.env.values()]
        ks = [k for k in ks if k is not None]
        return max(ks) if ks else None

    def bump(self, st):
        cur = self.current(st)
        if cur is None:
            return st
        s = st.copy()
        for name, v in list(s.env.items()):
            if self.version_of(v) is not None:
                s.env[name] = self.at(cur + 1)
        return s

    def normalise(self, v, final):
        """Rename version `final` to the base label and every other version to an 'old' marker."""
        base = self.label
        bare = re.compile(re.escape(base) + r'(?![~\w])')

        def text(t):
            def rep(m):
                k = m.group(1)
                if not k.isdigit():
                    return m.group(0)
                return '\0cur' if int(k) == final else '%s~old%s' % (base, k)
            t2 = self.rx.sub(rep, t)
            if final != 0:
                t2 = bare.sub(base + '~old0', t2)
            return t2.replace('\0cur', base)
        return map_value(v, text, lambda n: Sym.var(text(n)) if text(n) != n else None)

    def is_stale(self, v):
        return any('~old' in l or l.startswith('stale:') or '<stale:' in l for l in labels_of(v))


class CutHooks(Hooks):
    """Loop statements of the analysed function end the path as an arrival at that head."""

    def __init__(self, fn, containers=()):
        self.fn = fn
        self.own = {id(n) for n in ast.walk(fn.node) if isinstance(n, (ast.While, ast.For))}
        self.arrivals = []
        self.containers = list(containers)

    def loop(self, interp, node, st):
        if id(node) not in self.own or len(interp.stack) != 1:
            raise AnalysisError('loop at line %d lies in a helper of %s; the cut-point rule only '
                                'decomposes loops of the analysed function itself'
                                % (node.lineno, self.fn.qualname))
        if isinstance(node, ast.For):
            raise AnalysisError('for-loop at line %d of %s: the cut-point rule handles while '
                                'loops only' % (node.lineno, self.fn.qualname))
        self.arrivals.append((node, st))
        return []

    def stored(self, interp, obj, idx, val, st):
        for c in self.containers:
            if c.root_version(obj) is not None:
                return c.bump(st)
        return None

    def mutating_call(self, interp, target, args, st, node):
        """Bound mutator on a versioned container (or one of its items): record and bump."""
        if isinstance(target, Bound) and target.name in MUTATORS:
            for c in self.containers:
                if c.root_version(target.obj) is not None:
                    s = st.effect(Effect('call', target, tuple(args), node.lineno,
                                         interp.cur.qualname))
                    return [(NONE, c.bump(s))]
        return None


class CutPoints:
    def __init__(self, prog, fn, hooks):
        self.prog, self.fn, self.hooks = prog, fn, hooks
        self.interp = Interp(prog, hooks)
        self.parent = {}
        self._index(fn.node, fn.node.body, 'body')
        self.heads = [n for n in ast.walk(fn.node) if isinstance(n, ast.While)]
        self.heads.sort(key=lambda n: n.lineno)
        for n in ast.walk(fn.node):
            if isinstance(n, (ast.Try, ast.With, ast.AsyncWith)) and any(
                    isinstance(m, ast.While) for m in ast.walk(n)):
                raise AnalysisError('loop inside try/with at line %d of %s: continuation after '
                                    'the loop is not modelled' % (n.lineno, fn.qualname))
            if isinstance(n, (ast.Yield, ast.YieldFrom)):
                raise AnalysisError('%s is a generator' % fn.qualname)

    def _index(self, owner, stmts, field):
        for k, s in enumerate(stmts):
            self.parent[id(s)] = (owner, field, stmts, k)
            for f in ('body', 'orelse', 'finalbody'):
                sub = getattr(s, f, None)
                if isinstance(sub, list) and sub and isinstance(sub[0], ast.stmt):
                    self._index(s, sub, f)
            for h in getattr(s, 'handlers', []) or []:
                self._index(s, h.body, 'handler')

    # ------------------------------------------------------------------ runs
    def from_entry(self, kwargs):
        self.hooks.arrivals = []
        outs = self.interp.run(self.fn, [], dict(kwargs))
        segs = [Segment('entry', 'arrive', n, s) for n, s in self.hooks.arrivals]
        for o in outs:
            segs.append(Segment('entry', o.kind, o.value, o.state))
        return segs

    def from_head(self, head, st):
        self.hooks.arrivals = []
        it = self.interp
        segs = []
        it.stack.append(self.fn)
        try:
            for c, s in it.ev_cond(head.test, st):
                if s.raised:
                    segs.append(Segment(head, 'raise', s.raised, s))
                    continue
                for b, s2 in it.branch(c, s):
                    if b:
                        for o in it.exec_block(head.body, s2):
                            self._dispatch(head, head, 'body', o, segs)
                    elif head.orelse:
                        for o in it.exec_block(head.orelse, s2):
                            self._dispatch(head, head, 'orelse', o, segs)
                    else:
                        self._after(head, head, s2, segs)
        finally:
            it.stack.pop()
        segs.extend(Segment(head, 'arrive', n, s) for n, s in self.hooks.arrivals)
        return segs

    def _dispatch(self, src, owner, field, out, segs):
        """An outcome of executing (the rest of) block `field` of statement `owner`."""
        if out.kind == 'return':
            segs.append(Segment(src, 'return', out.value, out.state))
        elif out.kind == 'raise':
            segs.append(Segment(src, 'raise', out.value, out.state))
        elif out.kind == 'fall':
            if isinstance(owner, (ast.FunctionDef, ast.AsyncFunctionDef)):
                segs.append(Segment(src, 'return', NONE, out.state))
            elif isinstance(owner, ast.While) and field == 'body':
                segs.append(Segment(src, 'arrive', owner, out.state))
            else:
                self._after(src, owner, out.state, segs)
        elif out.kind in ('break', 'continue'):
            loop = owner
            fld = field
            while not (isinstance(loop, ast.While) and fld == 'body'):
                if isinstance(loop, (ast.FunctionDef, ast.AsyncFunctionDef)):
                    raise AnalysisError('%s outside loop' % out.kind)
                loop, fld = self.parent[id(loop)][0], self.parent[id(loop)][1]
            if out.kind == 'continue':
                segs.append(Segment(src, 'arrive', loop, out.state))
            else:
                self._after(src, loop, out.state, segs)
        else:
            raise AnalysisError('unexpected outcome %s' % out.kind)

    def _after(self, src, stmt, st, segs):
        """Continue with what follows statement `stmt` in its block."""
        owner, field, stmts, k = self.parent[id(stmt)]
        before = len(self.hooks.arrivals)
        for o in self.interp.exec_block(stmts[k + 1:], st):
            self._dispatch(src, owner, field, o, segs)


def assigned_locals(fn):
    out = set()
    for n in ast.walk(fn.node):
        if isinstance(n, ast.Name) and isinstance(n.ctx, (ast.Store, ast.Del)):
            out.add(n.id)
    return out
