"""vf - repository-specific static checkers for evil-mad/plotink (see /verif/DESIGN.md)."""
