"""Loop rules shared by the serial checks (C05, C07) and the pause-chunking rule (C06).

`RetryLoop` - the bounded "re-read while the reply is empty" idiom:

    <resp> = <read pipeline>; <k> = c0
    while <resp is empty> and <k below bound>:
        <resp> = <same read pipeline>; <k> += 1

The analysis is semantic, not textual: the loop test is evaluated by the abstract interpreter in a
state where the loop-carried variables are symbolic; the body is interpreted once; the facts
extracted are (a) which variable carries the reply and that the test requires it to be empty,
(b) the counter, its start value and unit increment on every path of the body, (c) the exact number
of iterations the bound admits (computed from the normal form of the bound test), (d) whether the
body re-reads into the same variable through the same pipeline as the first read (shape equality
of abstract values with the read ordinal erased).
"""
import ast

from .interp import (Opaque, Str, Slot, Tup, Const, Cmp, IsNone, Truthy, In, NotC, AndC, OrC, Pred,
                     State, NONE, fold_cond, assigned_names, type_of, COND_TYPES)
from .poly import Sym
from .model import AnalysisError


def erase_ordinals(v):
    """Shape of an abstract value with read ordinals (reply#k) erased."""
    if isinstance(v, Opaque):
        label = v.label
        if label.startswith('reply#'):
            label = 'reply'
        return ('O', label, tuple(erase_ordinals(a) for a in v.args), v.ty)
    if isinstance(v, Str):
        return ('S', tuple(p if isinstance(p, str) else ('slot', erase_ordinals(p.value), p.spec)
                           for p in v.parts))
    if isinstance(v, Tup):
        return ('T', v.kind, tuple(erase_ordinals(a) for a in v.items))
    if isinstance(v, tuple):
        return tuple(erase_ordinals(a) for a in v)
    return v


def conjuncts(c):
    if isinstance(c, AndC):
        out = []
        for x in c.items:
            out.extend(conjuncts(x))
        return out
    return [c]


def is_empty_test(c, val):
    """True if condition c says 'val is empty' (len == 0, not val, val == '')."""
    if isinstance(c, Cmp) and c.op in ('==', '<=') and isinstance(c.a, Sym) and isinstance(c.b, Sym):
        # LEN(<val>) - 0 == 0   (norm_cmp moved everything to the left)
        atoms = list(c.a.atoms())
        if len(atoms) == 1 and atoms[0][0] == 'f' and atoms[0][1] == 'LEN':
            lhs = Sym.func('LEN', *atoms[0][2])
            if c.a == lhs and c.b == Sym.const(0):
                return atoms[0][2][0] == _wrapped(val)
        return False
    if isinstance(c, Cmp) and c.op == '<' and isinstance(c.a, Sym) and isinstance(c.b, Sym):
        atoms = list(c.a.atoms())
        if len(atoms) == 1 and atoms[0][0] == 'f' and atoms[0][1] == 'LEN':
            lhs = Sym.func('LEN', *atoms[0][2])
            if c.a == lhs - 1 and c.b == Sym.const(0):
                return atoms[0][2][0] == _wrapped(val)
        return False
    if isinstance(c, NotC) and isinstance(c.c, Truthy):
        return c.c.v == val
    if isinstance(c, Cmp) and c.op == '==' and not isinstance(c.a, Sym):
        return (c.a == val and c.b in (Str.lit(''), Str(()))) or \
               (c.b == val and c.a in (Str.lit(''), Str(())))
    return False


def _wrapped(val):
    from .interp import _wrap
    return _wrap(val)


class RetryFacts:
    def __init__(self):
        self.node = None
        self.line = 0
        self.reply_var = None
        self.counter_var = None
        self.start = None
        self.max_iterations = None
        self.increment_ok = None
        self.same_pipeline = None
        self.first_shape = None
        self.body_shape = None
        self.problems = []

    def as_dict(self):
        return {'line': self.line, 'reply_var': self.reply_var, 'counter_var': self.counter_var,
                'start': self.start, 'max_iterations': self.max_iterations,
                'increment_by_one_on_every_path': self.increment_ok,
                'same_read_pipeline': self.same_pipeline, 'problems': self.problems}


def analyse_retry_loop(interp, node, st, limit=2000):
    """Facts about a `while` loop entered in abstract state `st` (see module docstring)."""
    facts = RetryFacts()
    facts.node, facts.line = node, node.lineno
    names, _fields = assigned_names(node)
    s = st.copy()
    symbolic = {}
    for n in sorted(names):
        cur = st.env.get(n)
        if isinstance(cur, Sym):
            symbolic[n] = Sym.var('@loop_' + n)
            s.env[n] = symbolic[n]
        else:
            s.env[n] = Opaque('loopvar:' + n, (), type_of(cur) if cur is not None and
                              type_of(cur) in ('str', 'bytes', 'list') else 'unknown')
    vals = list(interp.ev(node.test, s))
    if len(vals) != 1 or vals[0][1].raised:
        facts.problems.append('loop test is not a single side-effect-free condition')
        return facts
    cond = vals[0][0]
    if not isinstance(cond, COND_TYPES):
        cond = Truthy(cond)
    cj = conjuncts(cond)
    # (a) emptiness conjunct
    for n in sorted(names):
        if n in symbolic:
            continue
        if any(is_empty_test(c, s.env[n]) for c in cj):
            facts.reply_var = n
    # (b) counter conjunct
    bound = None
    for c in cj:
        if isinstance(c, Cmp) and isinstance(c.a, Sym) and isinstance(c.b, Sym):
            for n, sv in symbolic.items():
                if any(a == ('v', '@loop_' + n) for a in c.a.atoms()) and \
                        all(a[0] == 'v' for a in c.a.atoms()) and len(list(c.a.atoms())) == 1:
                    facts.counter_var = n
                    bound = c
    others = [c for c in cj if c is not bound and not (
        facts.reply_var and is_empty_test(c, s.env[facts.reply_var]))]
    if others:
        facts.problems.append('loop test has additional conjuncts: %r' % (others,))
    if facts.reply_var is None:
        facts.problems.append('the loop test does not require the reply variable to be empty')
    if bound is None:
        facts.problems.append('the loop test has no bound on a counter')
        return facts
    start = st.env.get(facts.counter_var)
    if not (isinstance(start, Sym) and start.is_const() and start.const_value().denominator == 1):
        facts.problems.append('the retry counter does not start from a literal')
        return facts
    facts.start = int(start.const_value())
    # (c) number of admitted iterations
    kvar = ('v', '@loop_' + facts.counter_var)
    n_it = 0
    k = facts.start
    while n_it <= limit:
        t = fold_cond(Cmp(bound.op, bound.a.subs({kvar: Sym.const(k)}), bound.b))
        if t is None:
            facts.problems.append('bound test not decidable at k=%d' % k)
            return facts
        if not t:
            break
        n_it += 1
        k += 1
    facts.max_iterations = n_it if n_it <= limit else None
    if facts.max_iterations is None:
        facts.problems.append('the bound admits more than %d iterations (unbounded?)' % limit)
    # (d) body: unit increment, same pipeline
    inc_ok, shapes = True, set()
    n_paths = 0
    for out in interp.exec_block(node.body, s):
        if out.kind in ('raise', 'return'):
            continue
        n_paths += 1
        nv = out.state.env.get(facts.counter_var)
        if not (isinstance(nv, Sym) and nv == symbolic[facts.counter_var] + 1):
            inc_ok = False
        if facts.reply_var:
            shapes.add(erase_ordinals(out.state.env.get(facts.reply_var)))
    facts.increment_ok = inc_ok and n_paths > 0
    if facts.reply_var:
        first = st.env.get(facts.reply_var)
        facts.first_shape = erase_ordinals(first)
        facts.body_shape = sorted(shapes, key=repr)
        facts.same_pipeline = (shapes == {facts.first_shape})
    return facts


def while_loops(fn_node):
    return [n for n in ast.walk(fn_node) if isinstance(n, ast.While)]


def contains_call_attr(node, attrs):
    for n in ast.walk(node):
        if isinstance(n, ast.Call) and isinstance(n.func, ast.Attribute) and n.func.attr in attrs:
            return True
    return False


# ====================================================================== interval case analysis
class SplitNeeded(Exception):
    """The current integer region does not decide a comparison; split it after `point`
    (left part ..point, right part point+1..)."""

    def __init__(self, point):
        Exception.__init__(self, point)
        self.point = point


NEG_INF, POS_INF = None, None   # regions use None for an open end


def affine_in(sym, atom):
    """(c1, c0) with sym == c1*atom + c0 (Fractions), or None if sym is not affine in `atom` alone."""
    if not isinstance(sym, Sym) or not sym.is_poly():
        return None
    for a in sym.atoms():
        if a != atom:
            return None
    try:
        c0 = sym.subs({atom: Sym.const(0)})
        c01 = sym.subs({atom: Sym.const(1)})
        c02 = sym.subs({atom: Sym.const(2)})
    except ZeroDivisionError:
        return None
    if not (c0.is_const() and c01.is_const() and c02.is_const()):
        return None
    c0v, c1v = c0.const_value(), c01.const_value() - c0.const_value()
    if c02.const_value() != c0v + 2 * c1v:
        return None
    return c1v, c0v


class Region:
    """Integer interval lo..hi (None = unbounded on that side)."""

    def __init__(self, lo, hi):
        self.lo, self.hi = lo, hi

    def __repr__(self):
        return '[%s..%s]' % ('-inf' if self.lo is None else self.lo,
                             '+inf' if self.hi is None else self.hi)

    def empty(self):
        return self.lo is not None and self.hi is not None and self.lo > self.hi

    def split(self, point):
        return Region(self.lo, point), Region(point + 1, self.hi)

    def sign_range(self, c1, c0):
        """(min value, max value) of c1*n+c0 over the region, with +-inf as float infinities."""
        inf = float('inf')
        ends = []
        for x, side in ((self.lo, -1), (self.hi, 1)):
            if x is None:
                if c1 == 0:
                    ends.append(c0)
                else:
                    ends.append(inf if (c1 > 0) == (side > 0) else -inf)
            else:
                ends.append(c1 * x + c0)
        return min(ends), max(ends)

    def decide_cmp(self, op, c1, c0):
        """Truth of (c1*n + c0) op 0 over the region; raises SplitNeeded when not uniform."""
        import math
        lo_v, hi_v = self.sign_range(c1, c0)
        holds = {'<': lambda v: v < 0, '<=': lambda v: v <= 0, '>': lambda v: v > 0,
                 '>=': lambda v: v >= 0, '==': lambda v: v == 0, '!=': lambda v: v != 0}[op]
        if c1 == 0:
            return holds(c0)
        if op in ('==', '!='):
            if lo_v > 0 or hi_v < 0:
                return op == '!='
            root = -c0 / c1
            if root.denominator != 1:
                return op == '!='
            r = int(root)
            if self.lo == r and self.hi == r:
                return op == '=='
            if self.lo is not None and self.lo == r:
                raise SplitNeeded(r)
            raise SplitNeeded(r - 1)
        a, b = holds(lo_v), holds(hi_v)
        # c1*n+c0 is monotone: uniform iff the truth at both ends agrees
        if a == b:
            return a
        root = -c0 / c1
        fl = math.floor(root)
        # truth changes between fl-1..fl+1; find the last integer with the truth of the left end
        first = self.lo if self.lo is not None else fl - 2
        left_truth = holds(c1 * first + c0) if self.lo is not None else holds(
            -float('inf') if c1 > 0 else float('inf'))
        for k in (fl - 1, fl, fl + 1):
            if holds(c1 * k + c0) == left_truth and holds(c1 * (k + 1) + c0) != left_truth:
                raise SplitNeeded(k)
        raise AnalysisError('cannot split region %r for %s*n+%s %s 0' % (self, c1, c0, op))


# ====================================================================== exact unrolling under a case
class Unbounded(Exception):
    """A loop is still running after 3000 iterations under an abstract case that decides its test
    on every iteration."""


class _TooDeep(Exception):
    pass


class UnrollMixin:
    """Hooks mixin: `while` loops whose test the abstract case decides are unrolled exactly (the
    values stay abstract terms; only case-decided tests and literal counters drive the control
    flow); a loop whose test is not decided falls back to the havoc summary and sets
    `uncountable`."""
    unroll = False
    uncountable = False
    unroll_cap = 600      # literal `for` loops up to this length are unrolled exactly

    fork_undecided = False   # explore both outcomes of an undecided loop test (bounded depth)
    fork_depth = 40
    fork_work_cap = 6000     # iterations explored per loop statement before falling back

    def unroll_loop(self, interp, node, st):
        if not (self.unroll and isinstance(node, ast.While)):
            return None
        if not self.fork_undecided:
            return self._unroll(interp, node, st, 0)
        # exact path enumeration with forking on undecided tests; if the loop does not end within
        # `fork_depth` iterations along some path, fall back to the havoc summary of the loop
        saved_paths = interp.paths
        self._fork_work = 0
        try:
            return list(self._unroll_fork(interp, node, st, 0))
        except _TooDeep:
            interp.paths = saved_paths
            self.uncountable = True
            return list(interp.loop_havoc(node, st, test=node.test))

    def _unroll_fork(self, interp, node, st, depth):
        from .interp import Outcome
        if depth > (self.fork_depth if self._forked else 3000):
            raise _TooDeep()
        # forks inside the loop *body* multiply the iterations to explore: bound the total work
        self._fork_work = getattr(self, '_fork_work', 0) + 1
        if self._fork_work > self.fork_work_cap:
            raise _TooDeep()
        for c, s in interp.ev_cond(node.test, st):
            if s.raised:
                yield Outcome('raise', s.raised, s)
                continue
            if len(s.path) > len(st.path):
                self._forked = True      # an operand of the test was undecided and was forked
            t = interp.decide(c, s)
            if t is None:
                self._forked = True
                if depth > 6 and len(repr(c)) > 3000:
                    # the loop-carried term grows with every iteration (n - min(n, k) - ...):
                    # unrolling further only doubles it
                    raise _TooDeep()
                branches = list(interp.branch(c, s))
            else:
                branches = [(t, s)]
            for b, s2 in branches:
                if not b:
                    yield Outcome('fall', None, s2)
                    continue
                for out in interp.exec_block(node.body, s2):
                    if out.kind in ('fall', 'continue'):
                        yield from self._unroll_fork(interp, node, out.state, depth + 1)
                    elif out.kind == 'break':
                        yield Outcome('fall', None, out.state)
                    else:
                        yield out

    _forked = False

    def _unroll(self, interp, node, st, depth):
        from .interp import Outcome
        if depth > 3000:
            raise Unbounded(node.lineno)
        for c, s in interp.ev_cond(node.test, st):
            if s.raised:
                yield Outcome('raise', s.raised, s)
                continue
            t = interp.decide(c, s)
            if t is None:
                self.uncountable = True
                yield from interp.loop_havoc(node, s, test=node.test)
                continue
            if not t:
                yield Outcome('fall', None, s)
                continue
            for out in interp.exec_block(node.body, s):
                if out.kind in ('fall', 'continue'):
                    yield from self._unroll(interp, node, out.state, depth + 1)
                elif out.kind == 'break':
                    yield Outcome('fall', None, out.state)
                else:
                    yield out


# ====================================================================== one symbolic iteration
class LoopRecord:
    """What one symbolic iteration of a loop did."""

    def __init__(self, node, entry_state, carried, iter_value, elem):
        self.node = node
        self.line = node.lineno
        self.entry = entry_state          # state at loop entry (before symbolising)
        self.carried = carried            # names / self-fields re-assigned in the loop
        self.iter_value = iter_value      # abstract value iterated over (for loops)
        self.elem = elem                  # abstract element bound to the target
        self.bodies = []                  # Outcome list of one iteration from the symbolic state
        self.sym_in = {}                  # name -> symbol standing for "value at iteration start"
        self.sym_out = {}                 # name -> symbol standing for "value after the loop"


class OneIterMixin:
    """Hooks mixin: every `for` loop over a non-literal iteration space (and every `while` loop)
    is interpreted for ONE iteration from a state in which the loop-carried variables are fresh
    symbols `<name>@<line>in`; the iteration's outcomes are recorded in `self.loop_records`; the
    code after the loop continues from a state in which they are fresh symbols `<name>@<line>out`.
    Effects of the iteration are kept (prefixed by a 'loop-enter' and followed by a 'loop-exit'
    effect).  `returns` inside the body propagate.  A rule then states the inductive step over the
    recorded iteration instead of pattern-matching the loop."""

    def init_one_iter(self, elem_for=None):
        self.loop_records = []
        self.elem_for = elem_for or {}

    def carried_symbol(self, name, cur, line, tag):
        from .interp import Opaque, type_of
        if isinstance(cur, Sym) or cur is None:
            return Sym.var('%s@%d%s' % (name, line, tag))
        t = type_of(cur)
        return Opaque('%s@%d%s' % (name, line, tag), (), t if t in ('str', 'bytes', 'list', 'tuple',
                                                                  'int') else 'unknown')

    def one_iter_loop(self, interp, node, st):
        from .interp import Outcome, Opaque, Effect, Tup
        if isinstance(node, ast.For):
            vals = list(interp.ev(node.iter, st))
            if len(vals) != 1 or vals[0][1].raised:
                return None
            it, s0 = vals[0]
            if interp.literal_items(it) is not None and len(interp.literal_items(it)) <= 64:
                return None            # literal space: the interpreter unrolls it exactly
        else:
            it, s0 = None, st
        names, fields = assigned_names(node)
        if isinstance(node, ast.For):
            for t in ast.walk(node.target):
                if isinstance(t, ast.Name):
                    names.discard(t.id)
        rec = LoopRecord(node, s0, (sorted(names), sorted(fields)), it, None)
        s = s0.copy()
        for n in sorted(names):
            if n in s0.env:
                rec.sym_in[n] = self.carried_symbol(n, s0.env[n], node.lineno, 'in')
                s.env[n] = rec.sym_in[n]
        for f in sorted(fields):
            cur = s0.fields.get(('self', f))
            rec.sym_in['self.' + f] = self.carried_symbol('self.' + f, cur, node.lineno, 'in')
            s.fields[('self', f)] = rec.sym_in['self.' + f]
        s = s.effect(Effect('loop-enter', node.lineno, (), node.lineno, interp.cur.qualname))
        starts = []
        if isinstance(node, ast.For):
            elem = self.elem_for.get(node.lineno)
            if callable(elem):
                elem = elem(it)
            if elem is None and hasattr(self, 'make_elem'):
                elem = self.make_elem(node, it, s)
            if elem is None:
                elem = Opaque('elem@%d' % node.lineno, (it,))
            rec.elem = elem
            starts = list(interp.assign(node.target, elem, s))
        else:
            for c, s1 in interp.ev_cond(node.test, s):
                for b, s2 in interp.branch(c, s1):
                    if b:
                        starts.append(s2)
        res = []
        after_effects = []
        for s1 in starts:
            for out in interp.exec_block(node.body, s1):
                rec.bodies.append(out)
                if out.kind in ('return', 'raise'):
                    res.append(out)
                    continue
                if getattr(self, 'body_ok', None) is None or self.body_ok(out):
                    after_effects.append(out.state.effects)
        self.loop_records.append(rec)
        # state after the loop
        s_out = s0.copy()
        # keep the effects of the longest iteration path so that later rules see them in order
        if after_effects:
            s_out.effects = max(after_effects, key=len)
        for n in sorted(names):
            if n in s0.env or any(n in o.state.env for o in rec.bodies):
                cur = s0.env.get(n)
                if cur is None:
                    for o in rec.bodies:
                        if n in o.state.env:
                            cur = o.state.env[n]
                rec.sym_out[n] = self.carried_symbol(n, cur, node.lineno, 'out')
                s_out.env[n] = rec.sym_out[n]
        for f in sorted(fields):
            cur = s0.fields.get(('self', f))
            rec.sym_out['self.' + f] = self.carried_symbol('self.' + f, cur, node.lineno, 'out')
            s_out.fields[('self', f)] = rec.sym_out['self.' + f]
        s_out = s_out.effect(Effect('loop-exit', node.lineno, (), node.lineno, interp.cur.qualname))
        if node.orelse:
            res.extend(interp.exec_block(node.orelse, s_out))
        else:
            res.append(Outcome('fall', None, s_out))
        return res
