"""Loop rules shared by the serial checks (C05, C07) and the pause-chunking rule (C06).

`RetryLoop` - the bounded "re-read while the reply is empty" idiom:

    <resp> = <read pipeline>; <k> = c0
    while <resp is empty> and <k below bound>:
        <resp> = <same read pipeline>; <k> += 1

The analysis is semantic, not textual: the loop test is evaluated by the abstract interpreter in a
state where the loop-carried variables are symbolic; the body is interpreted once; the facts
extracted are (a) which variable carries the reply and that the test requires it to be empty,
(b) the counter, its start value and unit increment on every path of the body, (c) the exact number
of iterations the bound admits (computed from the normal form of the bound test), (d) whether the
body re-reads into the same variable through the same pipeline as the first read (shape equality
of abstract values with the read ordinal erased).
"""
import ast

from .interp import (Opaque, Str, Slot, Tup, Const, Cmp, IsNone, Truthy, In, NotC, AndC, OrC, Pred,
                     State, NONE, fold_cond, assigned_names, type_of, COND_TYPES)
from .poly import Sym
from .model import AnalysisError


def erase_ordinals(v):
    """Shape of an abstract value with read ordinals (reply#k) erased."""
    if isinstance(v, Opaque):
        label = v.label
        if label.startswith('reply#'):
            label = 'reply'
        return ('O', label, tuple(erase_ordinals(a) for a in v.args), v.ty)
    if isinstance(v, Str):
        return ('S', tuple(p if isinstance(p, str) else ('slot', erase_ordinals(p.value), p.spec)
                           for p in v.parts))
    if isinstance(v, Tup):
        return ('T', v.kind, tuple(erase_ordinals(a) for a in v.items))
    if isinstance(v, tuple):
        return tuple(erase_ordinals(a) for a in v)
    return v


def conjuncts(c):
    if isinstance(c, AndC):
        out = []
        for x in c.items:
            out.extend(conjuncts(x))
        return out
    return [c]


def is_empty_test(c, val):
    """True if condition c says 'val is empty' (len == 0, not val, val == '')."""
    if isinstance(c, Cmp) and c.op in ('==', '<=') and isinstance(c.a, Sym) and isinstance(c.b, Sym):
        # LEN(<val>) - 0 == 0   (norm_cmp moved everything to the left)
        atoms = list(c.a.atoms())
        if len(atoms) == 1 and atoms[0][0] == 'f' and atoms[0][1] == 'LEN':
            lhs = Sym.func('LEN', *atoms[0][2])
            if c.a == lhs and c.b == Sym.const(0):
                return atoms[0][2][0] == _wrapped(val)
        return False
    if isinstance(c, Cmp) and c.op == '<' and isinstance(c.a, Sym) and isinstance(c.b, Sym):
        atoms = list(c.a.atoms())
        if len(atoms) == 1 and atoms[0][0] == 'f' and atoms[0][1] == 'LEN':
            lhs = Sym.func('LEN', *atoms[0][2])
            if c.a == lhs - 1 and c.b == Sym.const(0):
                return atoms[0][2][0] == _wrapped(val)
        return False
    if isinstance(c, NotC) and isinstance(c.c, Truthy):
        return c.c.v == val
    if isinstance(c, Cmp) and c.op == '==' and not isinstance(c.a, Sym):
        return (c.a == val and c.b in (Str.lit(''), Str(()))) or \
               (c.b == val and c.a in (Str.lit(''), Str(())))
    return False


def _wrapped(val):
    from .interp import _wrap
    return _wrap(val)


class RetryFacts:
    def __init__(self):
        self.node = None
        self.line = 0
        self.reply_var = None
        self.counter_var = None
        self.start = None
        self.max_iterations = None
        self.increment_ok = None
        self.same_pipeline = None
        self.first_shape = None
        self.body_shape = None
        self.problems = []

    def as_dict(self):
        return {'line': self.line, 'reply_var': self.reply_var, 'counter_var': self.counter_var,
                'start': self.start, 'max_iterations': self.max_iterations,
                'increment_by_one_on_every_path': self.increment_ok,
                'same_read_pipeline': self.same_pipeline, 'problems': self.problems}


def analyse_retry_loop(interp, node, st, limit=2000):
    """Facts about a `while` loop entered in abstract state `st` (see module docstring)."""
    facts = RetryFacts()
    facts.node, facts.line = node, node.lineno
    names, _fields = assigned_names(node)
    s = st.copy()
    symbolic = {}
    for n in sorted(names):
        cur = st.env.get(n)
        if isinstance(cur, Sym):
            symbolic[n] = Sym.var('@loop_' + n)
            s.env[n] = symbolic[n]
        else:
            s.env[n] = Opaque('loopvar:' + n, (), type_of(cur) if cur is not None and
                              type_of(cur) in ('str', 'bytes', 'list') else 'unknown')
    vals = list(interp.ev(node.test, s))
    if len(vals) != 1 or vals[0][1].raised:
        facts.problems.append('loop test is not a single side-effect-free condition')
        return facts
    cond = vals[0][0]
    if not isinstance(cond, COND_TYPES):
        cond = Truthy(cond)
    cj = conjuncts(cond)
    # (a) emptiness conjunct
    for n in sorted(names):
        if n in symbolic:
            continue
        if any(is_empty_test(c, s.env[n]) for c in cj):
            facts.reply_var = n
    # (b) counter conjunct
    bound = None
    for c in cj:
        if isinstance(c, Cmp) and isinstance(c.a, Sym) and isinstance(c.b, Sym):
            for n, sv in symbolic.items():
                if any(a == ('v', '@loop_' + n) for a in c.a.atoms()) and \
                        all(a[0] == 'v' for a in c.a.atoms()) and len(list(c.a.atoms())) == 1:
                    facts.counter_var = n
                    bound = c
    others = [c for c in cj if c is not bound and not (
        facts.reply_var and is_empty_test(c, s.env[facts.reply_var]))]
    if others:
        facts.problems.append('loop test has additional conjuncts: %r' % (others,))
    if facts.reply_var is None:
        facts.problems.append('the loop test does not require the reply variable to be empty')
    if bound is None:
        facts.problems.append('the loop test has no bound on a counter')
        return facts
    start = st.env.get(facts.counter_var)
    if not (isinstance(start, Sym) and start.is_const() and start.const_value().denominator == 1):
        facts.problems.append('the retry counter does not start from a literal')
        return facts
    facts.start = int(start.const_value())
    # (c) number of admitted iterations
    kvar = ('v', '@loop_' + facts.counter_var)
    n_it = 0
    k = facts.start
    while n_it <= limit:
        t = fold_cond(Cmp(bound.op, bound.a.subs({kvar: Sym.const(k)}), bound.b))
        if t is None:
            facts.problems.append('bound test not decidable at k=%d' % k)
            return facts
        if not t:
            break
        n_it += 1
        k += 1
    facts.max_iterations = n_it if n_it <= limit else None
    if facts.max_iterations is None:
        facts.problems.append('the bound admits more than %d iterations (unbounded?)' % limit)
    # (d) body: unit increment, same pipeline
    inc_ok, shapes = True, set()
    n_paths = 0
    for out in interp.exec_block(node.body, s):
        if out.kind in ('raise', 'return'):
            continue
        n_paths += 1
        nv = out.state.env.get(facts.counter_var)
        if not (isinstance(nv, Sym) and nv == symbolic[facts.counter_var] + 1):
            inc_ok = False
        if facts.reply_var:
            shapes.add(erase_ordinals(out.state.env.get(facts.reply_var)))
    facts.increment_ok = inc_ok and n_paths > 0
    if facts.reply_var:
        first = st.env.get(facts.reply_var)
        facts.first_shape = erase_ordinals(first)
        facts.body_shape = sorted(shapes, key=repr)
        facts.same_pipeline = (shapes == {facts.first_shape})
    return facts


def while_loops(fn_node):
    return [n for n in ast.walk(fn_node) if isinstance(n, ast.While)]


def contains_call_attr(node, attrs):
    for n in ast.walk(node):
        if isinstance(n, ast.Call) and isinstance(n.func, ast.Attribute) and n.func.attr in attrs:
            return True
    return False
