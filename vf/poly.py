"""Rational normal forms (M3): quotients of multivariate polynomials with Fraction coefficients.

A `Sym` is num/den with num, den polynomials over *atoms*.  Atoms are either named
variables ('v', name) or opaque function applications ('f', fname, (Sym, ...)) whose arguments are
themselves normal forms, so FLOOR(P/2**31) is the same atom however P was spelled in the source.

Equality of two Syms is decided exactly by cross-multiplication of the polynomials (no GCD is
needed); hashing uses a Schwartz-Zippel style fingerprint (evaluation at a fixed point modulo a
prime) so that semantically equal forms hash alike and can be used as dictionary keys / atom
arguments.  Nothing here evaluates repo code; it is a term algebra.
"""
from fractions import Fraction
import hashlib

_P = (1 << 89) - 1  # Mersenne prime used for fingerprints


def _stable_int(text):
    return int.from_bytes(hashlib.sha1(text.encode()).digest()[:11], 'big') % _P


class Poly:
    """Immutable polynomial: dict monomial -> Fraction, monomial = tuple of (atom, exp) sorted."""
    __slots__ = ('terms', '_fp')

    def __init__(self, terms):
        self.terms = {m: c for m, c in terms.items() if c != 0}
        self._fp = None

    @staticmethod
    def const(c):
        return Poly({(): Fraction(c)})

    @staticmethod
    def atom(a):
        return Poly({((a, 1),): Fraction(1)})

    def is_zero(self):
        return not self.terms

    def is_const(self):
        return all(m == () for m in self.terms)

    def const_value(self):
        return self.terms.get((), Fraction(0))

    def __add__(self, other):
        t = dict(self.terms)
        for m, c in other.terms.items():
            t[m] = t.get(m, 0) + c
        return Poly(t)

    def __neg__(self):
        return Poly({m: -c for m, c in self.terms.items()})

    def __sub__(self, other):
        return self + (-other)

    def __mul__(self, other):
        t = {}
        for m1, c1 in self.terms.items():
            for m2, c2 in other.terms.items():
                m = mono_mul(m1, m2)
                t[m] = t.get(m, 0) + c1 * c2
        return Poly(t)

    def scale(self, c):
        return Poly({m: k * c for m, k in self.terms.items()})

    def __eq__(self, other):
        if not isinstance(other, Poly):
            return NotImplemented
        if len(self.terms) != len(other.terms):
            return False
        for m, c in self.terms.items():
            if other.terms.get(m) != c:
                return False
        return True

    def __hash__(self):
        return self.fingerprint()

    def fingerprint(self):
        if self._fp is None:
            tot = 0
            for m, c in self.terms.items():
                v = (c.numerator % _P) * pow(c.denominator % _P, _P - 2, _P) % _P
                for a, e in m:
                    v = v * pow(atom_fp(a), e, _P) % _P
                tot = (tot + v) % _P
            self._fp = tot
        return self._fp

    def atoms(self):
        s = set()
        for m in self.terms:
            for a, _ in m:
                s.add(a)
        return s

    def degree_in(self, atom):
        d = 0
        for m in self.terms:
            for a, e in m:
                if a == atom:
                    d = max(d, e)
        return d


def atom_key(a):
    """Total, deterministic order on atoms (variables before function atoms, then by name)."""
    if a[0] == 'v':
        return (0, a[1], 0)
    return (1, a[1], atom_fp(a))


_ATOM_FP = {}


def atom_fp(a):
    fp = _ATOM_FP.get(a)
    if fp is None:
        if a[0] == 'v':
            fp = _stable_int('v:' + a[1])
        else:
            fp = _stable_int('f:' + a[1] + ':' + ','.join(str(x.fingerprint()) for x in a[2]))
        fp = fp or 1
        _ATOM_FP[a] = fp
    return fp


def mono_mul(m1, m2):
    if not m1:
        return m2
    if not m2:
        return m1
    d = {}
    for a, e in m1:
        d[a] = d.get(a, 0) + e
    for a, e in m2:
        d[a] = d.get(a, 0) + e
    return tuple(sorted(((a, e) for a, e in d.items() if e), key=lambda ae: atom_key(ae[0])))


def mono_key(m):
    """Lexicographic order key on monomials (by atom order, higher exponent first)."""
    return tuple((atom_key(a), e) for a, e in m)


def mono_div(m1, m2):
    """m1 / m2 if divisible else None."""
    d = dict(m1)
    for a, e in m2:
        if d.get(a, 0) < e:
            return None
        d[a] -= e
    return tuple(sorted(((a, e) for a, e in d.items() if e), key=lambda ae: atom_key(ae[0])))


_ONE = Poly({(): Fraction(1)})


APPROX_SQRT = [False]     # witness evaluation only: see Sym.evaluate


class Sym:
    """num/den in light normal form (constant denominators folded, den leading coeff 1)."""
    __slots__ = ('num', 'den', '_fp')

    def __init__(self, num, den=None):
        if den is None:
            den = _ONE
        if den.is_zero():
            raise ZeroDivisionError('symbolic division by the zero polynomial')
        if den.is_const():
            c = den.const_value()
            if c != 1:
                num = num.scale(1 / c)
                den = _ONE
        else:
            if not num.is_zero():
                q, r = poly_divmod(num, den)     # exact cancellation when den divides num
                if r.is_zero():
                    num, den = q, Poly.const(1)
            if not den.is_const():
                lead = den.terms[max(den.terms, key=mono_key)]
                if lead != 1:
                    num = num.scale(1 / lead)
                    den = den.scale(1 / lead)
        if num.is_zero():
            den = _ONE
        self.num, self.den, self._fp = num, den, None

    # ---- constructors
    @staticmethod
    def const(c):
        return Sym(Poly.const(c))

    @staticmethod
    def var(name):
        return Sym(Poly.atom(('v', name)))

    @staticmethod
    def func(fname, *args):
        return Sym(Poly.atom(('f', fname, tuple(args))))

    # ---- predicates
    def is_const(self):
        return self.den.is_const() and self.num.is_const()

    def const_value(self):
        return self.num.const_value() / self.den.const_value()

    def is_poly(self):
        return self.den.is_const()

    def as_atom(self):
        """Return the atom if this Sym is exactly one atom, else None."""
        if self.is_poly() and len(self.num.terms) == 1:
            (m, c), = self.num.terms.items()
            if c == 1 and len(m) == 1 and m[0][1] == 1:
                return m[0][0]
        return None

    def atoms(self):
        return self.num.atoms() | self.den.atoms()

    def all_atoms(self):
        """Atoms including those nested inside function-atom arguments."""
        out = set()
        stack = list(self.atoms())
        while stack:
            a = stack.pop()
            if a in out:
                continue
            out.add(a)
            if a[0] == 'f':
                for arg in a[2]:
                    stack.extend(arg.atoms())
        return out

    # ---- arithmetic
    def __add__(self, o):
        o = as_sym(o)
        if self.den == o.den:
            return Sym(self.num + o.num, self.den)
        return Sym(self.num * o.den + o.num * self.den, self.den * o.den)

    __radd__ = __add__

    def __neg__(self):
        return Sym(-self.num, self.den)

    def __sub__(self, o):
        o = as_sym(o)
        if self.den is _ONE and o.den is _ONE:
            return Sym(self.num - o.num)
        return self + (-o)

    def __rsub__(self, o):
        return as_sym(o) - self

    def __mul__(self, o):
        o = as_sym(o)
        return Sym(self.num * o.num, self.den * o.den)

    __rmul__ = __mul__

    def __truediv__(self, o):
        o = as_sym(o)
        if o.num.is_zero():
            raise ZeroDivisionError('symbolic division by zero')
        return Sym(self.num * o.den, self.den * o.num)

    def __rtruediv__(self, o):
        return as_sym(o) / self

    def __pow__(self, n):
        if not isinstance(n, int):
            raise TypeError('integer powers only')
        if n < 0:
            return Sym.const(1) / (self ** (-n))
        r = Sym.const(1)
        for _ in range(n):
            r = r * self
        return r

    # ---- equality / hashing
    def __eq__(self, o):
        if not isinstance(o, (Sym, int, Fraction)):
            return NotImplemented
        o = as_sym(o)
        if self.fingerprint() != o.fingerprint():
            return False
        return self.num * o.den == o.num * self.den

    def __ne__(self, o):
        r = self.__eq__(o)
        return r if r is NotImplemented else not r

    def __hash__(self):
        return self.fingerprint()

    def fingerprint(self):
        if self._fp is None:
            d = self.den.fingerprint()
            if d == 0:
                d = 1  # vanishingly unlikely; keeps hashing total
            self._fp = self.num.fingerprint() * pow(d, _P - 2, _P) % _P
        return self._fp

    # ---- substitution
    def subs(self, mapping):
        """mapping: atom -> Sym.  Substitutes recursively inside function-atom arguments; function
        atoms are rebuilt through `mk_func` so simplification rules re-apply."""
        def sub_poly(p):
            tot = Sym.const(0)
            for m, c in p.terms.items():
                t = Sym.const(c)
                for a, e in m:
                    t = t * (sub_atom(a) ** e)
                tot = tot + t
            return tot

        def sub_atom(a):
            if a in mapping:
                return mapping[a]
            if a[0] == 'f':
                return mk_func(a[1], *[x.subs(mapping) for x in a[2]])
            return Sym(Poly.atom(a))
        return sub_poly(self.num) / sub_poly(self.den)

    def subs_atoms(self, mapping):
        """Replace top-level atoms by Syms (no recursion into function arguments)."""
        def sub_poly(p):
            tot = Sym.const(0)
            for m, c in p.terms.items():
                t = Sym.const(c)
                for a, e in m:
                    t = t * ((mapping[a] if a in mapping else Sym(Poly.atom(a))) ** e)
                tot = tot + t
            return tot
        return sub_poly(self.num) / sub_poly(self.den)

    # ---- exact evaluation of the *normal form* at a rational point (used only to exhibit a
    # concrete, realisable counterexample for a decision table; never runs repo code)
    def evaluate(self, assign):
        import math

        def ev_atom(a):
            if a[0] == 'v':
                if a[1] not in assign:
                    raise KeyError(a[1])
                return Fraction(assign[a[1]])
            vals = [x.evaluate(assign) for x in a[2]]
            f = a[1]
            if f == 'FLOOR':
                return Fraction(math.floor(vals[0]))
            if f == 'CEIL':
                return Fraction(math.ceil(vals[0]))
            if f == 'TRUNC':
                return Fraction(math.trunc(vals[0]))
            if f == 'ROUND':
                return Fraction(round(vals[0]))
            if f == 'ABS':
                return abs(vals[0])
            if f == 'MAX':
                return max(vals)
            if f == 'MIN':
                return min(vals)
            if f in ('BITAND', 'BITOR', 'BITXOR', 'LSHIFT', 'RSHIFT') and all(
                    v.denominator == 1 for v in vals):
                x, y = int(vals[0]), int(vals[1])
                return Fraction({'BITAND': x & y, 'BITOR': x | y, 'BITXOR': x ^ y,
                                 'LSHIFT': x << y if 0 <= y < 256 else 0,
                                 'RSHIFT': x >> y if 0 <= y < 256 else 0}[f])
            if f == 'SQRT' and vals[0] >= 0:
                import math as _m
                r = _m.isqrt(vals[0].numerator * vals[0].denominator)
                if r * r == vals[0].numerator * vals[0].denominator:
                    return Fraction(r, vals[0].denominator)
                if APPROX_SQRT[0]:
                    # irrational root: a rational within 10^-40 of it (enough to order it
                    # against the integers and rationals of a witness; never used for proofs)
                    k = 10 ** 40
                    return Fraction(_m.isqrt(vals[0].numerator * vals[0].denominator * k * k),
                                    vals[0].denominator * k)
            raise KeyError(f)

        def ev_poly(p):
            tot = Fraction(0)
            for m, c in p.terms.items():
                t = c
                for a, e in m:
                    t *= ev_atom(a) ** e
                tot += t
            return tot
        d = ev_poly(self.den)
        if d == 0:
            raise ZeroDivisionError
        return ev_poly(self.num) / d

    # ---- printing
    def __repr__(self):
        return show(self)


def as_sym(x):
    if isinstance(x, Sym):
        return x
    if isinstance(x, bool):
        return Sym.const(int(x))
    if isinstance(x, (int, Fraction)):
        return Sym.const(x)
    if isinstance(x, float):
        return Sym.const(exact_fraction(repr(x)))
    raise TypeError('cannot convert %r to Sym' % (x,))


def exact_fraction(text):
    """Decimal literal -> exact Fraction of its *decimal* spelling (25.4 -> 127/5)."""
    return Fraction(text)


# ------------------------------------------------------------------ function atoms
INT_FUNCS = {'FLOOR', 'CEIL', 'TRUNC', 'ROUND'}
INT_VARS = set()  # variable names declared integer-valued by the running check


def is_intvalued(s):
    """'Integer-valued on the declared integer atoms'.  First the cheap structural test (integer
    coefficients over integer atoms); otherwise the exact criterion for polynomials with rational
    coefficients: f with degree <= d_i in atom i is integer-valued on Z^n iff it is integer on the
    grid prod {0..d_i} (its coefficients in the binomial basis are determined by, and integer
    combinations of, those values) - e.g. accel*T*(T+1)/2 and jerk*(T^3-T)/6.  Function atoms
    with integer values (FLOOR/CEIL/TRUNC/ROUND) count as independent integer atoms."""
    if not s.is_poly():
        return False
    if _intvalued_structural(s):
        return True
    return _intvalued_by_grid(s)


def _intvalued_by_grid(s):
    import itertools
    terms = s.num.terms
    degs = {}
    for m, c in terms.items():
        for a, e in m:
            if a[0] == 'v':
                if a[1] not in INT_VARS:
                    return False
            elif a[1] not in INT_FUNCS:
                return False
            degs[a] = max(degs.get(a, 0), e)
    atoms = sorted(degs, key=repr)
    size = 1
    for a in atoms:
        size *= degs[a] + 1
    if not atoms or size > 20000:
        return False
    for point in itertools.product(*[range(degs[a] + 1) for a in atoms]):
        val = dict(zip(atoms, point))
        tot = Fraction(0)
        for m, c in terms.items():
            t = c
            for a, e in m:
                t *= val[a] ** e
            tot += t
        if tot.denominator != 1:
            return False
    return True


def _intvalued_structural(s):
    for m, c in s.num.terms.items():
        if c.denominator != 1:
            return False
        for a, _ in m:
            if a[0] == 'v':
                if a[1] not in INT_VARS:
                    return False
            elif a[1] in INT_FUNCS:
                continue
            elif a[1] in ('ABS', 'MAX', 'MIN'):
                if not all(is_intvalued(x) for x in a[2]):
                    return False
            else:
                return False
    return True


def mk_func(fname, *args):
    """Build a function atom with the few sound simplifications used by the rules."""
    import math
    args = [as_sym(a) for a in args]
    if all(a.is_const() for a in args):
        vals = [a.const_value() for a in args]
        if fname == 'FLOOR':
            return Sym.const(math.floor(vals[0]))
        if fname == 'CEIL':
            return Sym.const(math.ceil(vals[0]))
        if fname == 'TRUNC':
            return Sym.const(math.trunc(vals[0]))
        if fname == 'ROUND':
            return Sym.const(round(vals[0]))
        if fname == 'ABS':
            return Sym.const(abs(vals[0]))
        if fname == 'MAX':
            return Sym.const(max(vals))
        if fname == 'MIN':
            return Sym.const(min(vals))
    if fname in INT_FUNCS and is_intvalued(args[0]):
        return args[0]
    if fname in ('FLOOR', 'CEIL') and args[0].is_poly():
        a = args[0]
        # FLOOR(x + n) = FLOOR(x) + n for integer-valued n: pull the integer-valued terms out
        ipart, rest = {}, {}
        for m, c in a.num.terms.items():
            t = Sym(Poly({m: c}))
            (ipart if is_intvalued(t) else rest)[m] = c
        if ipart and rest:
            return Sym(Poly(ipart)) + mk_func(fname, Sym(Poly(rest)))
        # FLOOR(FLOOR(y)/b) = FLOOR(y/b) for a positive integer constant b (nested floor division)
        if fname == 'FLOOR' and len(a.num.terms) == 1:
            (m, c), = a.num.terms.items()
            if len(m) == 1 and m[0][1] == 1 and m[0][0][0] == 'f' and m[0][0][1] == 'FLOOR' \
                    and c > 0 and c.numerator == 1:
                return mk_func('FLOOR', m[0][0][2][0] * c)
    if fname in ('MAX', 'MIN'):
        # commutative/associative: flatten and sort arguments
        flat = []
        for a in args:
            at = a.as_atom()
            if at is not None and at[0] == 'f' and at[1] == fname:
                flat.extend(at[2])
            else:
                flat.append(a)
        uniq = []
        for a in flat:
            if not any(a == b for b in uniq):
                uniq.append(a)
        if len(uniq) == 1:
            return uniq[0]
        uniq.sort(key=lambda s: s.fingerprint())
        return Sym.func(fname, *uniq)
    return Sym.func(fname, *args)


# ------------------------------------------------------------------ division / ideals
def leading(p):
    m = max(p.terms, key=mono_key)
    return m, p.terms[m]


def poly_divmod(p, d):
    """Multivariate division of p by the single divisor d (lex order). Returns (q, r)."""
    lm, lc = leading(d)
    q = Poly({})
    r = Poly({})
    p = Poly(dict(p.terms))
    guard = 0
    while not p.is_zero():
        guard += 1
        if guard > 100000:
            raise RuntimeError('poly_divmod did not terminate')
        m, c = leading(p)
        qm = mono_div(m, lm)
        if qm is None:
            r = r + Poly({m: c})
            p = p - Poly({m: c})
        else:
            t = Poly({qm: c / lc})
            q = q + t
            p = p - t * d
    return q, r


def reduce_mod(s, gens):
    """Reduce the numerator of polynomial-form Sym `s` modulo the polynomial generators `gens`
    (each a Sym with constant denominator), repeatedly, until stable."""
    if not s.is_poly():
        num = s.num
    else:
        num = s.num
    gens = [g.num for g in gens if not g.num.is_zero()]
    changed = True
    rounds = 0
    while changed and rounds < 50:
        changed = False
        rounds += 1
        for g in gens:
            _, r = poly_divmod(num, g)
            if not (r == num):
                num = r
                changed = True
    return Sym(num, s.den)


def reduce_deep(s, gens):
    """Reduce modulo gens also inside the arguments of function atoms (congruence closure for the
    single-generator / triangular generator sets used by the rules)."""
    mapping = {}
    for a in s.atoms():
        if a[0] == 'f':
            new_args = [reduce_deep(x, gens) for x in a[2]]
            mapping[a] = mk_func(a[1], *new_args)
    if mapping:
        s = s.subs_atoms(mapping)
    if s.is_poly():
        return reduce_mod(s, gens)
    return Sym(reduce_mod(Sym(s.num), gens).num, reduce_mod(Sym(s.den), gens).num)


def equal_mod(a, b, gens):
    """a == b modulo the ideal generated by gens (sound: True means provably equal when all gens
    vanish; completeness holds for the linear generators used by the rules)."""
    d = as_sym(a) - as_sym(b)
    if d.num.is_zero():
        return True
    if not gens:
        return False
    if reduce_mod(Sym(d.num), gens).num.is_zero():
        return True
    return (reduce_deep(as_sym(a), gens) - reduce_deep(as_sym(b), gens)).num.is_zero()


# ------------------------------------------------------------------ printing
def show_atom(a):
    if a[0] == 'v':
        return a[1]
    return '%s(%s)' % (a[1], ', '.join(show(x) for x in a[2]))


def show_poly(p):
    if p.is_zero():
        return '0'
    parts = []
    for m in sorted(p.terms, key=mono_key, reverse=True):
        c = p.terms[m]
        mon = '*'.join(show_atom(a) if e == 1 else '%s^%d' % (show_atom(a), e) for a, e in m)
        if not mon:
            s = str(c)
        elif c == 1:
            s = mon
        elif c == -1:
            s = '-' + mon
        else:
            s = '%s*%s' % (c, mon)
        parts.append(s)
    out = parts[0]
    for s in parts[1:]:
        out += (' - ' + s[1:]) if s.startswith('-') else (' + ' + s)
    return out


def show(s):
    if s.den.is_const():
        return show_poly(s.num)
    return '(%s)/(%s)' % (show_poly(s.num), show_poly(s.den))
