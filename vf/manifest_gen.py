"""Regenerates /verif/MANIFEST.json from the per-property metadata below (python3 -m vf.manifest_gen)."""
import json
import os

from .report import VERIF

BASELINE_CMD = ("cd /repo && /venv/bin/python -m pytest -ra -q -p no:cacheprovider --timeout=900 "
                "--continue-on-collection-errors")

# pid -> (technique, level text, level note, design ref)
CLAIMS = {}
NOT_YET = {}


def claim(pid, technique, text, note, ref):
    CLAIMS[pid] = (technique, text, note, ref)


claim('C20',
      'abstract interpretation of the AST to a replace-chain / decision table + table comparison',
      'Decides statically, for all inputs: xml_escape is a chain of str.replace links rooted at the '
      'parameter whose (char, entity) pairs equal the XML predefined-entity table and in which no '
      'later link can rewrite the output of an earlier one (ampersand first); format_hms, '
      'interpreted over rational normal forms for both unit modes, has the specified decision '
      'table (sub-10 s branch on the scaled duration with 3 decimals; thresholds 60/3600 tested on '
      'the ROUNDed value; fields FLOOR(R/3600), FLOOR(R/60)-60*FLOOR(R/3600), R-60*FLOOR(R/60) with '
      'zero-padded width 2; ms mode = seconds mode on d/1000). Not decided: round() tie-breaking '
      'and float formatting (library facts).',
      'Trusted: Python ast, str.replace / round / format-spec semantics, the entity table '
      'transcribed from XML 1.0; the abstract interpreter vf/interp.py.',
      'DESIGN.md section 3, C20')


def build():
    checks = []
    for pid in sorted(CLAIMS):
        technique, text, note, ref = CLAIMS[pid]
        checks.append({
            'property_id': pid,
            'quick_cmd': './check %s quick' % pid,
            'thorough_cmd': './check %s thorough' % pid,
            'evidence_file': 'evidence/%s.json' % pid,
            'replay_cmd_template': './check %s quick' % pid,
            'engine': 'vf',
            'level_claimed': {'category': 'other', 'text': text, 'design_ref': ref},
            'level_note': note,
            'technique': technique,
        })
    na = []
    for i in range(1, 21):
        pid = 'C%02d' % i
        if pid not in CLAIMS:
            na.append({'property_id': pid, 'reason': NOT_YET.get(
                pid, 'static check designed (DESIGN.md section 3) but not yet built in this '
                     'commit; not claimed until its checker exists and passes its self-test')})
    man = {
        'version': 1,
        'setup_cmd': 'python3 -B -c "import ast, fractions, sys; sys.path.insert(0, \'.\'); '
                     'import vf.cli, vf.interp, vf.poly, vf.model, vf.report; print(\'vf ok\')"',
        'hooks': {
            'guard': 'PLOTINK_VERIF',
            'enable': 'none needed: the checks are static (they parse /repo/plotink/*.py); no '
                      'instrumentation exists in /repo and the guard variable is never read',
            'baseline_off_cmd': BASELINE_CMD,
            'source_commits': [],
            'add_only': True,
        },
        'engines': [{
            'name': 'vf',
            'path': 'vf/',
            'serves_properties': sorted(CLAIMS),
            'kind_free_text': 'repository-specific static analysis over the stdlib ast: program '
                              'model + call graph, statement CFG with dominance, abstract '
                              'interpreter over rational normal forms / string templates / '
                              'finite case domains, table extraction and comparison',
        }],
        'checks': checks,
        'not_applicable': na,
        'notes': 'Static analysis only: no repo code is imported or executed by any check; exit 0 '
                 '= all obligations discharged, exit 1 = VIOLATION lines, exit 2 = ANALYSIS-ERROR '
                 '(cannot conclude; never a violation). Six genuine defects found by the rules '
                 'were repaired by fix: commits in /repo and are recorded in known_findings.json.',
    }
    with open(os.path.join(VERIF, 'MANIFEST.json'), 'w') as fh:
        json.dump(man, fh, indent=1)
    return man


if __name__ == '__main__':
    m = build()
    print('MANIFEST.json: %d checks, %d not_applicable' % (len(m['checks']), len(m['not_applicable'])))
