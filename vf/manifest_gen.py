"""Regenerates /verif/MANIFEST.json from the per-property metadata below (python3 -m vf.manifest_gen)."""
import json
import os

from .report import VERIF

BASELINE_CMD = ("cd /repo && /venv/bin/python -m pytest -ra -q -p no:cacheprovider --timeout=900 "
                "--continue-on-collection-errors")

# pid -> (technique, level text, level note, design ref)
CLAIMS = {}
NOT_YET = {}
WITNESS = {'C01', 'C02', 'C03', 'C06', 'C16', 'C17', 'C18', 'C20'}


def claim(pid, technique, text, note, ref):
    CLAIMS[pid] = (technique, text, note, ref)


claim('C20',
      'abstract interpretation of the AST to a replace-chain / decision table + table comparison',
      'Decides statically, for all inputs: xml_escape is a chain of str.replace links rooted at the '
      'parameter whose (char, entity) pairs cover the XML predefined-entity table and the three '
      'characters a parser normalises (TAB, LF, CR; each by a character reference of its own code '
      'point - rule D5, which found defect F11) and in which no '
      'later link can rewrite the output of an earlier one (ampersand first); a path that returns '
      'the text unchanged (shortcut) establishes the absence of every character the chain '
      'rewrites (D6); format_hms, '
      'interpreted over rational normal forms for both unit modes, has the specified decision '
      'table (sub-10 s branch on the scaled duration with 3 decimals; thresholds 60/3600 tested on '
      'the ROUNDed value; fields FLOOR(R/3600), FLOOR(R/60)-60*FLOOR(R/3600), R-60*FLOOR(R/60) with '
      'zero-padded width 2; ms mode = seconds mode on d/1000). Not decided: round() tie-breaking '
      'and float formatting (library facts).',
      'Trusted: Python ast, str.replace / round / format-spec semantics, the entity table '
      'transcribed from XML 1.0; the abstract interpreter vf/interp.py.',
      'DESIGN.md section 3, C20')

claim('C18',
      'abstract interpretation over all order types (weak orderings) of the compared terms',
      'Exhaustive over a finite abstraction: checkLimits, checkLimitsTol, constrainLimits and '
      'point_in_bounds are interpreted once per weak ordering of {value, lower, upper, lower-tol, '
      'upper+tol} compatible with lower<=upper, tol>=0 (8 / 24 / 320 order types); in each the '
      'returned value must be the value inside the closed range or the nearer bound and the flag '
      'must be exactly "outside" / "outside by more than tol"; point_in_bounds must equal the '
      'tolerant checker per coordinate (against the spec and against the extracted sibling '
      'table). The functions touch inputs only through comparisons/min/max (verified: every order '
      'type must be fully decided), so this covers every totally ordered numeric input.',
      'Trusted: Python ast, min/max semantics, vf/interp.py + vf/order.py. Excluded by the '
      'statement: NaN / unordered inputs.',
      'DESIGN.md section 3, C18')

claim('C12',
      'decision-table extraction per unit literal in exact rational normal forms + table comparison',
      'Decides at table level, for every value: the four converters, interpreted per unit literal '
      'with the parser summarised as (v, unit), return exactly f_u*v, f_u*v/96, v/f_u (SVG/CSS '
      'factors at 96 px/in, decimal literals converted exactly), percentages of the supplied '
      'reference, None for unknown units / unparsable values / "%" in inches; the round trip is the '
      'identity as a normal form for each unit; every unit the parser can produce is handled by '
      'every converter (both Q/q). The parser, interpreted on an opaque string, yields one row per '
      'suffix with tested width = stripped width = len(suffix) and the unit equal to the literal, '
      'strips whitespace first, and guards float() with a ValueError handler returning '
      '(None, None). Not decided: which numerals float() accepts; float rounding of the round trip.',
      'Trusted: Python ast, float()/str slicing semantics, the SVG unit table transcribed in '
      'vf/props/c12.py, vf/interp.py.',
      'DESIGN.md section 3, C12')

claim('C14',
      'order-type enumeration of filter/overlap predicates + structural rules on the constructor',
      'Decides the statement for all box collections and queries at the structural level: (D1) '
      'every order type of a box relative to the split variables satisfies at least one quadrant '
      'filter and is stored unchanged; (D2) extents fold MIN/MAX of the right coordinate from '
      '+/-inf; (D3) over all order types of two closed intervals per axis the leaf test equals '
      '"share a point" and the subtree test is implied by it; (D4) both stores are iterated, '
      'recursive results united, query unchanged, leaves keep all boxes; (D5) recursion only when '
      'every quadrant shrank, over filter lists only (strictly decreasing measure); (D6) no '
      'in-place mutation of class-level lists. D1-D5 together imply result = brute force. When '
      'the constructor is not written as four filter comprehensions after an extent loop, D1, D2, '
      'D4 (leaf) and D5 are read off its behaviour on a list of two symbolic boxes for every '
      'order type of one box relative to the split point (the second box makes the split point '
      'an arbitrary number), independently of how the code is written.',
      'Trusted: Python ast, set semantics, vf/interp.py + vf/order.py. The composition argument '
      '(D1-D5 imply the statement) is a pen-and-paper induction on the tree, stated in DESIGN.md.',
      'DESIGN.md section 3, C14')

claim('C01',
      'abstract interpretation to rational normal forms; identity with the recurrence closed form; sign-case table; precision dominance rule',
      'Decides, as identities of exact normal forms over all integer tuples: move_dist_lt returns '
      'FLOOR(P/2^31), P-2^31*FLOOR(P/2^31) with P the closed form of the firmware recurrence '
      '(truncation toward zero of accel/2 is an opaque TRUNC atom, so a floor rounding differs); '
      'the cleared accumulator follows the 9-case sign table of (tick-1 rate, accel) with every '
      'case covered and the tested quantities identified modulo earlier equalities; mp.dps>=21 '
      '(>=72 bits) is stored before the first mpmath operation on every path (independence from '
      'ambient precision) and every true division runs in mpmath or between raw inputs/literals; '
      'the only early return is time==0 -> (0,0); the deprecated aliases '
      'delegate with the right arguments. Not decided: exactness of the mpmath evaluation itself '
      '(library rounding; bound argued in DESIGN.md).',
      'Trusted: Python ast, exact Fraction polynomial arithmetic in vf/poly.py, vf/interp.py, the '
      'closed form derived in DESIGN.md; assumption: inputs integers, mpmath correctly rounded.',
      'DESIGN.md section 3, C01')

claim('C02',
      'abstract interpretation to rational normal forms; identity with the cubic closed form; 27-case sign table; sibling agreement with C01',
      'Decides as normal-form identities: move_dist_t3 returns FLOOR(P3/2^31), P3-2^31*FLOOR(..) '
      'with P3 the closed form of the third-order recurrence (TRUNC(accel/2), TRUNC(jerk/6) as '
      'rounding atoms; the snap-to-integer idiom accepted only when provably value-preserving and '
      'then compared modulo the implied equality); rate_t3 == ROUND(r0 + T*accel + jerk*T(T-1)/2) '
      'for T>=1; the clear rule covers all 27 sign cases of (tick-1 rate, accel+jerk, jerk) '
      'correctly; precision rule as C01; with jerk:=0 the extracted total equals the extracted '
      'move_dist_lt total. Not decided: exactness of float/mpmath evaluation.',
      'Trusted: as C01; lemma that P3 and the tick rates are integer-valued on integers.',
      'DESIGN.md section 3, C02')

claim('C03',
      'abstract interpretation (path-enumerating decision table) + sign-case tables + closed-form identity on the returned accumulator and on the constant-rate duration + precision/float-division dataflow rule',
      'PARTIAL: structural necessary conditions only. Decided over all ~600 abstract paths per '
      'accumulator mode: the cannot-move table over the 27 sign cases of (steps, rate, accel) '
      '(early (0,0,0) exactly for steps=0 / rate=accel=0 / steps<0 and rate<0); on every computing '
      'path the returned accumulator is the C01 polynomial of the returned duration and position, '
      'with (rate, accel) mirrored exactly on steps<0 paths; the clear rule as in C01; precision '
      'rule, and every true division is evaluated in mpmath or between raw 32-bit inputs/literals '
      '(a compound integer quotient in plain double is reported); moveTimeLM delegation; D7 for '
      'constant-rate moves (accel = 0) the duration IS decided: it equals CEIL((2^31*pos - '
      'accum_adj)/rate) with pos = +-steps by the sign of the rate, which is the first tick at which '
      'the budget is reached because the accumulator is affine in the tick count. For '
      'accelerated moves: D8 the roots of the duration quadratic are skipped only for a negative '
      'discriminant, every accepted root is tested > 0 and on reversal paths > the reversal tick; '
      'D9 the classification "never reverses" (position = initial direction * steps with no bound '
      'on the step count) must imply that the rate keeps its sign after tick 1 - the two regions '
      'of (rate, accel) are compared on integer points and a violation names a point (this rule '
      'found defect F10, fixed in /repo 3803b08); D11 conversely, a path taken because the step '
      'count exceeds the steps made before a reversal lies in the region where the rate does '
      'change sign after tick 1 (rest at tick 1 included, even and odd accel); D10 the steps made '
      'before a reversal are '
      'FLOOR(|C(T)|/2^31) with the accumulator polynomial of D3; D12 a computing path that hands '
      'back a constant (fallback) duration is not taken by any move of a witness grid (path '
      'conditions evaluated with exact / 40-digit square roots) - this rule found the duration-0 '
      'family K1; D13 on a '
      'grid of reversing moves (explicit start accumulators included) the reported position follows '
      'from the steps made before the reversal; D14 on a grid of reversing moves whose '
      'accumulator polynomial comes back to a step boundary exactly at an integer tick (cleared '
      'accumulators: systematically at tick -2*rate_eff/accel) the triple reported by the path '
      'taken equals the one the recurrence gives (this rule found the one-tick-early family; it '
      'and K1 were one defect, F17, fixed in /repo 7327e0e). NOT decided: minimality of the '
      'chosen root in general (only on the grids of D12-D14; DESIGN.md 4.3).',
      'Trusted: as C01. The claim is deliberately limited; see DESIGN.md 3/C03 and 5.',
      'DESIGN.md section 3, C03')

claim('C17',
      'abstract interpretation with inlined callee; candidate extraction from max(); path-fact interval rule + shortfall lemma',
      'Decides structurally for all inputs (given the parabola lemma in DESIGN.md): every value '
      'inside the reported max is |rate at a real tick t| of the C02 closed form with t = 1, T or '
      'a rounding of t_mid that the path facts confine to [1,T] (so reported <= true peak); ticks '
      '1 and T are always included for T>1 (reported >= both end rates); t_mid is 1/2-accel/jerk '
      'as a rational normal form, divided only under jerk != 0, and whenever the vertex candidate '
      'is omitted the guard literals satisfy the shortfall bound (loss <= |jerk|). Not decided: '
      'float rounding of the quotient at the guard boundary.',
      'Trusted: Python ast, vf/poly.py, vf/interp.py, the lemma on extrema of a parabola over '
      'integer ticks.',
      'DESIGN.md section 3, C17')

claim('C11',
      'case-driven abstract interpretation (literal attribute strings x aspect order) to rational normal forms + comparison with the SVG table',
      'Decides the decision table of vb_scale for all numeric viewBox/page values: for align in '
      '{absent, none, 9 aligns in camelCase/upper/lower spellings, comma or blank separated} x '
      'meetOrSlice in {absent, meet, slice} x defer x sign(ar_doc-ar_vb) the returned (s_x, s_y, '
      'o_x, o_y), as rational normal forms over the viewBox and page atoms, equal the SVG 1.1 7.8 '
      'table (modulo H*w=h*W on equal aspect); absent attribute means xMidYMid meet; over the 81 '
      'sign cases of (w,h,W,H) the identity transform is returned exactly for a non-positive size '
      'and before dividing by it; missing viewBox or <4 tokens give the identity; viewBox commas '
      'are mapped to whitespace. Not decided: non-numeric tokens, floating-point evaluation.',
      'Trusted: Python ast, str.strip/replace/lower/split semantics on the literal attribute, the '
      'SVG table transcribed in vf/props/c11.py, vf/interp.py, vf/poly.py.',
      'DESIGN.md section 3, C11')

claim('C08',
      'order-type enumeration of the region codes and of one loop iteration (transfer function) in rational normal forms',
      'Decides step correctness of the Cohen-Sutherland loop in exact arithmetic for every order '
      'type of both end points relative to the rectangle (about 2000 per counter regime): region '
      'code = OR of four distinct single-bit masks with strict outside tests; accept iff both '
      'ends in the closed rectangle (returns the current segment); reject iff both strictly '
      'outside one side; otherwise exactly one outside end point is replaced by the intersection '
      'of the current line with a boundary it is outside of, orientation kept, all division '
      'denominators provably non-zero, counter incremented; with the counter above every literal '
      'the loop always returns (bounded); a counted loop (`for _ in range(N)`) is accepted in '
      'place of the while-form: at least four passes, and with exactly four the code after the '
      'loop accepts a segment whose end points are inside. A region test against a boundary moved by a constant '
      '(absolute tolerance) is reported with a small-scale witness; returns ahead of the loop are '
      'judged on exact rational inputs against Liang-Barsky clipping (mismatch = violation, '
      'agreement = cannot conclude). Not decided: the floating-point tolerance clauses and '
      'what the failsafe returns near precision limits.',
      'Trusted: Python ast, vf/interp.py, vf/order.py, vf/poly.py. Step correctness + boundedness '
      'imply the exact-arithmetic statement by the standard Cohen-Sutherland invariant (each step '
      'keeps the inside part of the segment and removes an outside part).',
      'DESIGN.md section 3, C08')

claim('C09',
      'effect classification of every use of the list + abstract interpretation of early exits + affine index-relation extraction of the loop nest + decision table of the predicate',
      'Decides structurally for every list and tolerance: supersample uses its list only through '
      'len(), slice copies and deletions (in-order subsequence of the same objects); every '
      'mutating path has established len>=3 and tolerance>0; the window-extension loop nest, '
      'reduced to affine relations between window v[s+a0:e+b0], deletion v[s+l0:e+h0] and the '
      'loop bounds, satisfies nine inequalities implying that the first/last vertex survive, only '
      'interior vertices of the last accepted unclamped window are deleted, and the accepted chord '
      'end points survive later iterations; points_in_tolerance, interpreted on 1 and 2 interior '
      'points, compares in every feasible region (sign of the projection t and of |d|^2-t) the '
      'squared distance form of that region with tolerance^2, strictly, and returns True only '
      'when all interior points passed; max_dist_from_n_points is max over interior points of '
      'ffgeom.Segment(first,last).distanceToPoint. D5 (bounded, independent of how the loops are '
      'written or which helper deletes): supersample interpreted on lists of 0..6 (thorough: 8) '
      'distinct vertex objects with both answers of the predicate followed at every call; the '
      'decision tree is evaluated with exact integer geometry on a family of concrete lists '
      '(patterns incl. reversals, repeated points, closing segments) and must leave an in-order '
      'subsequence keeping both ends with every deleted vertex closer than the tolerance to the '
      'segment between its surviving neighbours; a report carries the list. When the affine rule '
      'D3 does not fit the shape of the code the index clauses rest on D5 alone, i.e. on lists up '
      'to that length (the evidence says so). Not decided: floating point.',
      'Trusted: Python ast, list slicing semantics, ink_extensions.ffgeom.Segment.distanceToPoint '
      'as the Euclidean point-to-segment distance, vf/interp.py, vf/poly.py.',
      'DESIGN.md section 3, C09')

claim('C04',
      'typestate abstract interpretation of every method of the class family from the four '
      '(port, err) states, with computed summaries of the transport primitives and fault '
      'injection at every port call; who-may-write scan for side doors',
      'Decides for all call histories at the level of the two state fields: every method of '
      'EBB3/EBBMotionWrap (about 45, discovered from the parsed classes, not listed) is '
      'interpreted from OK / ERR / DISC / DISC_ERR with the serial object opaque. D1: from a state '
      'with an error recorded no method (requests, helpers, connect, disconnect, record_error) '
      'ends with a different err on any path - the first message is never replaced or cleared. '
      'D2: in the three blocked states no method except connect puts bytes on the port (direct '
      'writes and writes inside command/query/query_statusbyte, whose behaviour per state is a '
      'summary computed from their own source). D3: every request method (one that can transmit '
      'from OK) returns None/False/tuple-of-None there and does not raise. D4: within one call, '
      'with a SerialException injectable at every port call, nothing is transmitted after an '
      'error was recorded. D5: no store to .err/.port and no port I/O outside the class family, '
      'no reflective attribute stores. D6: disconnect leaves port None on every path including a '
      'failing close(). D7: a failing exchange (device error reply, unexpected reply, timeout, '
      'USB exception) ends with an error recorded and the failure value - the verdicts of the '
      'C05 exchange analysis on the primitives, taken over per construct (skipped when that '
      'analysis cannot be carried out on the tree - the check then answers cannot-conclude rather than passing on the latch rules alone); likewise the handshake verdicts of the C15 '
      'connect analysis (True only for a verified device whose version passed the minimum test, '
      'every other handshake records an error, an earlier error survives connect) - '
      '"unsupported firmware" is the fifth kind of error and only connect records it. '
      'Because each method is decided from every state, the statement follows '
      'for every sequence of calls by induction on the history. Not decided: behaviour of the '
      'pyserial object itself.',
      'Trusted: Python ast, vf/interp.py, vf/ebb3.py; assumption: the serial object is reached '
      'only through self.port. Guards are interpreted, not pattern-matched, so re-spelling a '
      'guard, moving it to a helper, or dropping it from a pure delegator is not reported.',
      'DESIGN.md section 3, C04')

claim('C05',
      'typestate abstract interpretation of command/query and all request methods: effect '
      'sequences (framing), exact loop unrolling under the all-empty reply case (wait bound), '
      'decision tables over request kinds x reply classes, fault injection (containment), '
      'summary-based nullness of query results',
      'Decides: D1 command/query transmit encode(strip(request)+CR) exactly once on every '
      'fault-free path, at most once on any path, before the first read and not from a loop. '
      'D2 when every read is empty the primitive performs exactly 26 reads (first + 25 re-reads; '
      'loops unrolled abstractly, in helpers too); while-form retry loops increment by one on '
      'every path and re-read through the same read/decode/strip pipeline; the primitives share '
      'no instance field with earlier requests besides the connection typestate (R-STATE: the '
      'wait budget is per request). D3/D4 over 4 request '
      'kinds (one letter, one letter + arguments, two letters, letter + digit such as T3) x representative lengths x 7 reply classes: the request name is the first / first / '
      'first two / first two characters of the TRIMMED request (a name cut from the untrimmed text is reported: the quantifier includes surrounding whitespace); success exactly for a non-empty right-name reply without "Err:"; '
      'command returns True/False in step with err; query returns the reply minus name and one '
      'comma (never indexing past a bare-name reply) or None with err recorded; when a line '
      'arrives at the first read exactly one read is performed (a non-empty line is never read '
      'past). D5 with a '
      'SerialException - and, separately, a plain OSError - injected at every port call, and a UnicodeDecodeError at every decode of a reply, no request method (about 35) lets an '
      'exception escape. D6 a primitive that met a fault ends with err set (frozen exemption: '
      'rb/r/bl in command), every newly recorded error is reported by a failure return value, '
      'messages are non-empty. D7 None results of query/var_read/motors_query_enabled never '
      'reach a dereference (AttributeError/TypeError paths of the abstract interpreter). Not '
      'decided: well-framed but semantically malformed payloads, non-ASCII bytes, attribution '
      'over whole histories (follows from per-call framing against a conforming device).',
      'Trusted: Python ast, vf/interp.py, vf/ebb3.py, vf/loops.py; pyserial raises '
      'SerialException (subclass of IOError) for I/O faults.',
      'DESIGN.md section 3, C05')

claim('C06',
      'abstract interpretation of both helper layers in the string-template domain: extracted '
      'command-sequence tables vs the documented rows and vs the sibling layer; piecewise-affine '
      'identity for the clamp; one-iteration interval case analysis of the pause loop; '
      'zero/non-zero truth table for LM suppression',
      'Decides for all argument values: D1 for each of 48 helpers (23 legacy, 25 EBB3) and each '
      'presence pattern of its optional arguments, the sequence of texts handed to the transport '
      '(templates with slots named by positional parameter index; legacy texts end in exactly '
      'one CR, EBB3 texts carry none) equals the documented EBB command row - order of '
      'arguments, constants, commas, number and order of commands; an optional argument that is '
      'supplied appears whatever its value (a truthiness test forks the abstract path and is '
      'reported: the zero-valued-argument clause). D2 thirteen legacy/EBB3 pairs emit equal '
      'templates. D4 every EM resolution slot is identically clamp(arg,0,5). D5 timed pause, '
      'both layers: the loop runs iff n>=1, each iteration emits exactly one SM,<d>,0,0 with d in '
      '1..750 over every integer region of the remaining time, and the remainder decreases by '
      'exactly d and stays >=0 (or d is the whole remainder and the loop ends), so the durations '
      'sum to n; nothing is sent outside the loop. D6 doLowLevelMove is suppressed exactly when '
      'neither axis can move, over all 64 zero/non-zero cases (tests on compound expressions are '
      'explored on both branches). D7 no helper reaches a live transport without a port. D8 no '
      'port use after disconnect (shared with C04); D9 the QE decode table; D10 the command '
      'sequence of motors_enable per (clamped request, reported board state): CU,50,0 / QE / the '
      'preliminary EM,r,r exactly when the reported resolution differs / EM,r1,r2 (the case table '
      'of C16-D5). Not '
      'decided: that the documented rows are what the firmware expects (transcribed table).',
      'Trusted: Python ast, str.format/f-string semantics as modelled in vf/interp.py, '
      'vf/legacy.py, vf/ebb3.py, the SPEC rows in vf/props/c06.py (from the EBB command reference '
      'quoted in the docstrings). Pause loops not in while form give exit 2 (cannot conclude).',
      'DESIGN.md section 3, C06')

claim('C07',
      'abstract interpretation of the two primitives with fault injection: effect sequences '
      '(one write), str/bytes typestate of every returned / text-used value, exact loop '
      'unrolling under reply scenarios (read counts per request kind), pipeline recognition of '
      'the request-name normalisation',
      'Decides: D1 query and command write encode(request) at most once on any path and exactly '
      'once on every fault-free path, as the first port operation, not from a loop; with no '
      'port or no text nothing touches the port and None is returned. D2 every value query '
      'returns (with port and text) has type str on every path, including paths through the '
      'exception handlers after any read, and no bytes value is used as text - readline() is '
      'bytes, .decode() is str (this is the rule that found the undecoded re-read repaired in '
      'b9f5bd4). D3 with a SerialException injected at every port call nothing escapes. D4 for '
      'each of the seven documented no-OK queries, nine ordinary queries and commands, under '
      '"every read delivers a line" the primitive performs exactly 1 / 2 / 1 reads and returns '
      'the first line read; under "nothing ever arrives" exactly 101 / 202 / 101 reads (each '
      'awaited line gets the first read plus 100 empty re-reads; loops unrolled abstractly, so a '
      'shared or missing retry budget is seen); the no-OK decision is taken on the request text '
      'before the first comma, trimmed and lower-cased. Not decided: alignment over whole '
      'histories (follows from the per-call counts against a conforming board).',
      'Trusted: Python ast, vf/interp.py, vf/legacy.py, vf/loops.py, the no-OK list '
      '{a,i,mr,pi,qm,qg,v} from the EBB command reference.',
      'DESIGN.md section 3, C07')

claim('C15',
      'abstract interpretation with type tags (version / str / num) of the ordering tests; '
      'typestate interpretation of EBB3.connect from four entry states with fault injection '
      '(path conditions as the verification evidence); gate table via forked min_version answers',
      'Decides: D1 in ebb_serial.min_version and EBB3.min_version the ordering test compares two '
      'packaging.version objects (a comparison of text or of a number collapsed from the '
      'components is reported), the board against parse(threshold), answering True exactly on '
      'board >= threshold (equality included; operand order and negated forms normalised); both '
      'layers obtain the board version as parse(strip(split(reply,"Firmware Version ",1)[1])). '
      'D2 every path of connect that returns True (entered not connected: fresh or previously '
      'connected object, with or without an earlier error, named or first-found port) carries '
      'the assumptions "a reply of this handshake contained EBB" and "the version parsed from '
      'this handshake >= MIN_VERSION_STRING" - a stale version from an earlier connection does '
      'not count; connect never raises on the paths the statement covers; an earlier error is '
      'never cleared. D3 every other path returns False with an error recorded. D4 on those '
      'paths the only bytes written are at most two v<CR> probes and the port is closed when '
      'the device was not verified. D5 the five legacy gates (SR>=2.6.0, QC>=2.2.3, QT/ST/RB>='
      '2.5.5) hand their command to the transport only when min_version answered True, nothing '
      'for False or None. Not decided: that packaging orders release segments numerically '
      '(library, trusted); serial faults after successful verification (observation only).',
      'Trusted: Python ast, vf/interp.py, vf/ebb3.py, vf/legacy.py, packaging.version, the gate '
      'thresholds from the docstrings.',
      'DESIGN.md section 3, C15')

claim('C16',
      'abstract interpretation of writer and reader with exact unrolling over the four abstract '
      'bytes: extracted parameter tuples and slot tables compared with each other and the '
      'specification; literal decode-map table check; decision table of motors_enable over the '
      'finite clamped request domain x prior motor states',
      'Decides: D1 var_write_int32 splits the argument with to_bytes(4, big, signed=True) and, on '
      'every path on which all commands were acknowledged, sends byte k to slot start+k for '
      'k=0..3 in order (for every byte 0..255 and start 0..28: range validations are decided '
      'from that domain) and reports success; var_read_int32 reads slots start+k, k=0..3, and '
      'joins exactly those four values in read order with from_bytes(big, signed=True); writer '
      'and reader tuples agree. D2 var_read returns int(reply of QL,<index>); EBB3.query returns '
      'the reply minus the request name and one comma (table shared with C05-D4). D3 '
      'write_nickname sends "ST,"+strip(name) and stores exactly that text in self.name only when '
      'the command succeeded; query_nickname sends QT and stores strip(reply). D4 the QE decode '
      'map equals {0:0} + {2^(5-v): v, v=1..5} and motor 1/2 are decoded from reply field 0/1. '
      'D5 for 64 request pairs (0..5 and out-of-range representatives) x the 16 consistent prior '
      'motor states the commands sent by motors_enable equal the documented single-motor '
      'protocol (CU,50,0 iff exactly one clamped resolution is 0; QE then pre-setting EM,r2,r2 '
      'iff r1=0, r2!=0 and the prior global mode differs; final EM,r1,r2 always, last); a failed '
      'QE aborts. NOT decided: that this protocol leaves the board in the stated motor states - '
      'that depends on firmware EM/CU semantics (a device model).',
      'Trusted: Python ast, vf/interp.py, vf/ebb3.py, int.to_bytes/from_bytes semantics, the '
      'protocol table in vf/props/c16.py (from the code comments / EBB EM documentation).',
      'DESIGN.md section 3, C16')

claim('C19',
      'abstract interpretation of the discovery functions on abstract port lists (exact '
      'unrolling over lists of opaque entries; predicate oracle per port class) - exhaustive '
      'enumeration of port-class lists; structural recognition of needles/haystacks and their '
      'case folding; purity rule for the enumeration',
      'Decides, exhaustively over the abstraction: D1 findPort and EBB3.find_first, for all 85 '
      'lists of <= 3 ports over {name match, id match, both, neither}, yield the device of the '
      'first name-matching port, else of the first id-matching port, else None. D2 every '
      'product-name / USB-id test in the four finder/lister sites is startswith on the '
      'description / hardware id with exactly "EiBotBoard" / "USB VID:PID=04D8:FD92". D3 both '
      'listers return exactly the matching entries, unmodified, in order, None when empty. D4 '
      'find_named_ebb and find_named, for all lists of <= 2 ports over the subsets of criteria '
      '{SER= tag, (name) in description, description[11:] prefix, device prefix, legacy SNR=}, '
      'return the original device string of the first port meeting any criterion, else None; '
      'every needle and haystack is lower-cased on both sides; None for a None name; the layers '
      'differ only in SNR=. D5 list_named_ebbs reports description[11:] / the text after SER= up '
      'to " LOCAT" / (legacy) after SNR= / the device - the same offset and tags the lookup '
      'compares, offset = len("EiBotBoard")+1. R the functions read no module-level mutable '
      'state (each call answers from its own enumeration). Lists longer than 3 (2) ports follow '
      'because the loops treat entries uniformly (each iteration depends only on the entry and '
      'the found-flag). Not decided: what descriptor strings each OS produces.',
      'Trusted: Python ast, vf/interp.py, str.startswith / in / lower semantics; USB VID 04D8 PID '
      'FD92 and product string "EiBotBoard".',
      'DESIGN.md section 3, C19')

claim('C10',
      'one-iteration abstract interpretation of the loop nest with symbolic index and opaque '
      'node list (exits, back edges, path conditions, list effects); role table of the split '
      'verified against the dependency source by polynomial identity; decision table of the '
      'flatness predicate',
      'PARTIAL (termination not decided). Decides structurally: D1 the piece handed to the '
      'splitter is (s_p[i-1][1], s_p[i-1][2], s_p[i][0], s_p[i][1]); with one=(P0,M1,M4,M), '
      'two=(M,M5,M3,P3) (checked on the installed bezmisc source as an identity of normal forms '
      'at t=1/2) every splitting path stores exactly node[i-1].out <- M1, node[i].in <- M3 and '
      'inserts [M4,M,M5] at index i, nothing else - original nodes and outer handles survive, '
      'the inserted node is the curve point at the split parameter, both halves are the de '
      'Casteljau halves. D2 the split parameter is the literal 1/2 (dyadic). D3 the slice store '
      'inserts without overwriting (s_p[i:h], h<=1<=i, or s_p[i:i], or insert). D4 the function '
      'returns only on i >= len(s_p); i advances by exactly one, with no store, only on the path '
      'where points_in_tolerance(current piece, flat) held with the caller\'s flat unchanged; '
      'after a split i is unchanged (both halves are re-tested), and a split happens only when '
      'the predicate was false - hence on return every piece was found flat by the predicate; '
      'the predicate has the point-to-chord decision table (27 rows, shared with C09-D4). NOT '
      'decided: termination (metric convergence over floats; flat*flat underflow never '
      'terminates), floating-point error of midpoints.',
      'Trusted: Python ast, vf/interp.py, list slice-assignment semantics, '
      'ink_extensions.bezmisc (roles verified from source when installed under /venv).',
      'DESIGN.md section 3, C10')

claim('C13',
      'one-symbolic-iteration abstract interpretation of every loop of the index (inductive '
      'steps over loop-carried symbols); position-case decision of the adjacency guards; '
      'normal-form agreement of the cell formula across writer and reader; table agreement of '
      'the id scheme',
      'PARTIAL (geometric optimality not decided). Decides the structural consistency that '
      'makes nearest() correct for every geometry and removal history: D1 for each of the 10 '
      'position cases of a cell (first/interior/last/only column x row) find_adjacents yields '
      'exactly the in-range cells of the 3x3 block, itself included, as index+dx+dy*bins '
      '(affine guards decided per case; non-affine guards fall back to a small-grid witness '
      'search that can only report, never pass). D2 constructor (start and end vertex) and query '
      'use one cell formula min(floor((c-min)/size),bins-1), query also clamped to 0, x with x- '
      'and y with y-quantities, x + bins*y; the extent loop folds every start vertex - and every '
      'end vertex iff reverse - into the right extrema starting from +-inf; one common positive '
      'shim; bin size = widened extent / bins. D3 writer ids (k from vertices[k][0]; '
      'path_count+k from vertices[k][1] only under reverse) and the decoding in both scans of '
      'nearest agree. D4 every append to grid[g] is paired with lookup[id]=g; lookup is sized '
      '2*count / count; remove_path removes exactly p (and p+path_count iff reverse) from the '
      'recorded cells and touches nothing else. D5 nearest: running best starts (inf, None); '
      'replaced only by the scanned id of grid[cell] under dist < or <= best, distance and id '
      'together, dist = square_dist(query, decoded vertex) (checked to be the squared Euclidean '
      'distance); scan 1 over adjacents[query cell], fallback over every other cell continuing '
      'from the running best; early return hands out only a non-None best of scan 1, final '
      'return the overall best. D6 class-level lists are re-bound on self before mutation. NOT '
      'decided: the metric argument from these facts to "true nearest within one cell width"; '
      'float floor at cell borders.',
      'Trusted: Python ast, vf/interp.py, vf/loops.py (one-iteration induction: a loop-carried '
      'fact is established for the symbolic iteration and holds by induction), list semantics.',
      'DESIGN.md section 3, C13')


def build():
    checks = []
    for pid in sorted(CLAIMS):
        technique, text, note, ref = CLAIMS[pid]
        if pid in WITNESS:
            note += (' Witness policy: when the symbolic comparison with the specification fails, the '
                     'extracted normal forms / path table (not the code) are evaluated on a targeted '
                     'input grid; a VIOLATION is reported only with a disagreeing input in its '
                     'message, otherwise the check exits 2 (cannot conclude). Verified against 60 '
                     'behaviour-preserving refactorings written by isolated sub-agents (equiv/): no '
                     'false alarm.')
        else:
            note += (' Verified against behaviour-preserving refactorings written by isolated '
                     'sub-agents (equiv/): no false alarm; unfamiliar code shapes exit 2.')
        checks.append({
            'property_id': pid,
            'quick_cmd': './check %s quick' % pid,
            'thorough_cmd': './check %s thorough' % pid,
            'evidence_file': 'evidence/%s.json' % pid,
            'replay_cmd_template': './check %s quick' % pid,
            'engine': 'vf',
            'level_claimed': {'category': 'other', 'text': text, 'design_ref': ref},
            'level_note': note,
            'technique': technique,
        })
    na = []
    for i in range(1, 21):
        pid = 'C%02d' % i
        if pid not in CLAIMS:
            na.append({'property_id': pid, 'reason': NOT_YET.get(
                pid, 'static check designed (DESIGN.md section 3) but not yet built in this '
                     'commit; not claimed until its checker exists and passes its self-test')})
    man = {
        'version': 1,
        'setup_cmd': 'python3 -B -c "import ast, fractions, sys; sys.path.insert(0, \'.\'); '
                     'import vf.cli, vf.interp, vf.poly, vf.model, vf.report; print(\'vf ok\')"',
        'hooks': {
            'guard': 'PLOTINK_VERIF',
            'enable': 'none needed: the checks are static (they parse /repo/plotink/*.py); no '
                      'instrumentation exists in /repo and the guard variable is never read',
            'baseline_off_cmd': BASELINE_CMD,
            'source_commits': [],
            'add_only': True,
        },
        'engines': [{
            'name': 'vf',
            'path': 'vf/',
            'serves_properties': sorted(CLAIMS),
            'kind_free_text': 'repository-specific static analysis over the stdlib ast: program '
                              'model + call graph, statement CFG with dominance, abstract '
                              'interpreter over rational normal forms / string templates / '
                              'finite case domains, table extraction and comparison',
        }],
        'checks': checks,
        'not_applicable': na,
        'notes': 'Static analysis only: no repo code is imported or executed by any check; exit 0 '
                 '= all obligations discharged, exit 1 = VIOLATION lines, exit 2 = ANALYSIS-ERROR '
                 '(cannot conclude; never a violation). Tiers: quick = all rules; thorough = deeper domains plus a mutation-adequacy audit recorded in the evidence (DESIGN.md 8.8). Eighteen genuine defects found by the rules '
                 'were repaired by fix: commits in /repo (F1-F18; the former known finding K1 is part of F17); '
                 'none is left recorded rather than repaired. All are listed in '
                 '/verif/known_findings.json (DESIGN.md 4.1, 8.2).',
    }
    with open(os.path.join(VERIF, 'MANIFEST.json'), 'w') as fh:
        json.dump(man, fh, indent=1)
    return man


if __name__ == '__main__':
    m = build()
    print('MANIFEST.json: %d checks, %d not_applicable' % (len(m['checks']), len(m['not_applicable'])))
